package repro

import (
	"bytes"
	"context"
	"strings"
	"testing"

	zed "github.com/brimdata/super"
	"github.com/brimdata/super/api"
	lakeapi "github.com/brimdata/super/lake/api"
	"github.com/brimdata/super/lake/data"
	"github.com/brimdata/super/order"
	"github.com/brimdata/super/zbuf"
	"github.com/brimdata/super/zio"
	"github.com/brimdata/super/zio/zsonio"
	"github.com/segmentio/ksuid"
	"go.uber.org/zap"
)

type mergeLake struct {
	t    *testing.T
	ctx  context.Context
	lk   lakeapi.Interface
	pool ksuid.KSUID
}

func newMergeLake(t *testing.T) *mergeLake {
	ctx := context.Background()
	lk, err := lakeapi.CreateLocalLake(ctx, zap.NewNop(), t.TempDir())
	if err != nil {
		t.Fatal(err)
	}
	sortKeys := order.SortKeys{order.NewSortKey(order.Asc, []string{"a"})}
	pool, err := lk.CreatePool(ctx, "test", sortKeys, data.DefaultSeekStride, data.DefaultThreshold)
	if err != nil {
		t.Fatal(err)
	}
	return &mergeLake{t: t, ctx: ctx, lk: lk, pool: pool}
}

func (m *mergeLake) load(branch, zson string) ksuid.KSUID {
	m.t.Helper()
	zctx := zed.NewContext()
	id, err := m.lk.Load(m.ctx, zctx, m.pool, branch, zsonio.NewReader(zctx, strings.NewReader(zson)), api.CommitMessage{})
	if err != nil {
		m.t.Fatalf("load into %s: %v", branch, err)
	}
	return id
}

func (m *mergeLake) deleteWhere(branch, pred string) {
	m.t.Helper()
	if _, err := m.lk.DeleteWhere(m.ctx, m.pool, branch, pred, api.CommitMessage{}); err != nil {
		m.t.Fatalf("delete -where %q on %s: %v", pred, branch, err)
	}
}

func (m *mergeLake) branch(name, from string) {
	m.t.Helper()
	tip, err := m.lk.CommitObject(m.ctx, m.pool, from)
	if err != nil {
		m.t.Fatal(err)
	}
	if err := m.lk.CreateBranch(m.ctx, m.pool, name, tip); err != nil {
		m.t.Fatal(err)
	}
}

func (m *mergeLake) read(branch string) string {
	m.t.Helper()
	q, err := m.lk.Query(m.ctx, nil, "from test@"+branch+" | sort this")
	if err != nil {
		m.t.Fatalf("query %s: %v", branch, err)
	}
	defer q.Pull(true)
	var buf bytes.Buffer
	w := zsonio.NewWriter(zio.NopCloser(&buf), zsonio.WriterOpts{})
	if err := zbuf.CopyPuller(w, q); err != nil {
		m.t.Fatalf("branch %s is not readable: %v", branch, err)
	}
	w.Close()
	return strings.Join(strings.Fields(buf.String()), " ")
}


// The parent deletes an object of the common base that the child never touched; the child only
// adds.  Merging the child must give parent + child-adds: the deleted object must stay deleted.
func TestMergeKeepsParentDelete(t *testing.T) {
	m := newMergeLake(t)
	m.load("main", "{a:1}")
	m.load("main", "{a:2}")
	m.branch("child", "main")
	m.deleteWhere("main", "a==1") // whole object {a:1} deleted on main
	m.load("child", "{a:4}")
	if got, want := m.read("main"), "{a:2}"; got != want {
		t.Fatalf("main before merge: got %s, want %s", got, want)
	}
	if _, err := m.lk.MergeBranch(m.ctx, m.pool, "child", "main", api.CommitMessage{}); err != nil {
		t.Fatalf("merge: %v", err)
	}
	if got, want := m.read("main"), "{a:2} {a:4}"; got != want {
		t.Fatalf("DEFECT: main after merge: got %s, want %s (an object deleted on main came back)", got, want)
	}
}
