package repro

import (
	"context"
	"fmt"
	"strings"
	"testing"

	zed "github.com/brimdata/super"
	"github.com/brimdata/super/api"
	"github.com/brimdata/super/compiler"
	"github.com/brimdata/super/compiler/parser"
	lakeapi "github.com/brimdata/super/lake/api"
	"github.com/brimdata/super/order"
	"github.com/brimdata/super/pkg/field"
	"github.com/brimdata/super/runtime"
	"github.com/brimdata/super/zio/zsonio"
	"github.com/brimdata/super/zson"
	"go.uber.org/zap"
)

// seedLake creates a lake with one pool ordered by k in the given direction
// and commits each element of loads as a separate data object.
func seedLakeAB2(t *testing.T, which order.Which, loads []string) lakeapi.Interface {
	t.Helper()
	ctx := context.Background()
	lk, err := lakeapi.CreateLocalLake(ctx, zap.NewNop(), t.TempDir())
	if err != nil {
		t.Fatal(err)
	}
	sortKeys := order.SortKeys{order.NewSortKey(which, field.Path{"a", "b"})}
	id, err := lk.CreatePool(ctx, "p", sortKeys, 0, 0)
	if err != nil {
		t.Fatal(err)
	}
	for _, s := range loads {
		zctx := zed.NewContext()
		r := zsonio.NewReader(zctx, strings.NewReader(s))
		if _, err := lk.Load(ctx, zctx, id, "main", r, api.CommitMessage{}); err != nil {
			t.Fatal(err)
		}
	}
	return lk
}

func runLakeQueryAB2(t *testing.T, lk lakeapi.Interface, src string, parallelism int) []string {
	t.Helper()
	seq, _, err := parser.ParseSuperPipe(nil, src)
	if err != nil {
		t.Fatal(err)
	}
	rctx := runtime.NewContext(context.Background(), zed.NewContext())
	defer rctx.Cancel()
	q, err := compiler.NewLakeCompiler(lk.Root()).NewLakeQuery(rctx, seq, parallelism, nil)
	if err != nil {
		t.Fatal(err)
	}
	defer q.Close()
	var out []string
	for {
		batch, err := q.Pull(false)
		if err != nil {
			t.Fatal(err)
		}
		if batch == nil {
			return out
		}
		for _, val := range batch.Values() {
			out = append(out, zson.FormatValue(val))
		}
		batch.Unref()
	}
}


// drop of a parent of the pool key: the optimizer still believes the stream is sorted on the key
// and lifts the drop in front of the merge.
func TestCutWithoutPoolKey(t *testing.T) {
	var loads []string
	for i := 0; i < 6; i++ {
		var sb strings.Builder
		for j := 0; j < 5; j++ {
			fmt.Fprintf(&sb, "{a:{b:%d},v:%d}\n", i*5+j, i*5+j)
		}
		loads = append(loads, sb.String())
	}
	lk := seedLakeAB2(t, order.Asc, loads)
	for _, q := range []string{"from p | cut v", "from p | cut w:=v", "from p | cut a", "from p | cut k:=a.b,v"} {
		want := runLakeQueryAB2(t, lk, q, 1)
		for _, par := range []int{2, 3} {
			got := runLakeQueryAB2(t, lk, q, par)
			if strings.Join(got, " ") != strings.Join(want, " ") {
				t.Errorf("DEFECT %q parallelism %d:\n got  %s\n want %s", q, par, strings.Join(got, " "), strings.Join(want, " "))
			}
		}
	}
}
