package repro

import (
	"context"
	"net/http/httptest"
	"testing"

	"github.com/brimdata/super/api/client"
	lakeapi "github.com/brimdata/super/lake/api"
	"github.com/brimdata/super/order"
	"github.com/brimdata/super/pkg/field"
	"github.com/brimdata/super/service"
	"go.uber.org/zap"
)

// Removing a branch named ".." through the service must not remove the pool.
func TestRemoteDotDotBranch(t *testing.T) {
	ctx := context.Background()
	run := func(lk lakeapi.Interface) (error, error) {
		pool, err := lk.CreatePool(ctx, "p", order.SortKeys{order.NewSortKey(order.Asc, field.Path{"k"})}, 0, 0)
		if err != nil {
			t.Fatal(err)
		}
		rmErr := lk.RemoveBranch(ctx, pool, "..")
		_, idErr := lk.PoolID(ctx, "p")
		return rmErr, idErr
	}
	direct, err := lakeapi.CreateLocalLake(ctx, zap.NewNop(), t.TempDir())
	if err != nil {
		t.Fatal(err)
	}
	drm, did := run(direct)
	core, err := service.NewCore(ctx, service.Config{Root: mustURI(t, t.TempDir()), Logger: zap.NewNop()})
	if err != nil {
		t.Fatal(err)
	}
	srv := httptest.NewServer(core)
	defer srv.Close()
	rrm, rid := run(lakeapi.NewRemoteLake(client.NewConnectionTo(srv.URL)))
	t.Logf("direct: remove=%v pool lookup=%v; service: remove=%v pool lookup=%v", drm, did, rrm, rid)
	if (drm == nil) != (rrm == nil) || (did == nil) != (rid == nil) {
		t.Errorf("DEFECT: removing branch \"..\" differs: direct (%v, pool %v), service (%v, pool %v)", drm, did, rrm, rid)
	}
}
