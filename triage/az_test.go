package repro

import (
	"testing"

	"github.com/brimdata/super/vector"
)

func TestVectorOr(t *testing.T) {
	defer func() {
		if p := recover(); p != nil {
			t.Errorf("DEFECT: vector.Or of two 3-slot vectors panics: %v", p)
		}
	}()
	a := vector.NewBoolEmpty(3, nil)
	b := vector.NewBoolEmpty(3, nil)
	a.Set(0)
	b.Set(2)
	out := vector.Or(a, b)
	if !out.Value(0) || out.Value(1) || !out.Value(2) {
		t.Errorf("wrong or: %s", out)
	}
	c := vector.NewBoolEmpty(130, nil)
	d := vector.NewBoolEmpty(130, nil)
	c.Set(129)
	d.Set(64)
	out = vector.Or(c, d)
	if !out.Value(129) || !out.Value(64) || out.Value(0) {
		t.Errorf("wrong or over several words")
	}
}
