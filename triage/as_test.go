package repro

import (
	"fmt"
	"testing"

	zed "github.com/brimdata/super"
	"github.com/brimdata/super/zson"
)

// every pairing of primitive key and value texts in a compact map must survive a round trip
func TestMapKeyValuePairs(t *testing.T) {
	prims := []string{"1", "-1", "1.5", "1e3", "2(uint8)", "1s", "1m30s", "1970-01-01T00:00:00Z", "2020-02-02T02:02:02.5Z", "1.2.3.4", "::1", "fe80::1", "::ffff:1.2.3.4", "1.2.3.0/24", "fe80::/64", `"s"`, "true", "null(int64)", "0x0102", "<int64>", "0.", "NaN", "+Inf"}
	bad := 0
	for _, k := range prims {
		for _, v := range prims {
			if k == "null(int64)" {
				continue
			}
			s := fmt.Sprintf("|{%s: %s}|", k, v)
			val, err := zson.ParseValue(zed.NewContext(), s)
			if err != nil {
				continue // not our concern: the input form itself
			}
			out := zson.FormatValue(val)
			val2, err := zson.ParseValue(zed.NewContext(), out)
			if err != nil || zson.FormatValue(val2) != out || string(val2.Bytes()) != string(val.Bytes()) {
				bad++
				t.Errorf("DEFECT %s formats as %s: %v", s, out, err)
			}
		}
	}
	t.Log(bad, "failures")
}
