package repro

import (
	"testing"

	zed "github.com/brimdata/super"
	"github.com/brimdata/super/zcode"
	"github.com/brimdata/super/zson"
)

// A value that passes Validate must be formattable.
func TestValidateLooksInsideSets(t *testing.T) {
	zctx := zed.NewContext()
	enum := zctx.LookupTypeEnum([]string{"a", "b"})
	var b zcode.Builder
	b.BeginContainer()
	b.Append(zed.EncodeUint(7))
	b.EndContainer()
	set := zed.NewValue(zctx.LookupTypeSet(enum), b.Bytes().Body())
	arr := zed.NewValue(zctx.LookupTypeArray(enum), b.Bytes().Body())
	for name, v := range map[string]zed.Value{"set of enum": set, "array of enum": arr} {
		err := v.Validate()
		func() {
			defer func() {
				if p := recover(); p != nil && err == nil {
					t.Errorf("DEFECT %s: Validate accepted the value, formatting it panics: %v", name, p)
				}
			}()
			_ = zson.FormatValue(v)
		}()
		t.Log(name, "validate:", err)
	}
}
