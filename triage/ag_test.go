package repro

import (
	"testing"

	zed "github.com/brimdata/super"
	"github.com/brimdata/super/zson"
)

func TestZSONRoundTripNames(t *testing.T) {
	for _, s := range []string{
		`null("a b"=int64)`,
		`1("a b"=int64)`,
		`{x:1}(="a b")`,
		`<"a b"=int64>`,
		`%a(foo=enum(a,b))`,
		`%a(enum(a,b))`,
		`%"a b"(enum("a b",c))`,
		`1("error"=int64)`,
		`1("123"=int64)`,
		`{a:1(foo=int32),b:<foo=string>,c:2(foo=int32)}`,
		`::ffff:1.2.3.4`,
	} {
		zctx := zed.NewContext()
		v, err := zson.ParseValue(zctx, s)
		if err != nil {
			t.Errorf("parse %s: %v", s, err)
			continue
		}
		out := zson.FormatValue(v)
		v2, err := zson.ParseValue(zed.NewContext(), out)
		if err != nil {
			t.Errorf("%s formats as %s which does not parse: %v", s, out, err)
			continue
		}
		if out2 := zson.FormatValue(v2); out2 != out || zson.String(v2.Type()) != zson.String(v.Type()) {
			t.Errorf("%s -> %s -> %s (types %s / %s)", s, out, out2, zson.String(v.Type()), zson.String(v2.Type()))
		} else {
			t.Logf("ok %s -> %s", s, out)
		}
	}
}
