package repro

import (
	"bytes"
	"testing"

	zed "github.com/brimdata/super"
	"github.com/brimdata/super/compiler/optimizer/demand"
	"github.com/brimdata/super/vng"
	"github.com/brimdata/super/zio"
	"github.com/brimdata/super/zio/anyio"
	"github.com/brimdata/super/zio/zngio"
	"github.com/brimdata/super/zson"
)

// #8 VNG metadata with absurd MemLength
func TestVNGHugeMemLength(t *testing.T) {
	defer func() {
		if r := recover(); r != nil {
			t.Errorf("DEFECT: panic reading crafted VNG: %v", r)
		}
	}()
	zctx := zed.NewContext()
	var meta vng.Metadata = &vng.Primitive{
		Typ:      zed.TypeString,
		Location: vng.Segment{Offset: 0, Length: 0, MemLength: 1 << 62, CompressionFormat: 0},
		Count:    1,
	}
	var metaBuf bytes.Buffer
	zw := zngio.NewWriter(zio.NopCloser(&metaBuf))
	m := zson.NewZNGMarshalerWithContext(zctx)
	m.Decorate(zson.StyleSimple)
	val, err := m.Marshal(meta)
	if err != nil {
		t.Fatal(err)
	}
	if err := zw.Write(val); err != nil {
		t.Fatal(err)
	}
	zw.EndStream()
	var file bytes.Buffer
	file.Write(vng.Header{Version: vng.Version, MetaSize: uint64(zw.Position()), DataSize: 0}.Serialize())
	file.Write(metaBuf.Bytes())
	r, err := anyio.NewReaderWithOpts(zed.NewContext(), bytes.NewReader(file.Bytes()), demand.All(), anyio.ReaderOpts{})
	t.Logf("open err=%v", err)
	if err != nil {
		return
	}
	v, err := r.Read()
	t.Logf("read v=%v err=%v", v, err)
}
