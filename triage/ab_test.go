package repro

import (
	"testing"

	"github.com/brimdata/super/api"
)

// Repeated merges: the common ancestor never advances (merge commits have one parent).
func TestRepeatedMerge(t *testing.T) {
	// 1. child adds X, merges; child deletes X, adds Y, merges again.
	m := newMergeLake(t)
	m.load("main", "{a:0}")
	m.branch("child", "main")
	m.load("child", "{a:1}")
	if _, err := m.lk.MergeBranch(m.ctx, m.pool, "child", "main", api.CommitMessage{}); err != nil {
		t.Fatal(err)
	}
	m.deleteWhere("child", "a==1")
	m.load("child", "{a:2}")
	if _, err := m.lk.MergeBranch(m.ctx, m.pool, "child", "main", api.CommitMessage{}); err != nil {
		t.Fatalf("second merge: %v", err)
	}
	t.Logf("case 1: child=%s main=%s (previous {a:0} {a:1}, plus child adds {a:1} {a:2}, minus child deletes {a:1})", m.read("child"), m.read("main"))
	if got, want := m.read("main"), "{a:0} {a:2}"; got != want {
		t.Errorf("DEFECT case 1: main after second merge: got %s, want %s", got, want)
	}
	// 2. child adds X, merges; main deletes X; child adds Y, merges again.
	m = newMergeLake(t)
	m.load("main", "{a:0}")
	m.branch("child", "main")
	m.load("child", "{a:1}")
	if _, err := m.lk.MergeBranch(m.ctx, m.pool, "child", "main", api.CommitMessage{}); err != nil {
		t.Fatal(err)
	}
	m.deleteWhere("main", "a==1")
	m.load("child", "{a:2}")
	if _, err := m.lk.MergeBranch(m.ctx, m.pool, "child", "main", api.CommitMessage{}); err != nil {
		t.Fatalf("second merge: %v", err)
	}
	t.Logf("case 2: child=%s main=%s", m.read("child"), m.read("main"))
}
