package repro

import (
	"strings"
	"testing"

	zed "github.com/brimdata/super"
	"github.com/brimdata/super/zio/zjsonio"
	"github.com/brimdata/super/zio/zsonio"
)

// The same map read from ZJSON (entries listed in another order) and from ZSON must be the same value.
func TestZJSONMapNormalised(t *testing.T) {
	zctx := zed.NewContext()
	zj := `{"type":{"kind":"map","id":30,"key_type":{"kind":"primitive","name":"string"},"val_type":{"kind":"primitive","name":"int64"}},"value":[["b","1"],["a","2"]]}`
	v1, err := zjsonio.NewReader(zctx, strings.NewReader(zj)).Read()
	if err != nil {
		t.Fatal(err)
	}
	v1c := v1.Copy()
	v2, err := zsonio.NewReader(zctx, strings.NewReader(`|{"b":1,"a":2}|`)).Read()
	if err != nil {
		t.Fatal(err)
	}
	if v1c.Type() != v2.Type() || string(v1c.Bytes()) != string(v2.Bytes()) {
		t.Errorf("DEFECT: map from ZJSON has bytes %x, from ZSON %x", v1c.Bytes(), v2.Bytes())
	}
}
