package repro

import (
	"context"
	"net/http/httptest"
	"testing"

	"github.com/brimdata/super/api/client"
	lakeapi "github.com/brimdata/super/lake/api"
	"github.com/brimdata/super/order"
	"github.com/brimdata/super/pkg/field"
	"github.com/brimdata/super/pkg/storage"
	"github.com/brimdata/super/service"
	"github.com/segmentio/ksuid"
	"go.uber.org/zap"
)

// Dropping a branch through the service must work like direct access.
func TestRemoteRemoveBranch(t *testing.T) {
	ctx := context.Background()
	core, err := service.NewCore(ctx, service.Config{Root: mustURI(t, t.TempDir()), Logger: zap.NewNop()})
	if err != nil {
		t.Fatal(err)
	}
	srv := httptest.NewServer(core)
	defer srv.Close()
	lk := lakeapi.NewRemoteLake(client.NewConnectionTo(srv.URL))
	pool, err := lk.CreatePool(ctx, "p", order.SortKeys{order.NewSortKey(order.Asc, field.Path{"k"})}, 0, 0)
	if err != nil {
		t.Fatal(err)
	}
	if err := lk.CreateBranch(ctx, pool, "b", ksuid.Nil); err != nil {
		t.Fatal(err)
	}
	if err := lk.RemoveBranch(ctx, pool, "b"); err != nil {
		t.Fatalf("DEFECT: remote RemoveBranch: %v", err)
	}
	if _, err := lk.CommitObject(ctx, pool, "b"); err == nil {
		t.Fatalf("DEFECT: branch still exists after RemoveBranch")
	}
}

func mustURI(t *testing.T, dir string) *storage.URI {
	u, err := storage.ParseURI(dir)
	if err != nil {
		t.Fatal(err)
	}
	return u
}
