package repro

import (
	"context"
	"encoding/binary"
	"fmt"
	"os"
	"path/filepath"
	"testing"

	"github.com/brimdata/super/lake/branches"
	"github.com/brimdata/super/pkg/storage"
	"github.com/segmentio/ksuid"
	"go.uber.org/zap"
)

// A crash while the journal store rewrites its snapshot file (a plain, non-atomic Put) leaves a
// torn snap.zng.  Reopening must still see every branch: the journal itself is complete.
func TestTornJournalSnapshot(t *testing.T) {
	ctx := context.Background()
	dir := t.TempDir()
	uri := mustURI(t, dir)
	engine := storage.NewLocalEngine()
	st, err := branches.CreateStore(ctx, engine, zap.NewNop(), uri)
	if err != nil {
		t.Fatal(err)
	}
	const n = 2500
	for i := 0; i < n; i++ {
		if err := st.Add(ctx, branches.NewConfig(fmt.Sprintf("b%05d_%0300d", i, i), ksuid.New())); err != nil {
			t.Fatal(err)
		}
	}
	// make sure a snapshot exists: load through a second handle (a load that replays > 10 entries writes one)
	st2, err := branches.OpenStore(ctx, engine, zap.NewNop(), uri)
	if err != nil {
		t.Fatal(err)
	}
	if all, _ := st2.All(ctx); len(all) != n {
		t.Fatalf("before: %d branches", len(all))
	}
	snap := filepath.Join(dir, "snap.zng")
	b, err := os.ReadFile(snap)
	if err != nil {
		t.Skipf("no snapshot file: %v", err)
	}
	cuts := []int{len(b) / 2, len(b) - 3, len(b) * 3 / 4, 12}
	cuts = append(cuts, frameBoundaries(b)...)
	t.Logf("cuts: %v", cuts)
	for _, cut := range cuts {
		if cut >= len(b) {
			continue
		}
		if err := os.WriteFile(snap, b[:cut], 0o644); err != nil {
			t.Fatal(err)
		}
		func() {
			defer func() {
				if r := recover(); r != nil {
					t.Errorf("DEFECT: torn snapshot (%d of %d bytes): reopening panics: %v", cut, len(b), r)
				}
			}()
			st3, err := branches.OpenStore(ctx, engine, zap.NewNop(), uri)
			if err != nil {
				t.Errorf("DEFECT: torn snapshot (%d of %d bytes): open: %v", cut, len(b), err)
				return
			}
			all, err := st3.All(ctx)
			if err != nil {
				t.Errorf("DEFECT: torn snapshot (%d of %d bytes): All: %v", cut, len(b), err)
				return
			}
			if len(all) != n {
				t.Errorf("DEFECT: torn snapshot (%d of %d bytes): %d of %d branches visible after reopen", cut, len(b), len(all), n)
			}
		}()
	}
}

// frameBoundaries returns the offsets at which a ZNG frame ends.
func frameBoundaries(b []byte) []int {
	var out []int
	off := 0
	for off < len(b) {
		code := b[off]
		off++
		if code == 0xff {
			out = append(out, off)
			continue
		}
		v, n := binary.Uvarint(b[off:])
		if n <= 0 {
			break
		}
		off += n
		size := int(v<<4) | int(code&0xf)
		off += size
		out = append(out, off)
	}
	return out
}
