package repro

import (
	"context"
	"reflect"
	"strings"
	"testing"

	zed "github.com/brimdata/super"
	"github.com/brimdata/super/api"
	lakeapi "github.com/brimdata/super/lake/api"
	"github.com/brimdata/super/order"
	"github.com/brimdata/super/pkg/field"
	"github.com/brimdata/super/zio/zsonio"
	"go.uber.org/zap"
)

// delete where P removes exactly the values for which P is true: values for which P is an
// error (divide by zero) or not a boolean are what `where P` does not select, and must stay.
func TestDeleteWhereErrorPredicate(t *testing.T) {
	for _, c := range []struct{ pred string }{{"2/(k-1) > 1"}, {"s > 'a'"}, {"k"}, {"k+1"}} {
		ctx := context.Background()
		lk, err := lakeapi.CreateLocalLake(ctx, zap.NewNop(), t.TempDir())
		if err != nil {
			t.Fatal(err)
		}
		id, err := lk.CreatePool(ctx, "p", order.SortKeys{order.NewSortKey(order.Asc, field.Path{"k"})}, 0, 0)
		if err != nil {
			t.Fatal(err)
		}
		zctx := zed.NewContext()
		if _, err := lk.Load(ctx, zctx, id, "main", zsonio.NewReader(zctx, strings.NewReader(`{k:1,s:"b"}{k:2,s:1}{k:3}`)), api.CommitMessage{}); err != nil {
			t.Fatal(err)
		}
		selected := runLakeQueryAB2(t, lk, "from p | where "+c.pred+" | sort k", 1)
		all := runLakeQueryAB2(t, lk, "from p | sort k", 1)
		var want []string
		for _, v := range all {
			keep := true
			for _, s := range selected {
				if s == v {
					keep = false
				}
			}
			if keep {
				want = append(want, v)
			}
		}
		if _, err := lk.DeleteWhere(ctx, id, "main", c.pred, api.CommitMessage{}); err != nil {
			t.Logf("delete where %s: %v", c.pred, err)
			continue
		}
		got := runLakeQueryAB2(t, lk, "from p | sort k", 1)
		if !reflect.DeepEqual(got, want) {
			t.Errorf("delete where %s: selected by where: %v; left %v, want %v", c.pred, selected, got, want)
		}
	}
}
