package repro

import (
	"bytes"
	"errors"
	"strings"
	"testing"

	zed "github.com/brimdata/super"
	"github.com/brimdata/super/zio"
	"github.com/brimdata/super/zio/csvio"
	"github.com/brimdata/super/zio/zngio"
	"github.com/brimdata/super/zio/zsonio"
	"github.com/brimdata/super/zson"
)

type failW struct{ n, failAt int }

func (f *failW) Write(b []byte) (int, error) {
	f.n++
	if f.n == f.failAt {
		return 0, errors.New("sink failed")
	}
	return len(b), nil
}
func (f *failW) Close() error { return nil }

// #1 zngio flush swallows errors
func TestZngFlush(t *testing.T) {
	zctx := zed.NewContext()
	w := zngio.NewWriterWithOpts(&failW{failAt: 1}, zngio.WriterOpts{FrameThresh: 1})
	err := w.Write(zson.MustParseValue(zctx, `{a:1}`))
	err2 := w.Close()
	t.Logf("write err=%v close err=%v", err, err2)
	if err == nil && err2 == nil {
		t.Errorf("DEFECT: sink failed on first write but no error reported")
	}
}

// #2 csv Close drops flush error
func TestCsvClose(t *testing.T) {
	zctx := zed.NewContext()
	w := csvio.NewWriter(&failW{failAt: 1}, csvio.WriterOpts{})
	err := w.Write(zson.MustParseValue(zctx, `{a:1}`))
	err2 := w.Close()
	t.Logf("write err=%v close err=%v", err, err2)
	if err == nil && err2 == nil {
		t.Errorf("DEFECT: csv sink failed but no error reported")
	}
}

// #5 LookupByValue aliases caller bytes
func TestLookupByValueAlias(t *testing.T) {
	zctx := zed.NewContext()
	other := zed.NewContext()
	typ := zson.MustParseValue(other, `<{a:int64,b:string}>`)
	buf := bytes.Clone(typ.Bytes())
	got, err := zctx.LookupByValue(buf)
	if err != nil {
		t.Fatal(err)
	}
	before := zson.FormatValue(zctx.LookupTypeValue(got))
	for i := range buf {
		buf[i] = 0xee // buffer recycled
	}
	after := zson.FormatValue(zctx.LookupTypeValue(got))
	t.Logf("before=%s after=%s", before, after)
	if before != after {
		t.Errorf("DEFECT: type value changed after caller's buffer was reused")
	}
}

// #5b LookupByValue overwrites canonical encoding with non-canonical one
func TestLookupByValueCanon(t *testing.T) {
	zctx := zed.NewContext()
	u := zctx.LookupTypeUnion([]zed.Type{zed.TypeInt64, zed.TypeString})
	canon := bytes.Clone(zctx.LookupTypeValue(u).Bytes())
	// hand-build the same union with members in the other order
	nc := []byte{zed.TypeValueUnion, 2, byte(zed.IDString), byte(zed.IDInt64)}
	got, err := zctx.LookupByValue(nc)
	if err != nil {
		t.Fatal(err)
	}
	if got != zed.Type(u) {
		t.Fatalf("different type")
	}
	now := zctx.LookupTypeValue(u).Bytes()
	t.Logf("canon=%v now=%v", canon, now)
	if !bytes.Equal(canon, now) {
		t.Errorf("DEFECT: type value of the same type changed after a lookup by an equivalent encoding")
	}
}

// #6 DecodeTypeValue union arm lacks nil check
func TestDecodeUnionTrunc(t *testing.T) {
	defer func() {
		if r := recover(); r != nil {
			t.Errorf("DEFECT: panic on truncated union type value: %v", r)
		}
	}()
	zctx := zed.NewContext()
	_, err := zctx.LookupByValue([]byte{zed.TypeValueUnion, 2, byte(zed.IDString)})
	t.Logf("err=%v", err)
}

// #9 field-name finder vs nested records in arrays (zng vs zson)
func TestSearchNested(t *testing.T) {
	_ = zio.Copy
	_ = zsonio.NewReader
	_ = strings.NewReader
}
