package repro

import (
	"bytes"
	"context"
	"io"
	"net/http"
	"net/http/httptest"
	"strings"
	"testing"

	"github.com/brimdata/super/api/client"
	lakeapi "github.com/brimdata/super/lake/api"
	"github.com/brimdata/super/order"
	"github.com/brimdata/super/pkg/field"
	"github.com/brimdata/super/service"
	"github.com/segmentio/ksuid"
	"go.uber.org/zap"
	"go.uber.org/zap/zapcore"
	"go.uber.org/zap/zaptest/observer"
)

// Probe the service with odd but well-formed requests and report any handler panic together
// with the status the client saw.
func TestHandlerPanicStatus(t *testing.T) {
	ctx := context.Background()
	obs, logs := observer.New(zapcore.DebugLevel)
	core, err := service.NewCore(ctx, service.Config{Root: mustURI(t, t.TempDir()), Logger: zap.New(obs)})
	if err != nil {
		t.Fatal(err)
	}
	srv := httptest.NewServer(core)
	defer srv.Close()
	lk := lakeapi.NewRemoteLake(client.NewConnectionTo(srv.URL))
	pool, err := lk.CreatePool(ctx, "p", order.SortKeys{order.NewSortKey(order.Asc, field.Path{"k"})}, 0, 0)
	if err != nil {
		t.Fatal(err)
	}
	reqs := []struct{ method, path, ctype, body string }{
		{"POST", "/query", "application/json", `{"query":null}`},
		{"POST", "/query", "application/json", `{"query":"from p | yield 1/0"}`},
		{"POST", "/query/describe", "application/json", `{"query":"from ( pool p => pass )"}`},
		{"POST", "/pool/" + pool.String() + "/branch/main/delete", "application/json", `{"object_ids":null,"where":""}`},
		{"POST", "/pool/" + pool.String() + "/branch/main/delete", "application/json", `{"where":"count()"}`},
		{"POST", "/pool/" + pool.String() + "/branch/main/revert/" + ksuid.New().String(), "application/json", ``},
		{"POST", "/pool/" + pool.String() + "/branch/main/merge/main", "application/json", ``},
		{"POST", "/pool/" + pool.String() + "/revision/main/vector", "application/json", `{"object_ids":["x"]}`},
		{"POST", "/pool/" + pool.String() + "/branch/main/compact", "application/json", `{"object_ids":[]}`},
		{"POST", "/pool/" + pool.String() + "/revision/main/vacuum?dryrun=maybe", "application/json", ``},
		{"GET", "/pool/" + pool.String() + "/stats", "", ``},
		{"POST", "/pool", "application/json", `{"name":"q","layout":{"order":"asc","keys":[[]]}}`},
		{"POST", "/pool", "application/json", `{"name":"r","layout":{"order":"sideways","keys":[["a"]]}}`},
		{"POST", "/compile", "application/json", `{"query":"from p | "}`},
		{"POST", "/pool/" + pool.String() + "/branch/main", "application/x-zson", "{a:"},
	}
	for _, rq := range reqs {
		before := logs.Len()
		req, _ := http.NewRequest(rq.method, srv.URL+rq.path, bytes.NewReader([]byte(rq.body)))
		if rq.ctype != "" {
			req.Header.Set("Content-Type", rq.ctype)
		}
		req.Header.Set("Accept", "application/json")
		res, err := http.DefaultClient.Do(req)
		if err != nil {
			t.Logf("%s %s: transport error %v", rq.method, rq.path, err)
			continue
		}
		body, _ := io.ReadAll(res.Body)
		res.Body.Close()
		panicked := false
		for _, e := range logs.All()[before:] {
			if strings.Contains(e.Message, "Panic") {
				panicked = true
			}
		}
		if panicked {
			t.Errorf("DEFECT: %s %s %s: handler panicked; client saw status %d, body %q", rq.method, rq.path, rq.body, res.StatusCode, string(body))
		}
	}
}
