package repro

import (
	"context"
	"reflect"
	"sort"
	"strings"
	"testing"

	zed "github.com/brimdata/super"
	"github.com/brimdata/super/api"
	lakeapi "github.com/brimdata/super/lake/api"
	"github.com/brimdata/super/order"
	"github.com/brimdata/super/pkg/field"
	"github.com/brimdata/super/zio/zsonio"
	"github.com/segmentio/ksuid"
	"go.uber.org/zap"
)

// count() by s must not change when the pool's objects get vector copies.
func TestVectorCountNulls(t *testing.T) {
	ctx := context.Background()
	lk, err := lakeapi.CreateLocalLake(ctx, zap.NewNop(), t.TempDir())
	if err != nil {
		t.Fatal(err)
	}
	id, err := lk.CreatePool(ctx, "p", order.SortKeys{order.NewSortKey(order.Asc, field.Path{"k"})}, 0, 0)
	if err != nil {
		t.Fatal(err)
	}
	for i := 0; i < 4; i++ {
		zctx := zed.NewContext()
		in := strings.Repeat(`{k:1,s:"a"}{k:2,s:null(string)}{k:3,s:"b"}`, 20)
		if _, err := lk.Load(ctx, zctx, id, "main", zsonio.NewReader(zctx, strings.NewReader(in)), api.CommitMessage{}); err != nil {
			t.Fatal(err)
		}
	}
	before := runLakeQueryAB2(t, lk, "from p | count() by s", 1)
	sort.Strings(before)
	var ids []ksuid.KSUID
	for _, s := range runLakeQueryAB2(t, lk, "from p@main:objects | yield ksuid(id)", 1) {
		oid, err := ksuid.Parse(strings.Trim(s, `"`))
		if err != nil {
			t.Fatal(err)
		}
		ids = append(ids, oid)
	}
	if _, err := lk.AddVectors(ctx, "p", "main", ids, api.CommitMessage{}); err != nil {
		t.Fatal(err)
	}
	for _, par := range []int{1, 2} {
		after := runLakeQueryAB2(t, lk, "from p | count() by s", par)
		sort.Strings(after)
		if !reflect.DeepEqual(before, after) {
			t.Errorf("DEFECT: parallelism %d: without vectors %v, with vectors %v", par, before, after)
		}
	}
}
