package repro

import (
	"bytes"
	"strings"
	"testing"

	zed "github.com/brimdata/super"
	"github.com/brimdata/super/zio"
	"github.com/brimdata/super/zio/zjsonio"
	"github.com/brimdata/super/zio/zsonio"
)

// A ZJSON enum value whose index is outside the enum must be an error, not a value that makes
// the writer panic.
func TestZJSONEnumIndex(t *testing.T) {
	for _, idx := range []string{"7", "-1"} {
		zctx := zed.NewContext()
		zj := `{"type":{"kind":"enum","id":30,"symbols":["a","b"]},"value":"` + idx + `"}`
		r := zjsonio.NewReader(zctx, strings.NewReader(zj))
		var buf bytes.Buffer
		w := zsonio.NewWriter(zio.NopCloser(&buf), zsonio.WriterOpts{})
		func() {
			defer func() {
				if p := recover(); p != nil {
					t.Errorf("DEFECT: index %s: panic %v", idx, p)
				}
			}()
			err := zio.Copy(w, r)
			t.Logf("index %s: err=%v out=%q", idx, err, buf.String())
		}()
	}
}
