package repro

import (
	"context"
	"fmt"
	"reflect"
	"sort"
	"strings"
	"testing"

	zed "github.com/brimdata/super"
	"github.com/brimdata/super/api"
	lakeapi "github.com/brimdata/super/lake/api"
	"github.com/brimdata/super/order"
	"github.com/brimdata/super/pkg/field"
	"github.com/brimdata/super/zio/zsonio"
	"go.uber.org/zap"
)

// discovery sweep: mixed-type keys, literal of every type on either side
func TestPruneMixedTypes(t *testing.T) {
	keys := []string{"1", "3", "7", "2(uint64)", "6(uint8)", "9223372036854775809(uint64)", "2.5", "-1.", "NaN", "+Inf",
		"1970-01-01T00:00:00.000000003Z", "4ns", `"a"`, `"c"`, `"e"`, "true", "false", "null", "null(int64)", "10.0.0.1", "0x01", "-5", "1e300"}
	lits := []string{"2", "5", "2.", "5.5", "uint64(3)", `"c"`, "true", "false", "1970-01-01T00:00:00.000000005Z", "5ns", "10.0.0.1", "-1", "0x01", "null"}
	for _, dir := range []order.Which{order.Asc, order.Desc} {
		ctx := context.Background()
		lk, err := lakeapi.CreateLocalLake(ctx, zap.NewNop(), t.TempDir())
		if err != nil {
			t.Fatal(err)
		}
		id, err := lk.CreatePool(ctx, "p", order.SortKeys{order.NewSortKey(dir, field.Path{"k"})}, 0, 0)
		if err != nil {
			t.Fatal(err)
		}
		// each key in its own object, plus pairs
		var loads []string
		for _, k := range keys {
			loads = append(loads, fmt.Sprintf("{k:%s,v:%q}\n", k, k))
		}
		for i := 0; i+1 < len(keys); i += 2 {
			loads = append(loads, fmt.Sprintf("{k:%s,v:%q}\n{k:%s,v:%q}\n", keys[i], "p"+keys[i], keys[i+1], "p"+keys[i+1]))
		}
		loads = append(loads, "{v:\"missing\"}\n")
		for _, s := range loads {
			zctx := zed.NewContext()
			if _, err := lk.Load(ctx, zctx, id, "main", zsonio.NewReader(zctx, strings.NewReader(s)), api.CommitMessage{}); err != nil {
				t.Fatal(err)
			}
		}
		for _, lit := range lits {
			for _, op := range []string{"==", "!=", "<", "<=", ">", ">="} {
				for _, form := range []string{"k %s %s", "%[2]s %[1]s k", "not (k %s %s)", "k %s %s or v==\"zz\"", "k %s %s and k != 99"} {
					pred := fmt.Sprintf(form, op, lit)
					pruned := runLakeQueryAB2(t, lk, "from p | "+pred+" | yield v", 1)
					full := runLakeQueryAB2(t, lk, "from p | yield this | put x:=1 | drop x | "+pred+" | yield v", 1)
					sort.Strings(pruned)
					sort.Strings(full)
					if !reflect.DeepEqual(pruned, full) {
						t.Errorf("%v %s:\n pruned %v\n full   %v", dir, pred, pruned, full)
					}
				}
			}
		}
	}
}
