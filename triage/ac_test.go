package repro

import (
	"context"
	"sort"
	"strings"
	"testing"

	"github.com/brimdata/super/lake"
	"github.com/brimdata/super/order"
	"github.com/brimdata/super/pkg/storage"
)

type getHookEngine struct {
	storage.Engine
	onGet func(u *storage.URI)
}

func (e *getHookEngine) Get(ctx context.Context, u *storage.URI) (storage.Reader, error) {
	if e.onGet != nil {
		e.onGet(u)
	}
	return e.Engine.Get(ctx, u)
}

// Client X renames pool id1 (named "a") to "b".  Between X's lookup of the old name and its
// journal update, client Y renames id1 to "c" and creates a new pool named "a".  X's rename must
// not touch Y's new pool.
func TestRenameRace(t *testing.T) {
	ctx := context.Background()
	path, err := storage.ParseURI(t.TempDir())
	if err != nil {
		t.Fatal(err)
	}
	if _, err := lake.Create(ctx, storage.NewLocalEngine(), nil, path); err != nil {
		t.Fatal(err)
	}
	y, err := lake.Open(ctx, storage.NewLocalEngine(), nil, path)
	if err != nil {
		t.Fatal(err)
	}
	p1, err := y.CreatePool(ctx, "a", order.SortKeys{}, 0, 0)
	if err != nil {
		t.Fatal(err)
	}
	engine := &getHookEngine{Engine: storage.NewLocalEngine()}
	x, err := lake.Open(ctx, engine, nil, path)
	if err != nil {
		t.Fatal(err)
	}
	heads := 0
	engine.onGet = func(u *storage.URI) {
		if !strings.HasSuffix(u.String(), "pools/HEAD") {
			return
		}
		heads++
		if heads == 2 { // the journal update's load, after the lookup's load
			if err := y.RenamePool(ctx, p1.ID, "c"); err != nil {
				t.Fatal(err)
			}
			if _, err := y.CreatePool(ctx, "a", order.SortKeys{}, 0, 0); err != nil {
				t.Fatal(err)
			}
		}
	}
	err = x.RenamePool(ctx, p1.ID, "b")
	t.Logf("X's rename: %v (HEAD reads: %d)", err, heads)
	engine.onGet = nil
	z, err := lake.Open(ctx, storage.NewLocalEngine(), nil, path)
	if err != nil {
		t.Fatal(err)
	}
	configs, err := z.ListPools(ctx)
	if err != nil {
		t.Fatal(err)
	}
	var names []string
	ids := map[string]int{}
	for _, c := range configs {
		names = append(names, c.Name)
		ids[c.ID.String()]++
	}
	sort.Strings(names)
	t.Log("pools:", names)
	if len(ids) != 2 || len(names) != 2 {
		t.Errorf("DEFECT: after the race the lake lists %v (%d distinct pools); Y's acknowledged pool \"a\" was lost or a pool is listed twice", names, len(ids))
	}
}
