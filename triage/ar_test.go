package repro

import (
	"testing"

	zed "github.com/brimdata/super"
)

// A union type is canonical: the same set of members gives the same type whatever the order.
func TestUnionOfSameNamedTypes(t *testing.T) {
	zctx := zed.NewContext()
	b, _ := zctx.LookupTypeNamed("B", zed.TypeInt64)
	c, _ := zctx.LookupTypeNamed("C", zed.TypeInt64)
	ab, _ := zctx.LookupTypeNamed("A", b)
	ac, _ := zctx.LookupTypeNamed("A", c)
	u1 := zctx.LookupTypeUnion([]zed.Type{ab, ac})
	u2 := zctx.LookupTypeUnion([]zed.Type{ac, ab})
	if u1 != u2 {
		t.Errorf("DEFECT: the union of {A=(B=int64), A=(C=int64)} depends on the order of its members: %p %p (CompareTypes=%d)", u1, u2, zed.CompareTypes(ab, ac))
	}
}
