package repro

import (
	"bytes"
	"os"
	"path/filepath"
	"testing"

	zed "github.com/brimdata/super"
	"github.com/brimdata/super/lake"
	"github.com/brimdata/super/pkg/storage"
	"github.com/brimdata/super/vng"
	"github.com/brimdata/super/zio/vngio"
	"context"
)

// An empty metadata section / version file is an error, not a nil dereference.
func TestEmptyMetadataFiles(t *testing.T) {
	func() {
		defer func() {
			if p := recover(); p != nil {
				t.Errorf("DEFECT vng: panic %v", p)
			}
		}()
		// a VNG object whose metadata section is a ZNG stream holding no value
		for _, meta := range [][]byte{{0xff}, {}} {
			var buf bytes.Buffer
			buf.Write(vng.Header{Version: vng.Version, MetaSize: uint64(len(meta)), DataSize: 0}.Serialize())
			buf.Write(meta)
			_, err := vngio.NewReader(zed.NewContext(), bytes.NewReader(buf.Bytes()), nil)
			t.Logf("vng meta %x: err=%v", meta, err)
		}
	}()
	func() {
		defer func() {
			if p := recover(); p != nil {
				t.Errorf("DEFECT lake: panic %v", p)
			}
		}()
		dir := t.TempDir()
		if err := os.WriteFile(filepath.Join(dir, "lake.zng"), nil, 0600); err != nil {
			t.Fatal(err)
		}
		u, _ := storage.ParseURI(dir)
		_, err := lake.Open(context.Background(), storage.NewLocalEngine(), nil, u)
		t.Logf("lake open with empty lake.zng: err=%v", err)
	}()
}
