package repro

import (
	"context"
	"net/http/httptest"
	"testing"

	"github.com/brimdata/super/api/client"
	lakeapi "github.com/brimdata/super/lake/api"
	"github.com/brimdata/super/order"
	"github.com/brimdata/super/service"
	"go.uber.org/zap"
)

// Creating a pool through the service must give the same result or error as direct access.
func TestRemoteCreatePoolSortKeys(t *testing.T) {
	ctx := context.Background()
	for _, orderby := range []string{"a,b:asc", ""} {
		keys, err := order.ParseSortKeys(orderby)
		if err != nil {
			t.Fatal(err)
		}
		direct, err := lakeapi.CreateLocalLake(ctx, zap.NewNop(), t.TempDir())
		if err != nil {
			t.Fatal(err)
		}
		_, derr := direct.CreatePool(ctx, "p", keys, 0, 0)
		core, err := service.NewCore(ctx, service.Config{Root: mustURI(t, t.TempDir()), Logger: zap.NewNop()})
		if err != nil {
			t.Fatal(err)
		}
		srv := httptest.NewServer(core)
		remote := lakeapi.NewRemoteLake(client.NewConnectionTo(srv.URL))
		var rerr error
		func() {
			defer func() {
				if r := recover(); r != nil {
					t.Errorf("DEFECT orderby=%q: remote CreatePool panics: %v (direct: err=%v)", orderby, r, derr)
					rerr = derr
				}
			}()
			_, rerr = remote.CreatePool(ctx, "p", keys, 0, 0)
		}()
		srv.Close()
		if (derr == nil) != (rerr == nil) {
			t.Errorf("DEFECT orderby=%q: direct err=%v, remote err=%v", orderby, derr, rerr)
		}
	}
}
