package repro

import (
	"context"
	"fmt"
	"strings"
	"testing"

	zed "github.com/brimdata/super"
	"github.com/brimdata/super/api"
	"github.com/brimdata/super/compiler"
	"github.com/brimdata/super/compiler/parser"
	lakeapi "github.com/brimdata/super/lake/api"
	"github.com/brimdata/super/order"
	"github.com/brimdata/super/pkg/field"
	"github.com/brimdata/super/runtime"
	"github.com/brimdata/super/zio/zsonio"
	"github.com/brimdata/super/zson"
	"go.uber.org/zap"
)

// seedLake creates a lake with one pool ordered by k in the given direction
// and commits each element of loads as a separate data object.
func seedLakeBD(t *testing.T, which order.Which, loads []string) lakeapi.Interface {
	t.Helper()
	ctx := context.Background()
	lk, err := lakeapi.CreateLocalLake(ctx, zap.NewNop(), t.TempDir())
	if err != nil {
		t.Fatal(err)
	}
	sortKeys := order.SortKeys{order.NewSortKey(which, field.Path{"k"})}
	id, err := lk.CreatePool(ctx, "p", sortKeys, 0, 0)
	if err != nil {
		t.Fatal(err)
	}
	for _, s := range loads {
		zctx := zed.NewContext()
		r := zsonio.NewReader(zctx, strings.NewReader(s))
		if _, err := lk.Load(ctx, zctx, id, "main", r, api.CommitMessage{}); err != nil {
			t.Fatal(err)
		}
	}
	return lk
}

func runLakeQueryBD(t *testing.T, lk lakeapi.Interface, src string, parallelism int) []string {
	t.Helper()
	seq, _, err := parser.ParseSuperPipe(nil, src)
	if err != nil {
		t.Fatal(err)
	}
	rctx := runtime.NewContext(context.Background(), zed.NewContext())
	defer rctx.Cancel()
	q, err := compiler.NewLakeCompiler(lk.Root()).NewLakeQuery(rctx, seq, parallelism, nil)
	if err != nil {
		t.Fatal(err)
	}
	defer q.Close()
	var out []string
	for {
		batch, err := q.Pull(false)
		if err != nil {
			t.Fatal(err)
		}
		if batch == nil {
			return out
		}
		for _, val := range batch.Values() {
			out = append(out, zson.FormatValue(val))
		}
		batch.Unref()
	}
}



func TestStatefulPut(t *testing.T) {
	var loads []string
	for i := 0; i < 6; i++ {
		var sb strings.Builder
		for j := 0; j < 4; j++ {
			fmt.Fprintf(&sb, "{k:%d,v:%d}\n", i*4+j, i*4+j)
		}
		loads = append(loads, sb.String())
	}
	lk := seedLakeBD(t, order.Asc, loads)
	for _, q := range []string{"from p | put c:=count()", "from p | put c:=count() | sort k", "from p | where count() <= 3", "from p | yield count()"} {
		a := runLakeQueryBD(t, lk, q, 1)
		b := runLakeQueryBD(t, lk, q, 4)
		if strings.Join(a, "\n") != strings.Join(b, "\n") {
			t.Errorf("DEFECT: %q differs:\n1: %v\n4: %v", q, a, b)
		}
	}
}
