package repro

import (
	"math"
	"testing"

	zed "github.com/brimdata/super"
	"github.com/brimdata/super/zson"
)

func TestNegativeZeroZSON(t *testing.T) {
	v := zed.NewFloat64(math.Copysign(0, -1))
	s := zson.FormatValue(v)
	t.Logf("formatted: %q", s)
	back, err := zson.ParseValue(zed.NewContext(), s)
	if err != nil {
		t.Fatal(err)
	}
	if math.Signbit(back.Float()) != true {
		t.Errorf("DEFECT: -0. formatted as %q parses back as %v (sign lost)", s, back.Float())
	}
	p, err := zson.ParseValue(zed.NewContext(), "-0.")
	if err != nil {
		t.Fatal(err)
	}
	t.Logf("parse(\"-0.\") signbit=%v", math.Signbit(p.Float()))
}
