package repro

import (
	"bytes"
	"strings"
	"testing"

	zed "github.com/brimdata/super"
	"github.com/brimdata/super/zio"
	"github.com/brimdata/super/compiler/optimizer/demand"
	"github.com/brimdata/super/zio/anyio"
	"github.com/brimdata/super/zio/vngio"
	"github.com/brimdata/super/zio/zsonio"
)

type nopWC struct{ *bytes.Buffer }

func (nopWC) Close() error { return nil }

func vngOf(t *testing.T, zson string) []byte {
	zctx := zed.NewContext()
	var buf bytes.Buffer
	w := vngio.NewWriter(nopWC{&buf})
	if err := zio.Copy(w, zsonio.NewReader(zctx, strings.NewReader(zson))); err != nil {
		t.Fatal(err)
	}
	if err := w.Close(); err != nil {
		t.Fatal(err)
	}
	return buf.Bytes()
}

func readAll(t *testing.T, name string, b []byte) {
	defer func() {
		if p := recover(); p != nil {
			t.Errorf("DEFECT %s: panic %v", name, p)
		}
	}()
	r, err := anyio.NewReader(zed.NewContext(), bytes.NewReader(b), demand.All())
	if err != nil {
		t.Logf("%s: open err %v", name, err)
		return
	}
	defer r.Close()
	for {
		v, err := r.Read()
		if err != nil {
			t.Logf("%s: read err %v", name, err)
			return
		}
		if v == nil {
			return
		}
	}
}

// A type name in VNG metadata that is a primitive type name.
func TestVNGBadTypeName(t *testing.T) {
	b := vngOf(t, "{a:1}(=abcde)\n{a:2}(=abcde)\n")
	if !bytes.Contains(b, []byte("abcde")) {
		t.Skip("name not found verbatim (compressed metadata)")
	}
	b = bytes.ReplaceAll(b, []byte("abcde"), []byte("int64"))
	readAll(t, "bad type name", b)
}

// Duplicate field names in VNG metadata.
func TestVNGDupField(t *testing.T) {
	b := vngOf(t, "{abcdx:1,abcdy:2}\n")
	if !bytes.Contains(b, []byte("abcdy")) {
		t.Skip("name not found verbatim")
	}
	b = bytes.ReplaceAll(b, []byte("abcdy"), []byte("abcdx"))
	readAll(t, "dup field", b)
}
