package repro

import (
	"context"
	"strings"
	"testing"

	zed "github.com/brimdata/super"
	"github.com/brimdata/super/lake"
	"github.com/brimdata/super/order"
	"github.com/brimdata/super/pkg/storage"
	"github.com/brimdata/super/zio/zngio"
	"github.com/brimdata/super/zio/zsonio"
	"github.com/brimdata/super/zson"
	"github.com/segmentio/ksuid"
)

// A loader reads the journal HEAD, then other clients add more than ten entries and one of them
// writes the snapshot; the loader resumes, takes the (newer) snapshot and re-labels it with the
// older head it read.  Later loads replay entries on top of a table that already contains them.
func TestJournalSnapshotNewerThanHead(t *testing.T) {
	ctx := context.Background()
	path, err := storage.ParseURI(t.TempDir())
	if err != nil {
		t.Fatal(err)
	}
	if _, err := lake.Create(ctx, storage.NewLocalEngine(), nil, path); err != nil {
		t.Fatal(err)
	}
	y, err := lake.Open(ctx, storage.NewLocalEngine(), nil, path)
	if err != nil {
		t.Fatal(err)
	}
	pool, err := y.CreatePool(ctx, "p", order.SortKeys{}, 0, 0)
	if err != nil {
		t.Fatal(err)
	}
	if _, err := y.CreateBranch(ctx, pool.ID, "b1", ksuid.Nil); err != nil {
		t.Fatal(err)
	}
	if _, err := y.CreateBranch(ctx, pool.ID, "b0", ksuid.Nil); err != nil {
		t.Fatal(err)
	}
	engine := &getHookEngine{Engine: storage.NewLocalEngine()}
	x, err := lake.Open(ctx, engine, nil, path)
	if err != nil {
		t.Fatal(err)
	}
	xpool, err := x.OpenPool(ctx, pool.ID)
	if err != nil {
		t.Fatal(err)
	}
	fired := false
	engine.onGet = func(u *storage.URI) {
		if fired || !strings.HasSuffix(u.String(), "branches/snap.zng") {
			return
		}
		fired = true
		// X has read HEAD and is about to read the snapshot: meanwhile...
		ypool, err := y.OpenPool(ctx, pool.ID)
		if err != nil {
			t.Fatal(err)
		}
		b, err := ypool.OpenBranchByName(ctx, "b1")
		if err != nil {
			t.Fatal(err)
		}
		for i := 0; i < 5; i++ {
			zctx := zed.NewContext()
			if _, err := b.Load(ctx, zctx, zsonio.NewReader(zctx, strings.NewReader("{a:1}")), "", "", ""); err != nil {
				t.Fatal(err)
			}
			if b, err = ypool.OpenBranchByName(ctx, "b1"); err != nil {
				t.Fatal(err)
			}
		}
		if err := y.RemoveBranch(ctx, pool.ID, "b1"); err != nil {
			t.Fatal(err)
		}
		// more entries, so that a later load writes a snapshot that no longer has b1
		for _, name := range []string{"c1", "c2", "c3", "c4", "c5", "c6"} {
			if _, err := y.CreateBranch(ctx, pool.ID, name, ksuid.Nil); err != nil {
				t.Fatal(err)
			}
		}
	}
	if _, err := xpool.ListBranches(ctx); err != nil {
		t.Logf("X's list: %v", err)
	}
	engine.onGet = nil
	if r, err := storage.NewLocalEngine().Get(ctx, path.JoinPath(pool.ID.String(), "branches", "snap.zng")); err == nil {
		zr := zngio.NewReader(zed.NewContext(), r)
		for {
			val, err := zr.Read()
			if val == nil || err != nil {
				break
			}
			t.Log("snap:", zson.FormatValue(*val))
		}
		r.Close()
	} else {
		t.Log("snap:", err)
	}
	if !fired {
		t.Skip("hook did not fire")
	}
	z, err := lake.Open(ctx, storage.NewLocalEngine(), nil, path)
	if err != nil {
		t.Fatal(err)
	}
	zpool, err := z.OpenPool(ctx, pool.ID)
	if err != nil {
		t.Fatalf("DEFECT: a fresh client cannot open the pool: %v", err)
	}
	bs, err := zpool.ListBranches(ctx)
	if err != nil {
		t.Fatalf("DEFECT: a fresh client cannot list the branches: %v", err)
	}
	t.Log(len(bs), "branches")
}
