package repro

import (
	"context"
	"sort"
	"strings"
	"testing"

	zed "github.com/brimdata/super"
	"github.com/brimdata/super/compiler"
	"github.com/brimdata/super/compiler/data"
	"github.com/brimdata/super/runtime"
	"github.com/brimdata/super/zbuf"
	"github.com/brimdata/super/zio/zsonio"
	"github.com/brimdata/super/zson"
)

func runPlan(t *testing.T, input, query string, optimize bool) []string {
	t.Helper()
	rctx := runtime.NewContext(context.Background(), zed.NewContext())
	seq, _, err := compiler.Parse(query)
	if err != nil {
		t.Fatal(err)
	}
	job, err := compiler.NewJob(rctx, seq, data.NewSource(nil, nil), nil)
	if err != nil {
		t.Fatal(err)
	}
	if optimize {
		if err := job.Optimize(); err != nil {
			t.Fatal(err)
		}
	}
	if err := job.Build(zsonio.NewReader(rctx.Zctx, strings.NewReader(input))); err != nil {
		t.Fatal(err)
	}
	var out []string
	p := job.Puller()
	for {
		b, err := p.Pull(false)
		if err != nil {
			t.Fatal(err)
		}
		if b == nil {
			break
		}
		if _, ok := b.(*zbuf.EndOfChannel); ok {
			continue
		}
		for _, v := range b.Values() {
			out = append(out, zson.FormatValue(v))
		}
		b.Unref()
	}
	sort.Strings(out)
	return out
}

// A sort whose null placement is not the system's (nulls are the maximum) before a join: the
// optimizer tells the join its input is sorted and the join's comparator disagrees.
func TestJoinAfterSortWithOtherNullPlacement(t *testing.T) {
	input := `
{b:null(int64),sb:"bnull"}
{b:20,sb:"b20"}
{b:40,sb:"b40"}
{b:60,sb:"b60"}
{c:null(int64),sc:"cnull"}
{c:20,sc:"c20"}
{c:40,sc:"c40"}
{c:60,sc:"c60"}
`
	for _, s := range []string{"sort b", "sort -nulls first b", "sort -r b", "sort b desc", "sort -r -nulls first b"} {
		q := "fork (=> where has(b) | " + s + " => where has(c)) | left join on b=c hit:=sc"
		plain, opt := runPlan(t, input, q, false), runPlan(t, input, q, true)
		if strings.Join(plain, "\n") != strings.Join(opt, "\n") {
			t.Errorf("DEFECT %s:\n as analyzed: %v\n optimized:   %v", s, plain, opt)
		}
	}
}
