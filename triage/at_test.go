package repro

import (
	"strings"
	"testing"

	zed "github.com/brimdata/super"
	"github.com/brimdata/super/zio/jsonio"
	"github.com/brimdata/super/zio/zsonio"
	"github.com/brimdata/super/zson"
)

// Every valid JSON text denotes the same value for the ZSON reader and the JSON reader.
func TestJSONSubset(t *testing.T) {
	for _, s := range []string{`{"a":1,"a":2}`, `{"a":1,"b":2,"a":{"x":1,"x":"y"}}`, `{"a":[{"k":1,"k":2}]}`, `18446744073709551615`, `9223372036854775808`, `1e2`, `-0`, `{"":1}`, `"😀"`, `[1,2.5,"x",null,true]`} {
		jv, jerr := jsonio.NewReader(zed.NewContext(), strings.NewReader(s)).Read()
		zv, zerr := zsonio.NewReader(zed.NewContext(), strings.NewReader(s)).Read()
		if jerr != nil || zerr != nil {
			t.Errorf("%s: json err %v, zson err %v", s, jerr, zerr)
			continue
		}
		if a, b := zson.FormatValue(*jv), zson.FormatValue(*zv); a != b {
			t.Errorf("DEFECT %s: JSON reader %s, ZSON reader %s", s, a, b)
		}
	}
}
