package repro

import (
	"bytes"
	"testing"

	zed "github.com/brimdata/super"
	"github.com/brimdata/super/zio/zngio"
	"github.com/brimdata/super/zson"
	"github.com/brimdata/super/zio/zsonio"
	"github.com/brimdata/super/zio"
)

func TestValidatedLeafSizes(t *testing.T) {
	for _, c := range []struct{ typ zed.Type; b []byte }{
		{zed.TypeIP, []byte{1, 2, 3}},
		{zed.TypeFloat64, []byte{1, 2, 3}},
		{zed.TypeNet, []byte{1, 2, 3}},
		{zed.TypeInt64, []byte{1, 2, 3, 4, 5, 6, 7, 8, 9, 10, 11}},
		{zed.TypeBool, []byte{}},
		{zed.TypeTime, []byte{1, 2, 3, 4, 5, 6, 7, 8, 9, 10, 11}},
		{zed.TypeFloat16, []byte{1}},
		{zed.TypeFloat32, []byte{1}},
		{zed.TypeType, []byte{200, 1, 2}},
		{zed.TypeType, []byte{}},
		{zed.TypeType, []byte{9, 9, 9, 9}},
		{zed.TypeNull, []byte{1}},
		{zed.TypeUint8, []byte{}},
		{zed.TypeDuration, []byte{}},
		{zed.TypeString, []byte{0xff, 0xfe}},
	} {
		var buf bytes.Buffer
		w := zngio.NewWriter(zio.NopCloser(&buf))
		if err := w.Write(zed.NewValue(c.typ, c.b)); err != nil {
			t.Fatal(err)
		}
		w.Close()
		func() {
			defer func() {
				if r := recover(); r != nil {
					t.Errorf("%s: PANIC %v", zson.FormatType(c.typ), r)
				}
			}()
			r := zngio.NewReaderWithOpts(zed.NewContext(), bytes.NewReader(buf.Bytes()), zngio.ReaderOpts{Validate: true})
			defer r.Close()
			var out bytes.Buffer
			zw := zsonio.NewWriter(zio.NopCloser(&out), zsonio.WriterOpts{})
			err := zio.Copy(zw, r)
			t.Logf("%s: err=%v out=%q", zson.FormatType(c.typ), err, out.String())
		}()
	}
}
