package repro

import (
	"context"
	"os"
	"path/filepath"
	"strings"
	"testing"

	zed "github.com/brimdata/super"
	"github.com/brimdata/super/api"
	"github.com/brimdata/super/compiler"
	lakeapi "github.com/brimdata/super/lake/api"
	"github.com/brimdata/super/lakeparse"
	"github.com/brimdata/super/order"
	"github.com/brimdata/super/pkg/field"
	"github.com/brimdata/super/runtime"
	"github.com/brimdata/super/zbuf"
	"github.com/brimdata/super/zio"
	"github.com/brimdata/super/zio/zngio"
	"github.com/brimdata/super/zio/zsonio"
	"github.com/brimdata/super/zson"
	"github.com/segmentio/ksuid"
	"go.uber.org/zap"
)

func newLake(t *testing.T) (lakeapi.Interface, string) {
	dir := t.TempDir()
	lk, err := lakeapi.CreateLocalLake(context.Background(), zap.NewNop(), dir)
	if err != nil {
		t.Fatal(err)
	}
	return lk, dir
}

func load(t *testing.T, lk lakeapi.Interface, pool ksuid.KSUID, branch, data string) ksuid.KSUID {
	zctx := zed.NewContext()
	id, err := lk.Load(context.Background(), zctx, pool, branch, zsonio.NewReader(zctx, strings.NewReader(data)), api.CommitMessage{})
	if err != nil {
		t.Fatal(err)
	}
	return id
}

func query(t *testing.T, lk lakeapi.Interface, q string) string {
	s, err := lk.Query(context.Background(), nil, q)
	if err != nil {
		return "ERR(compile): " + err.Error()
	}
	defer s.Pull(true)
	var sb strings.Builder
	w := zsonio.NewWriter(zio.NopCloser(&sb), zsonio.WriterOpts{})
	if err := zbuf.CopyPuller(w, s); err != nil {
		return sb.String() + "ERR: " + err.Error()
	}
	return sb.String()
}

// #4 literal on the left of <=, boundary equal to object's max
func TestPrunerLiteralLeft(t *testing.T) {
	lk, _ := newLake(t)
	ctx := context.Background()
	pool, err := lk.CreatePool(ctx, "p", order.SortKeys{order.NewSortKey(order.Asc, field.Path{"k"})}, 0, 0)
	if err != nil {
		t.Fatal(err)
	}
	load(t, lk, pool, "main", "{k:1}{k:3}{k:5}")
	a := query(t, lk, "from p | 5 <= k")
	b := query(t, lk, "from p | k >= 5")
	c := query(t, lk, "from p | 1 >= k")
	d := query(t, lk, "from p | k <= 1")
	t.Logf("5<=k: %q   k>=5: %q   1>=k: %q   k<=1: %q", a, b, c, d)
	if a != b || c != d {
		t.Errorf("DEFECT: literal-on-left comparison pruned differently")
	}
}

// #10 both sides delete the same object, then merge
func TestMergeDoubleDelete(t *testing.T) {
	lk, _ := newLake(t)
	ctx := context.Background()
	pool, err := lk.CreatePool(ctx, "p", order.SortKeys{order.NewSortKey(order.Asc, field.Path{"k"})}, 0, 0)
	if err != nil {
		t.Fatal(err)
	}
	load(t, lk, pool, "main", "{k:1}")
	c2 := load(t, lk, pool, "main", "{k:2}")
	if err := lk.CreateBranch(ctx, pool, "child", c2); err != nil {
		t.Fatal(err)
	}
	objs := query(t, lk, "from p@main:objects | yield id")
	t.Logf("objects: %s", objs)
	// find object holding k:2 : delete-where on both sides is simplest
	if _, err := lk.DeleteWhere(ctx, pool, "main", "k==2", api.CommitMessage{}); err != nil {
		t.Fatal(err)
	}
	if _, err := lk.DeleteWhere(ctx, pool, "child", "k==2", api.CommitMessage{}); err != nil {
		t.Fatal(err)
	}
	load(t, lk, pool, "child", "{k:9}")
	_, err = lk.MergeBranch(ctx, pool, "child", "main", api.CommitMessage{})
	t.Logf("merge err=%v", err)
	after := query(t, lk, "from p@main")
	t.Logf("main after merge: %q", after)
	if strings.Contains(after, "ERR") {
		t.Errorf("DEFECT: main unreadable after merge (err=%v)", err)
	}
}

// #13 stale HEAD after crash between entry write and HEAD write
func TestStaleHead(t *testing.T) {
	lk, dir := newLake(t)
	ctx := context.Background()
	pool, err := lk.CreatePool(ctx, "p", order.SortKeys{order.NewSortKey(order.Asc, field.Path{"k"})}, 0, 0)
	if err != nil {
		t.Fatal(err)
	}
	load(t, lk, pool, "main", "{k:1}")
	bdir := filepath.Join(dir, pool.String(), "branches")
	head, _ := os.ReadFile(filepath.Join(bdir, "HEAD"))
	t.Logf("HEAD=%s", head)
	// simulate: crash after entry N written but before HEAD updated -> roll HEAD back by one
	// (equivalent state: entry N exists, HEAD says N-1)
	n := int(head[0] - '0')
	os.WriteFile(filepath.Join(bdir, "HEAD"), []byte{byte('0' + n - 1)}, 0666)
	lk2, err := lakeapi.OpenLocalLake(ctx, zap.NewNop(), dir)
	if err != nil {
		t.Fatal(err)
	}
	zctx := zed.NewContext()
	_, err = lk2.Load(ctx, zctx, pool, "main", zsonio.NewReader(zctx, strings.NewReader("{k:2}")), api.CommitMessage{})
	t.Logf("load after stale HEAD: err=%v", err)
	if err != nil {
		t.Errorf("DEFECT: operations fail after crash between journal entry and HEAD: %v", err)
	}
}

// #9 search for a field name nested in an array: zson vs zng input
func TestSearchNestedFieldName(t *testing.T) {
	const data = `{a:[{foo:1}]}`
	run := func(r zio.Reader, zctx *zed.Context) string {
		seq, _, err := compiler.Parse("foo")
		if err != nil {
			t.Fatal(err)
		}
		rctx := runtime.NewContext(context.Background(), zctx)
		q, err := compiler.NewCompiler().NewQuery(rctx, seq, []zio.Reader{r})
		if err != nil {
			t.Fatal(err)
		}
		defer q.Pull(true)
		var sb strings.Builder
		w := zsonio.NewWriter(zio.NopCloser(&sb), zsonio.WriterOpts{})
		if err := zbuf.CopyPuller(w, q); err != nil {
			t.Fatal(err)
		}
		return sb.String()
	}
	zctx := zed.NewContext()
	viaZSON := run(zsonio.NewReader(zctx, strings.NewReader(data)), zctx)
	// encode as zng
	var buf strings.Builder
	zw := zngio.NewWriter(zio.NopCloser(&buf))
	zw.Write(zson.MustParseValue(zed.NewContext(), data))
	zw.Close()
	zctx2 := zed.NewContext()
	viaZNG := run(zngio.NewReader(zctx2, strings.NewReader(buf.String())), zctx2)
	t.Logf("zson: %q zng: %q", viaZSON, viaZNG)
	if viaZSON != viaZNG {
		t.Errorf("DEFECT: result depends on input encoding")
	}
	_ = lakeparse.Commitish{}
}
