package repro

import (
	"bytes"
	"testing"
	"time"

	zed "github.com/brimdata/super"
	"github.com/brimdata/super/zio"
	"github.com/brimdata/super/zio/jsonio"
)

// A null value of union type must not make Value.Under (and with it the JSON writer) spin.
func TestNullUnionUnder(t *testing.T) {
	zctx := zed.NewContext()
	u := zctx.LookupTypeUnion([]zed.Type{zed.TypeInt64, zed.TypeString})
	done := make(chan string, 2)
	go func() {
		v := zed.NewValue(u, nil).Under()
		done <- "Under: " + v.Type().Kind().String()
	}()
	select {
	case s := <-done:
		t.Log(s)
	case <-time.After(3 * time.Second):
		t.Errorf("DEFECT: Value.Under on a null union value does not return")
	}
	go func() {
		var buf bytes.Buffer
		w := jsonio.NewWriter(zio.NopCloser(&buf), jsonio.WriterOpts{})
		rec := zctx.MustLookupTypeRecord([]zed.Field{{Name: "n", Type: u}})
		_ = rec
		w.Write(zed.NewValue(u, nil))
		done <- "json: " + buf.String()
	}()
	select {
	case s := <-done:
		t.Log(s)
	case <-time.After(3 * time.Second):
		t.Errorf("DEFECT: the JSON writer does not return on a null union value")
	}
}
