package repro

import (
	"bytes"
	"strings"
	"testing"

	zed "github.com/brimdata/super"
	"github.com/brimdata/super/zio"
	"github.com/brimdata/super/zio/zjsonio"
	"github.com/brimdata/super/zio/zsonio"
)

// Each input must produce values or an error, never a panic, when copied to a ZSON writer.
func TestTextReaderPanics(t *testing.T) {
	try := func(name string, r zio.Reader) {
		defer func() {
			if p := recover(); p != nil {
				t.Errorf("DEFECT %s: panic: %v", name, p)
			}
		}()
		var buf bytes.Buffer
		err := zio.Copy(zsonio.NewWriter(zio.NopCloser(&buf), zsonio.WriterOpts{}), r)
		t.Logf("%s: err=%v out=%q", name, err, buf.String())
	}
	for _, s := range []string{`"\ud800"`, `{a:"\ud800"}`, "``", "{a:``}", `"foo"(enum(a,b))`, `"\ud800A"`, `"😀"`} {
		try("zson "+s, zsonio.NewReader(zed.NewContext(), strings.NewReader(s)))
	}
	zj := `{"type":{"kind":"record","id":30,"fields":[{"name":"a","type":{"kind":"primitive","name":"string"}},{"name":"b","type":{"kind":"primitive","name":"string"}}]},"value":["x"]}`
	try("zjson short record", zjsonio.NewReader(zed.NewContext(), strings.NewReader(zj)))
}
