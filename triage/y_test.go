package repro

import (
	"context"
	"strings"
	"testing"

	zed "github.com/brimdata/super"
	"github.com/brimdata/super/api"
	lakeapi "github.com/brimdata/super/lake/api"
	"github.com/brimdata/super/order"
	"github.com/brimdata/super/pkg/field"
	"github.com/brimdata/super/zio/zsonio"
	"github.com/segmentio/ksuid"
	"go.uber.org/zap"
)

// Deleting (or vectorizing) with the same object ID listed twice must either be rejected or
// leave a branch that can still be read.
func TestDuplicateIDs(t *testing.T) {
	ctx := context.Background()
	lk, err := lakeapi.CreateLocalLake(ctx, zap.NewNop(), t.TempDir())
	if err != nil {
		t.Fatal(err)
	}
	id, err := lk.CreatePool(ctx, "p", order.SortKeys{order.NewSortKey(order.Asc, field.Path{"k"})}, 0, 0)
	if err != nil {
		t.Fatal(err)
	}
	zctx := zed.NewContext()
	if _, err := lk.Load(ctx, zctx, id, "main", zsonio.NewReader(zctx, strings.NewReader("{k:1}{k:2}")), api.CommitMessage{}); err != nil {
		t.Fatal(err)
	}
	objs := runLakeQueryAB2(t, lk, "from p@main:objects | yield ksuid(id)", 1)
	if len(objs) != 1 {
		t.Fatal(objs)
	}
	oid, err := ksuid.Parse(strings.Trim(objs[0], `"`))
	if err != nil {
		// id is formatted as bytes 0x...
		t.Fatal(objs[0], err)
	}
	_, err = lk.AddVectors(ctx, "p", "main", []ksuid.KSUID{oid, oid}, api.CommitMessage{})
	if err == nil {
		t.Error("AddVectors with a duplicate id accepted")
	}
	t.Log(runLakeQueryAB2(t, lk, "from p", 1))
	if _, err = lk.AddVectors(ctx, "p", "main", []ksuid.KSUID{oid}, api.CommitMessage{}); err != nil {
		t.Fatal(err)
	}
	if _, err = lk.DeleteVectors(ctx, "p", "main", []ksuid.KSUID{oid, oid}, api.CommitMessage{}); err == nil {
		t.Error("DeleteVectors with a duplicate id accepted")
	}
	t.Log(runLakeQueryAB2(t, lk, "from p", 1))
	_, err = lk.Delete(ctx, id, "main", []ksuid.KSUID{oid, oid}, api.CommitMessage{})
	if err == nil {
		t.Error("Delete with a duplicate id accepted")
	}
	if got := runLakeQueryAB2(t, lk, "from p", 1); len(got) != 2 {
		t.Error(got)
	}
	if _, err = lk.Delete(ctx, id, "main", []ksuid.KSUID{oid}, api.CommitMessage{}); err != nil {
		t.Fatal(err)
	}
	if got := runLakeQueryAB2(t, lk, "from p", 1); len(got) != 0 {
		t.Error(got)
	}
}
