package repro

import (
	"context"
	"fmt"
	"sort"
	"strings"
	"testing"

	zed "github.com/brimdata/super"
	"github.com/brimdata/super/compiler"
	"github.com/brimdata/super/order"
	"github.com/brimdata/super/pkg/field"
	"github.com/brimdata/super/runtime"
	"github.com/brimdata/super/zio/zsonio"
	"github.com/brimdata/super/zson"
)

// summarize on keys (k, ts) over input declared sorted on ts: the optimizer sets InputSortDir
// because ts is *a* grouping key, the aggregator streams on grouping key 0 (k).
func TestSummarizeSortedOnSecondKey(t *testing.T) {
	var sb strings.Builder
	for i := 0; i < 150; i++ {
		fmt.Fprintf(&sb, "{ts:0,k:%d}\n", i%2)
	}
	run := func(declared bool, q string) []string {
		zctx := zed.NewContext()
		rctx := runtime.NewContext(context.Background(), zctx)
		defer rctx.Cancel()
		seq, _, err := compiler.Parse(q)
		if err != nil {
			t.Fatal(err)
		}
		r := zsonio.NewReader(zctx, strings.NewReader(sb.String()))
		var sk order.SortKey
		if declared {
			sk = order.NewSortKey(order.Asc, field.Path{"ts"})
		}
		query, err := compiler.CompileWithSortKey(rctx, seq, r, sk)
		if err != nil {
			t.Fatal(err)
		}
		defer query.Pull(true)
		var out []string
		for {
			b, err := query.Pull(false)
			if err != nil {
				t.Fatal(err)
			}
			if b == nil {
				break
			}
			for _, v := range b.Values() {
				out = append(out, zson.FormatValue(v))
			}
		}
		sort.Strings(out)
		return out
	}
	for _, q := range []string{"count() by k, ts", "count() by ts, k"} {
		a, b := run(false, q), run(true, q)
		if strings.Join(a, " ") != strings.Join(b, " ") {
			t.Errorf("DEFECT %s: undeclared %v, declared sorted on ts %v", q, a, b)
		}
	}
}
