package repro

import (
	"context"
	"fmt"
	"reflect"
	"strings"
	"testing"

	zed "github.com/brimdata/super"
	"github.com/brimdata/super/api"
	lakeapi "github.com/brimdata/super/lake/api"
	"github.com/brimdata/super/order"
	"github.com/brimdata/super/pkg/field"
	"github.com/brimdata/super/zio/zsonio"
	"go.uber.org/zap"
)

// A relative comparison of two strings in the sequential runtime compares
// the left operand with itself.  With a string pool key the pruner (which
// uses the real ordering) then skips objects whose values the filter accepts:
// "k <= 'c'" is true for every string, yet objects beyond 'c' are pruned.
func TestStringCompareAndPruning(t *testing.T) {
	ctx := context.Background()
	lk, err := lakeapi.CreateLocalLake(ctx, zap.NewNop(), t.TempDir())
	if err != nil {
		t.Fatal(err)
	}
	id, err := lk.CreatePool(ctx, "p", order.SortKeys{order.NewSortKey(order.Asc, field.Path{"k"})}, 0, 0)
	if err != nil {
		t.Fatal(err)
	}
	for _, s := range []string{"a b", "c d", "e f"} {
		var sb strings.Builder
		for _, k := range strings.Fields(s) {
			fmt.Fprintf(&sb, "{k:%q}\n", k)
		}
		zctx := zed.NewContext()
		if _, err := lk.Load(ctx, zctx, id, "main", zsonio.NewReader(zctx, strings.NewReader(sb.String())), api.CommitMessage{}); err != nil {
			t.Fatal(err)
		}
	}
	for _, op := range []string{"<", "<=", ">", ">="} {
		// the same predicate, once prunable and once hidden from the pruner
		pruned := runLakeQueryAB2(t, lk, fmt.Sprintf("from p | k %s 'c' | sort k", op), 1)
		full := runLakeQueryAB2(t, lk, fmt.Sprintf("from p | yield this | put x:=1 | drop x | k %s 'c' | sort k", op), 1)
		if !reflect.DeepEqual(pruned, full) {
			t.Errorf("k %s 'c': pruned %v, full scan %v", op, pruned, full)
		}
	}
	for _, op := range []string{"<", "<=", ">", ">="} {
		pruned := runLakeQueryAB2(t, lk, fmt.Sprintf("from p | 'c' %s k | sort k", op), 1)
		full := runLakeQueryAB2(t, lk, fmt.Sprintf("from p | yield this | put x:=1 | drop x | 'c' %s k | sort k", op), 1)
		if !reflect.DeepEqual(pruned, full) {
			t.Errorf("'c' %s k: pruned %v, full scan %v", op, pruned, full)
		}
	}
	got := runLakeQueryAB2(t, lk, "from p | k < 'c' | sort k", 1)
	if want := []string{`{k:"a"}`, `{k:"b"}`}; !reflect.DeepEqual(got, want) {
		t.Errorf("k < 'c': got %v want %v", got, want)
	}
}
