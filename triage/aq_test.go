package repro

import (
	"strings"
	"testing"
)

// min/max must not depend on whether a typed null arrives before the first value.
func TestMinMaxNullThenPromotion(t *testing.T) {
	for _, c := range []struct{ q, a, b string }{
		{"min(x)", "{x:null(int64)} {x:1e19}", "{x:1e19} {x:null(int64)}"},
		{"max(x)", "{x:null(int64)} {x:-1e19}", "{x:-1e19} {x:null(int64)}"},
		{"min(x)", "{x:null(uint64)} {x:-5}", "{x:-5} {x:null(uint64)}"},
	} {
		ra, rb := runPlan(t, c.a, c.q, true), runPlan(t, c.b, c.q, true)
		if strings.Join(ra, " ") != strings.Join(rb, " ") {
			t.Errorf("DEFECT %s: over %s -> %v, over %s -> %v", c.q, c.a, ra, c.b, rb)
		}
	}
}
