package repro

import (
	"context"
	"strings"
	"testing"

	zed "github.com/brimdata/super"
	"github.com/brimdata/super/api"
	lakeapi "github.com/brimdata/super/lake/api"
	"github.com/brimdata/super/order"
	"github.com/brimdata/super/pkg/field"
	"github.com/brimdata/super/zio/zsonio"
	"github.com/segmentio/ksuid"
	"go.uber.org/zap"
)

func TestVectorSumOverArrayValues(t *testing.T) {
	ctx := context.Background()
	lk, err := lakeapi.CreateLocalLake(ctx, zap.NewNop(), t.TempDir())
	if err != nil {
		t.Fatal(err)
	}
	id, err := lk.CreatePool(ctx, "p", order.SortKeys{order.NewSortKey(order.Asc, field.Path{"k"})}, 0, 0)
	if err != nil {
		t.Fatal(err)
	}
	zctx := zed.NewContext()
	in := `[{n:1,x:"a"}] {n:2,x:"b"} {n:3,x:"c"}`
	if _, err := lk.Load(ctx, zctx, id, "main", zsonio.NewReader(zctx, strings.NewReader(in)), api.CommitMessage{}); err != nil {
		t.Fatal(err)
	}
	before := runLakeQueryAB2(t, lk, "from p | sum(n)", 2)
	var ids []ksuid.KSUID
	for _, s := range runLakeQueryAB2(t, lk, "from p@main:objects | yield ksuid(id)", 1) {
		oid, _ := ksuid.Parse(strings.Trim(s, `"`))
		ids = append(ids, oid)
	}
	if _, err := lk.AddVectors(ctx, "p", "main", ids, api.CommitMessage{}); err != nil {
		t.Fatal(err)
	}
	after := runLakeQueryAB2(t, lk, "from p | sum(n)", 2)
	t.Log(before, after)
	if strings.Join(before, ",") != strings.Join(after, ",") {
		t.Errorf("DEFECT: %v vs %v", before, after)
	}
}
