package repro

import (
	"context"
	"net/http/httptest"
	"strings"
	"testing"

	zed "github.com/brimdata/super"
	"github.com/brimdata/super/api"
	"github.com/brimdata/super/api/client"
	lakeapi "github.com/brimdata/super/lake/api"
	"github.com/brimdata/super/order"
	"github.com/brimdata/super/pkg/field"
	"github.com/brimdata/super/service"
	"github.com/brimdata/super/zio/zsonio"
	"github.com/segmentio/ksuid"
	"go.uber.org/zap"
)

// The same history through a local and a remote handle, with names that need escaping.
func TestRemoteNamesWithSpecialCharacters(t *testing.T) {
	ctx := context.Background()
	for _, names := range [][2]string{{"p", "a+b"}, {"it's", "main2"}, {"p q", "x%2Fy"}} {
		poolName, branch := names[0], names[1]
		run := func(lk lakeapi.Interface) (string, error) {
			pool, err := lk.CreatePool(ctx, poolName, order.SortKeys{order.NewSortKey(order.Asc, field.Path{"k"})}, 0, 0)
			if err != nil {
				return "create pool", err
			}
			if id, err := lk.PoolID(ctx, poolName); err != nil || id != pool {
				return "pool id by name", errOr(err, "wrong id")
			}
			if err := lk.CreateBranch(ctx, pool, branch, ksuid.Nil); err != nil {
				return "create branch", err
			}
			zctx := zed.NewContext()
			if _, err := lk.Load(ctx, zctx, pool, branch, zsonio.NewReader(zctx, strings.NewReader("{k:1}")), api.CommitMessage{}); err != nil {
				return "load into branch", err
			}
			if _, err := lk.CommitObject(ctx, pool, branch); err != nil {
				return "commit object of branch", err
			}
			return "", nil
		}
		direct, err := lakeapi.CreateLocalLake(ctx, zap.NewNop(), t.TempDir())
		if err != nil {
			t.Fatal(err)
		}
		dstep, derr := run(direct)
		core, err := service.NewCore(ctx, service.Config{Root: mustURI(t, t.TempDir()), Logger: zap.NewNop()})
		if err != nil {
			t.Fatal(err)
		}
		srv := httptest.NewServer(core)
		rstep, rerr := run(lakeapi.NewRemoteLake(client.NewConnectionTo(srv.URL)))
		srv.Close()
		if (derr == nil) != (rerr == nil) {
			t.Errorf("DEFECT pool %q branch %q: direct: %s %v; through the service: %s %v", poolName, branch, dstep, derr, rstep, rerr)
		}
	}
}

func errOr(err error, msg string) error {
	if err != nil {
		return err
	}
	return errString(msg)
}

type errString string

func (e errString) Error() string { return string(e) }
