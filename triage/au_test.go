package repro

import (
	"testing"

	zed "github.com/brimdata/super"
	"github.com/brimdata/super/zson"
)

func TestDecoratedSetNormalised(t *testing.T) {
	for _, s := range []string{`|[3,1,2]|`, `|[3,1,2]|(|[int64]|)`, `|[3,1,2]|(=s)`, `|[3(int32),1(int32)]|(|[int32]|)`, `{a:|[3,1,1]|(|[int64]|)}`} {
		v, err := zson.ParseValue(zed.NewContext(), s)
		if err != nil {
			t.Log(s, err)
			continue
		}
		if err := v.Validate(); err != nil {
			t.Errorf("DEFECT %s: the value the ZSON reader built is not a valid set: %v (formats as %s)", s, err, zson.FormatValue(v))
		}
	}
}
