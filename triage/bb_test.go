package repro

import (
	"context"
	"fmt"
	"sort"
	"strings"
	"testing"

	zed "github.com/brimdata/super"
	"github.com/brimdata/super/compiler"
	"github.com/brimdata/super/order"
	"github.com/brimdata/super/pkg/field"
	"github.com/brimdata/super/runtime"
	"github.com/brimdata/super/zio/zsonio"
	"github.com/brimdata/super/zson"
)

// fork | summarize over input declared sorted: the final summarize of the parallelized plan must
// not assume its (combined, unordered) input is sorted.
func TestForkSummarizeSortedInput(t *testing.T) {
	var sb strings.Builder
	for i := 0; i < 5000; i++ {
		fmt.Fprintf(&sb, "{ts:%d}\n", i/7)
	}
	run := func(declared bool, q string) []string {
		zctx := zed.NewContext()
		rctx := runtime.NewContext(context.Background(), zctx)
		defer rctx.Cancel()
		seq, _, err := compiler.Parse(q)
		if err != nil {
			t.Fatal(err)
		}
		var sk order.SortKey
		if declared {
			sk = order.NewSortKey(order.Asc, field.Path{"ts"})
		}
		query, err := compiler.CompileWithSortKey(rctx, seq, zsonio.NewReader(zctx, strings.NewReader(sb.String())), sk)
		if err != nil {
			t.Fatal(err)
		}
		defer query.Pull(true)
		var out []string
		for {
			b, err := query.Pull(false)
			if err != nil {
				t.Fatal(err)
			}
			if b == nil {
				break
			}
			for _, v := range b.Values() {
				out = append(out, zson.FormatValue(v))
			}
		}
		sort.Strings(out)
		return out
	}
	q := "fork (=> pass => pass) | count() by ts"
	a, b := run(false, q), run(true, q)
	if len(a) != len(b) {
		t.Errorf("DEFECT %s: %d groups undeclared, %d groups with the input declared sorted on ts", q, len(a), len(b))
	}
}
