package repro

import (
	"context"
	"os"
	"path/filepath"
	"strings"
	"testing"

	zed "github.com/brimdata/super"
	"github.com/brimdata/super/api"
	lakeapi "github.com/brimdata/super/lake/api"
	"github.com/brimdata/super/order"
	"github.com/brimdata/super/pkg/field"
	"github.com/brimdata/super/zbuf"
	"github.com/brimdata/super/zio/zsonio"
	"go.uber.org/zap"
)

// A crash while a commit's snapshot cache file is written (plain Put: create, truncate, write)
// can leave it empty or cut short.  The branch must still read as before.
func TestTornCommitSnapshot(t *testing.T) {
	ctx := context.Background()
	dir := t.TempDir()
	lk, err := lakeapi.CreateLocalLake(ctx, zap.NewNop(), dir)
	if err != nil {
		t.Fatal(err)
	}
	pool, err := lk.CreatePool(ctx, "p", order.SortKeys{order.NewSortKey(order.Asc, field.Path{"k"})}, 0, 0)
	if err != nil {
		t.Fatal(err)
	}
	for i := 0; i < 3; i++ {
		zctx := zed.NewContext()
		if _, err := lk.Load(ctx, zctx, pool, "main", zsonio.NewReader(zctx, strings.NewReader("{k:1}\n{k:2}\n")), api.CommitMessage{}); err != nil {
			t.Fatal(err)
		}
	}
	count := func(l lakeapi.Interface) (int, error) {
		q, err := l.Query(ctx, nil, "from p")
		if err != nil {
			return 0, err
		}
		defer q.Pull(true)
		n := 0
		for {
			b, err := q.Pull(false)
			if err != nil {
				return 0, err
			}
			if b == nil {
				return n, nil
			}
			n += len(b.Values())
			b.Unref()
		}
	}
	_ = zbuf.Batch(nil)
	if n, err := count(lk); err != nil || n != 6 {
		t.Fatalf("before: n=%d err=%v", n, err)
	}
	snaps, _ := filepath.Glob(filepath.Join(dir, "*", "commits", "*.snap.zng"))
	if len(snaps) == 0 {
		t.Skip("no snapshot cache files written")
	}
	for _, snap := range snaps {
		if err := os.WriteFile(snap, nil, 0o644); err != nil { // created and truncated, nothing written yet
			t.Fatal(err)
		}
	}
	lk2, err := lakeapi.OpenLocalLake(ctx, zap.NewNop(), dir)
	if err != nil {
		t.Fatal(err)
	}
	n, err := count(lk2)
	if err != nil {
		t.Fatalf("DEFECT: after a torn snapshot cache the pool cannot be read: %v", err)
	}
	if n != 6 {
		t.Fatalf("DEFECT: after a torn (empty) snapshot cache file the pool reads %d values, want 6", n)
	}
}
