package repro

import (
	"testing"

	zed "github.com/brimdata/super"
	"github.com/brimdata/super/zson"
)

func TestEnumSymbolRoundTrip(t *testing.T) {
	zctx := zed.NewContext()
	for _, syms := range [][]string{{"a b", "c"}, {"x", "error"}, {"1", "two"}, {"", "z"}, {"a\"b", "ok"}, {"true", "null"}} {
		typ := zctx.LookupTypeEnum(syms)
		for i := range syms {
			v := zed.NewValue(typ, zed.EncodeUint(uint64(i)))
			out := zson.FormatValue(v)
			v2, err := zson.ParseValue(zed.NewContext(), out)
			if err != nil {
				t.Errorf("DEFECT enum %q symbol %q formats as %s: %v", syms, syms[i], out, err)
				continue
			}
			if zson.FormatValue(v2) != out || string(v2.Bytes()) != string(v.Bytes()) {
				t.Errorf("DEFECT enum %q symbol %q: %s -> %s", syms, syms[i], out, zson.FormatValue(v2))
			}
		}
	}
}
