package repro

import (
	"bytes"
	"context"
	"strings"
	"testing"

	zed "github.com/brimdata/super"
	"github.com/brimdata/super/api"
	"github.com/brimdata/super/compiler"
	"github.com/brimdata/super/order"
	"github.com/brimdata/super/pkg/field"
	"github.com/brimdata/super/runtime"
	"github.com/brimdata/super/zbuf"
	"github.com/brimdata/super/zio"
	"github.com/brimdata/super/zio/tableio"
	"github.com/brimdata/super/zio/zngio"
	"github.com/brimdata/super/zio/zsonio"
	"github.com/brimdata/super/zson"
	"github.com/segmentio/ksuid"
)

// #3 tableio drops mid-stream flush error (one-shot failure)
func TestTableFlush(t *testing.T) {
	zctx := zed.NewContext()
	sink := &failW{failAt: 1}
	w := tableio.NewWriter(sink)
	e1 := w.Write(zson.MustParseValue(zctx, `{a:1}`))
	e2 := w.Write(zson.MustParseValue(zctx, `{b:"x"}`)) // new type -> flush of first table -> sink write #1 fails
	e3 := w.Close()
	t.Logf("e1=%v e2=%v e3=%v sinkcalls=%d", e1, e2, e3, sink.n)
	if e1 == nil && e2 == nil && e3 == nil {
		t.Errorf("DEFECT: table sink write failed but no error reported")
	}
}

// #7 malformed ZNG value + search filter: panic in worker goroutine kills process?
func TestZngWorkerPanic(t *testing.T) {
	// build a valid stream for {s:"hello"} then corrupt the value body so the container length lies
	var buf bytes.Buffer
	zw := zngio.NewWriterWithOpts(zio.NopCloser(&buf), zngio.WriterOpts{Compress: false, FrameThresh: 1 << 20})
	zw.Write(zson.MustParseValue(zed.NewContext(), `{s:"hello world"}`))
	zw.Close()
	b := buf.Bytes()
	t.Logf("stream=%x", b)
	// values frame is last before EOS: header, typeid(30), tag(len+1), body...
	// corrupt the inner string tag to claim a huge length
	i := bytes.Index(b, []byte("hello world"))
	b[i-1] = 0xff // uvarint continuation => bad/huge inner tag
	zctx := zed.NewContext()
	seq, _, err := compiler.Parse("hello")
	if err != nil {
		t.Fatal(err)
	}
	rctx := runtime.NewContext(context.Background(), zctx)
	r := zngio.NewReaderWithOpts(zctx, bytes.NewReader(b), zngio.ReaderOpts{Threads: 2})
	q, err := compiler.NewCompiler().NewQuery(rctx, seq, []zio.Reader{r})
	if err != nil {
		t.Fatal(err)
	}
	defer q.Pull(true)
	var sb strings.Builder
	w := zsonio.NewWriter(zio.NopCloser(&sb), zsonio.WriterOpts{})
	err = zbuf.CopyPuller(w, q)
	t.Logf("out=%q err=%v", sb.String(), err)
}

// #11 count() by int key with vectors
func TestVamCountByInt(t *testing.T) {
	lk, _ := newLake(t)
	ctx := context.Background()
	pool, err := lk.CreatePool(ctx, "p", order.SortKeys{order.NewSortKey(order.Asc, field.Path{"ts"})}, 0, 0)
	if err != nil {
		t.Fatal(err)
	}
	load(t, lk, pool, "main", `{ts:1,k:1}{ts:2,k:2}{ts:3,k:1}`)
	before := query(t, lk, "from p | count() by k | sort k")
	ids := strings.Fields(query(t, lk, "from p@main:objects | yield ksuid(id)"))
	var oids []ksuid.KSUID
	for _, s := range ids {
		id, err := ksuid.Parse(strings.Trim(s, `"`))
		if err != nil {
			t.Fatal(err, s)
		}
		oids = append(oids, id)
	}
	if _, err := lk.AddVectors(ctx, "p", "main", oids, api.CommitMessage{}); err != nil {
		t.Fatal(err)
	}
	after := query(t, lk, "from p | count() by k | sort k")
	t.Logf("before=%q after=%q", before, after)
	if before != after {
		t.Errorf("DEFECT: adding vectors changed the result")
	}
}
