package repro

import (
	"bytes"
	"context"
	"io"
	"net/http"
	"net/http/httptest"
	"os"
	"path/filepath"
	"strings"
	"testing"

	zed "github.com/brimdata/super"
	"github.com/brimdata/super/api"
	"github.com/brimdata/super/api/client"
	lakeapi "github.com/brimdata/super/lake/api"
	"github.com/brimdata/super/order"
	"github.com/brimdata/super/pkg/field"
	"github.com/brimdata/super/pkg/storage"
	"github.com/brimdata/super/service"
	"github.com/brimdata/super/zio/zsonio"
	"go.uber.org/zap"
)

func zapNop() *zap.Logger { return zap.NewNop() }

// #12 late error dropped when no control frames
func TestLateErrorDropped(t *testing.T) {
	dir := t.TempDir()
	core, err := service.NewCore(context.Background(), service.Config{Root: storage.MustParseURI(dir)})
	if err != nil {
		t.Fatal(err)
	}
	srv := httptest.NewServer(core)
	defer srv.Close()
	ctx := context.Background()
	remote := lakeapi.NewRemoteLake(client.NewConnectionTo(srv.URL))
	pool, err := remote.CreatePool(ctx, "p", order.SortKeys{order.NewSortKey(order.Asc, field.Path{"k"})}, 0, 0)
	if err != nil {
		t.Fatal(err)
	}
	zctx := zed.NewContext()
	if _, err := remote.Load(ctx, zctx, pool, "main", zsonio.NewReader(zctx, strings.NewReader("{k:1}{k:2}")), api.CommitMessage{}); err != nil {
		t.Fatal(err)
	}
	// remove the data object so the scan fails at run time
	matches, _ := filepath.Glob(filepath.Join(dir, pool.String(), "data", "*.zng"))
	for _, m := range matches {
		if !strings.HasSuffix(m, "-seek.zng") {
			os.Remove(m)
		}
	}
	// direct access
	local, err := lakeapi.OpenLocalLake(ctx, zapNop(), dir)
	if err != nil { t.Fatal(err) }
	_ = core
	direct := query(t, local, "from p")
	t.Logf("direct: %q", direct)
	// remote with control frames (client default)
	viaRemote := query(t, remote, "from p")
	t.Logf("remote ctrl=T: %q", viaRemote)
	// raw HTTP without ctrl, zson response
	for _, accept := range []string{"application/x-zson", "application/x-zng", "application/json"} {
		req, _ := http.NewRequest("POST", srv.URL+"/query", bytes.NewBufferString(`{"query":"from p"}`))
		req.Header.Set("Content-Type", "application/json")
		req.Header.Set("Accept", accept)
		resp, err := http.DefaultClient.Do(req)
		if err != nil {
			t.Fatal(err)
		}
		body, rerr := io.ReadAll(resp.Body)
		resp.Body.Close()
		t.Logf("raw no-ctrl %s: status=%d bodylen=%d body=%q readErr=%v", accept, resp.StatusCode, len(body), string(body), rerr)
		if resp.StatusCode == 200 && rerr == nil && !strings.Contains(string(body), "rror") && strings.Contains(direct, "ERR") {
			t.Errorf("DEFECT (%s): direct access reports an error, service response is a clean 200 without it", accept)
		}
	}
}
