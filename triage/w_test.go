package repro

import (
	"strings"
	"testing"

	zed "github.com/brimdata/super"
	"github.com/brimdata/super/compiler"
	"github.com/brimdata/super/zio/jsonio"
	"github.com/brimdata/super/zio/zsonio"
)

// Deeply nested input: each reader must return (value or error), not kill the process.
func TestDeepZSON(t *testing.T) {
	for _, s := range []string{strings.Repeat("[", 5000000), strings.Repeat("{a:", 5000000), "<" + strings.Repeat("[", 5000000), strings.Repeat("|[", 3000000)} {
		_, err := zsonio.NewReader(zed.NewContext(), strings.NewReader(s)).Read()
		t.Log(err)
	}
}

func TestDeepJSON(t *testing.T) {
	_, err := jsonio.NewReader(zed.NewContext(), strings.NewReader(strings.Repeat("[", 5000000))).Read()
	t.Log(err)
}

func TestDeepQuery(t *testing.T) {
	_, _, err := compiler.Parse("yield "+strings.Repeat("(", 200000)+"1")
	t.Log(err != nil)
}
