package repro

import (
	"testing"

	zed "github.com/brimdata/super"
	"github.com/brimdata/super/order"
	"github.com/brimdata/super/runtime/sam/expr"
)

// The value order is not a preorder on mixed int/float keys beyond 2^53: a < b although both
// tie with the same float.
func TestOrderIntFloatTransitivity(t *testing.T) {
	cmp := expr.NewValueCompareFn(order.Asc, true)
	a := zed.NewInt64(9007199254740992)
	b := zed.NewInt64(9007199254740993)
	f := zed.NewFloat64(9007199254740992)
	ab, af, fb := cmp(a, b), cmp(a, f), cmp(f, b)
	t.Logf("a<b:%d a~f:%d f~b:%d", ab, af, fb)
	if af == 0 && fb == 0 && ab != 0 {
		t.Errorf("not transitive: a ties with f, f ties with b, but compare(a,b)=%d", ab)
	}
}
