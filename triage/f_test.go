package repro

import (
	"bytes"
	"testing"

	zed "github.com/brimdata/super"
	"github.com/brimdata/super/zio/zngio"
)

// Compressed values frame whose uncompressed-size uvarint is 2^64-1.
func TestZngNegativeSize(t *testing.T) {
	in := []byte{0x10 | 0x40 | 0x0, 0x01, 0x00, 0xff, 0xff, 0xff, 0xff, 0xff, 0xff, 0xff, 0xff, 0xff, 0x01, 0, 0, 0, 0, 0, 0, 0, 0, 0, 0, 0, 0, 0, 0, 0, 0}
	for _, threads := range []int{1, 2} {
		r := zngio.NewReaderWithOpts(zed.NewContext(), bytes.NewReader(in), zngio.ReaderOpts{Threads: threads, Size: 1024, Max: 1 << 20})
		func() {
			defer func() {
				if p := recover(); p != nil {
					t.Errorf("DEFECT threads=%d: panic %v", threads, p)
				}
			}()
			_, err := r.Read()
			t.Logf("threads=%d err=%v", threads, err)
		}()
		r.Close()
	}
}
