package main

import (
	"fmt"
	"go/token"
	"sort"

	"golang.org/x/tools/go/ssa"
)

// xrefUsedAfterError is a development aid (not a registered check): it lists call sites whose error
// result is tested but whose other results are still used on paths where the error was non-nil.
// The list is triaged by hand; confirmed instances become rules (see C17-S1).
func xrefUsedAfterError(p *Prog, pkgs []string) {
	var out []string
	for _, fn := range p.FuncsIn(pkgs...) {
		for _, ci := range allCalls(fn) {
			call, ok := ci.(*ssa.Call)
			if !ok {
				continue
			}
			var errEx *ssa.Extract
			var vals []*ssa.Extract
			for _, r := range *call.Referrers() {
				if ex, ok := r.(*ssa.Extract); ok {
					if isError(ex.Type()) {
						errEx = ex
					} else {
						vals = append(vals, ex)
					}
				}
			}
			if errEx == nil || len(vals) == 0 {
				continue
			}
			tested := false
			for _, r := range *errEx.Referrers() {
				if cmp, ok := r.(*ssa.BinOp); ok && isNilConst(cmp.Y) && (cmp.Op == token.NEQ || cmp.Op == token.EQL) {
					tested = true
				}
			}
			if !tested {
				continue
			}
			okBlock := func(b *ssa.BasicBlock) bool {
				for _, r := range *errEx.Referrers() {
					cmp, ok := r.(*ssa.BinOp)
					if !ok || !isNilConst(cmp.Y) {
						continue
					}
					if cmp.Op == token.NEQ && falseEdgeDominatesOrSelf(cmp, b) {
						return true
					}
					if cmp.Op == token.EQL && trueEdgeDominatesOrSelf(cmp, b) {
						return true
					}
				}
				return false
			}
			for _, ex := range vals {
				for _, r := range *ex.Referrers() {
					if _, ok := r.(*ssa.DebugRef); ok {
						continue
					}
					in := r.(ssa.Instruction)
					good := false
					if phi, ok := r.(*ssa.Phi); ok {
						good = true
						for i, e := range phi.Edges {
							if e == ssa.Value(ex) && !okBlockEdge(errEx, phi.Block().Preds[i], phi.Block()) {
								good = false
							}
						}
					} else if _, ok := r.(*ssa.Return); ok {
						good = true // returning (val, err) together is the caller's business
					} else {
						good = okBlock(in.Block())
					}
					if !good {
						out = append(out, fmt.Sprintf("%s: %s: result of %s used where its error may be non-nil", p.Pos(in.Pos()), constructName(fn), calleeName(call.Common())))
					}
				}
			}
		}
	}
	sort.Strings(out)
	for _, l := range out {
		fmt.Println(l)
	}
	fmt.Println(len(out), "candidates")
}
