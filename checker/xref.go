package main

import (
	"fmt"
	"go/ast"
	"go/printer"
	"go/token"
	"go/types"
	"sort"
	"strings"

	"golang.org/x/tools/go/ssa"
)

// xrefUsedAfterError is a development aid (not a registered check): it lists call sites whose error
// result is tested but whose other results are still used on paths where the error was non-nil.
// The list is triaged by hand; confirmed instances become rules (see C17-S1).
func xrefUsedAfterError(p *Prog, pkgs []string) {
	var out []string
	for _, fn := range p.FuncsIn(pkgs...) {
		for _, ci := range allCalls(fn) {
			call, ok := ci.(*ssa.Call)
			if !ok {
				continue
			}
			var errEx *ssa.Extract
			var vals []*ssa.Extract
			for _, r := range *call.Referrers() {
				if ex, ok := r.(*ssa.Extract); ok {
					if isError(ex.Type()) {
						errEx = ex
					} else {
						vals = append(vals, ex)
					}
				}
			}
			if errEx == nil || len(vals) == 0 {
				continue
			}
			tested := false
			for _, r := range *errEx.Referrers() {
				if cmp, ok := r.(*ssa.BinOp); ok && isNilConst(cmp.Y) && (cmp.Op == token.NEQ || cmp.Op == token.EQL) {
					tested = true
				}
			}
			if !tested {
				continue
			}
			okBlock := func(b *ssa.BasicBlock) bool {
				for _, r := range *errEx.Referrers() {
					cmp, ok := r.(*ssa.BinOp)
					if !ok || !isNilConst(cmp.Y) {
						continue
					}
					if cmp.Op == token.NEQ && falseEdgeDominatesOrSelf(cmp, b) {
						return true
					}
					if cmp.Op == token.EQL && trueEdgeDominatesOrSelf(cmp, b) {
						return true
					}
				}
				return false
			}
			for _, ex := range vals {
				for _, r := range *ex.Referrers() {
					if _, ok := r.(*ssa.DebugRef); ok {
						continue
					}
					in := r.(ssa.Instruction)
					good := false
					if phi, ok := r.(*ssa.Phi); ok {
						good = true
						for i, e := range phi.Edges {
							if e == ssa.Value(ex) && !okBlockEdge(errEx, phi.Block().Preds[i], phi.Block()) {
								good = false
							}
						}
					} else if _, ok := r.(*ssa.Return); ok {
						good = true // returning (val, err) together is the caller's business
					} else {
						good = okBlock(in.Block())
					}
					if !good {
						out = append(out, fmt.Sprintf("%s: %s: result of %s used where its error may be non-nil", p.Pos(in.Pos()), constructName(fn), calleeName(call.Common())))
					}
				}
			}
		}
	}
	sort.Strings(out)
	for _, l := range out {
		fmt.Println(l)
	}
	fmt.Println(len(out), "candidates")
}

// xrefSameArgs lists calls and binary comparisons whose two operands are the same expression
// (cmp.Compare(x, x), a == a): a development sweep, not a rule.
func xrefSameArgs(p *Prog) {
	n := 0
	for _, pk := range p.Pkgs {
		for _, f := range pk.Syntax {
			if strings.HasSuffix(p.Fset.Position(f.Pos()).Filename, "_test.go") {
				continue
			}
			ast.Inspect(f, func(nd ast.Node) bool {
				switch x := nd.(type) {
				case *ast.CallExpr:
					for i := 0; i+1 < len(x.Args); i++ {
						if _, lit := x.Args[i].(*ast.BasicLit); lit {
							continue
						}
						a, b := exprText(p.Fset, x.Args[i]), exprText(p.Fset, x.Args[i+1])
						if a == b && len(a) > 1 && a != "nil" && a != "true" && a != "false" {
							fmt.Println(p.Fset.Position(x.Pos()), "call", exprText(p.Fset, x.Fun), a)
							n++
						}
					}
				case *ast.BinaryExpr:
					switch x.Op {
					case token.EQL, token.NEQ, token.LSS, token.GTR, token.LEQ, token.GEQ, token.LAND, token.LOR, token.SUB:
						if _, lit := x.X.(*ast.BasicLit); lit {
							return true
						}
						if a := exprText(p.Fset, x.X); a == exprText(p.Fset, x.Y) {
							fmt.Println(p.Fset.Position(x.Pos()), "binary", x.Op, a)
							n++
						}
					}
				}
				return true
			})
		}
	}
	fmt.Println(n, "candidates")
}

func exprText(fset *token.FileSet, e ast.Expr) string {
	var sb strings.Builder
	printer.Fprint(&sb, fset, e)
	return sb.String()
}

// xrefConstIndex lists reads of slice[<constant>] (and string[<constant>]) in the reader packages
// that no test involving len() of that slice dominates: a development sweep.
func xrefConstIndex(p *Prog) {
	n := 0
	pkgs := append([]string{"compiler/parser", "pkg/jsonlexer", "pkg/byteconv", "zio/zjsonio", "lake/journal", "service", "api/client"}, c11ReaderPkgs...)
	for _, fn := range p.FuncsIn(pkgs...) {
		if strings.HasSuffix(p.Fset.Position(fn.Pos()).Filename, "_test.go") || strings.Contains(p.Fset.Position(fn.Pos()).Filename, "compiler/parser/parser.go") {
			continue
		}
		for _, b := range fn.Blocks {
			for _, in := range b.Instrs {
				var x, idx ssa.Value
				switch v := in.(type) {
				case *ssa.IndexAddr:
					x, idx = v.X, v.Index
				case *ssa.Index:
					x, idx = v.X, v.Index
				default:
					continue
				}
				if _, isConst := idx.(*ssa.Const); !isConst {
					continue
				}
				switch x.Type().Underlying().(type) {
				case *types.Slice, *types.Basic:
				default:
					continue
				}
				guarded := false
				lenOfX := func(w ssa.Value) bool {
					call, ok := w.(*ssa.Call)
					if !ok {
						return false
					}
					bi, ok := call.Call.Value.(*ssa.Builtin)
					return ok && bi.Name() == "len" && (call.Call.Args[0] == x || sameVar(call.Call.Args[0], x))
				}
				for _, gb := range fn.Blocks {
					if len(gb.Instrs) == 0 || !(gb.Dominates(b)) {
						continue
					}
					if iff, ok := gb.Instrs[len(gb.Instrs)-1].(*ssa.If); ok && gb != b && dependsOn(iff.Cond, lenOfX) {
						guarded = true
					}
				}
				// range loops and make([]T, n) with constant n are fine
				if mk, ok := x.(*ssa.MakeSlice); ok {
					if _, isConst := mk.Len.(*ssa.Const); isConst {
						guarded = true
					}
				}
				if _, ok := x.(*ssa.Slice); ok {
					if al, ok := x.(*ssa.Slice).X.(*ssa.Alloc); ok {
						if _, isArr := al.Type().(*types.Pointer).Elem().Underlying().(*types.Array); isArr {
							guarded = true
						}
					}
				}
				if !guarded {
					fmt.Println(p.Fset.Position(in.Pos()), fnName(fn))
					n++
				}
			}
		}
	}
	fmt.Println(n, "candidates")
}

// xrefTypeCoverage lists functions that dispatch on zed.Type (type switch with a panicking
// default) and the complex kinds they do not mention: a development sweep.
func xrefTypeCoverage(p *Prog) {
	kinds := []string{"super.TypeRecord", "super.TypeArray", "super.TypeSet", "super.TypeMap", "super.TypeUnion", "super.TypeEnum", "super.TypeError", "super.TypeNamed", "super.TypeOfType"}
	for _, fn := range p.Funcs {
		if strings.HasSuffix(p.Fset.Position(fn.Pos()).Filename, "_test.go") {
			continue
		}
		have := map[string]bool{}
		byOperand := map[ssa.Value]int{}
		for _, b := range fn.Blocks {
			for _, in := range b.Instrs {
				if ta, ok := in.(*ssa.TypeAssert); ok && namedOf(ta.X.Type()) == "super.Type" {
					have[namedOf(ta.AssertedType)] = true
					byOperand[ta.X]++
				}
			}
		}
		max := 0
		for _, n := range byOperand {
			if n > max {
				max = n
			}
		}
		if max < 4 {
			continue
		}
		panics := false
		for _, b := range fn.Blocks {
			for _, in := range b.Instrs {
				if pn, ok := in.(*ssa.Panic); ok && pn.Pos().IsValid() {
					panics = true
				}
			}
		}
		var missing []string
		for _, k := range kinds {
			if !have[k] {
				missing = append(missing, strings.TrimPrefix(k, "super.Type"))
			}
		}
		if len(missing) > 0 {
			fmt.Printf("%s %s panics=%v missing=%v\n", p.Pos(fn.Pos()), fnName(fn), panics, missing)
		}
	}
}
