package main

import (
	"encoding/json"
	"fmt"
	"go/token"
	"os"
	"path/filepath"
	"sort"
	"strings"
	"time"
)

type Obligation struct {
	Rule      string `json:"rule"`
	Construct string `json:"construct"`
	Pos       string `json:"pos,omitempty"`
	Verdict   string `json:"verdict"`
	Detail    string `json:"detail,omitempty"`
}

type Finding struct {
	Property  string `json:"property"`
	Rule      string `json:"rule"`
	Construct string `json:"construct"`
	Pos       string `json:"pos,omitempty"`
	Msg       string `json:"msg"`
}

func (f Finding) Key() string { return f.Property + "|" + f.Rule + "|" + f.Construct }

// Ctx collects what one property's rules analysed and reported.
type Ctx struct {
	P          *Prog
	Property   string
	Obls       []Obligation
	Findings   []Finding
	nontrivial map[string]bool
	RuleCount  map[string]int
	RuleDesc   map[string]string
	seenFind   map[string]bool
	Extra      map[string]interface{}
}

func (c *Ctx) extra(k string, v interface{}) {
	if c.Extra == nil {
		c.Extra = map[string]interface{}{}
	}
	c.Extra[k] = v
}

func NewCtx(p *Prog, prop string) *Ctx {
	return &Ctx{P: p, Property: prop, nontrivial: map[string]bool{}, RuleCount: map[string]int{}, RuleDesc: map[string]string{}, seenFind: map[string]bool{}}
}

// Rule registers the statement of a rule (for evidence).
func (c *Ctx) Rule(id, desc string) { c.RuleDesc[id] = desc }

// OK records a discharged obligation.  nontrivial marks obligations whose
// decision needed a path/flow/table argument rather than mere presence.
func (c *Ctx) OK(rule, construct string, pos token.Pos, detail string) {
	c.Obls = append(c.Obls, Obligation{rule, construct, c.P.Pos(pos), "holds", detail})
	c.RuleCount[rule]++
	c.nontrivial[rule+"|"+construct] = true
}

// Fail records a violated (or undecidable) obligation.
func (c *Ctx) Fail(rule, construct string, pos token.Pos, msg string) {
	c.Obls = append(c.Obls, Obligation{rule, construct, c.P.Pos(pos), "VIOLATED", msg})
	c.RuleCount[rule]++
	f := Finding{c.Property, rule, construct, c.P.Pos(pos), msg}
	if c.seenFind[f.Key()] {
		return
	}
	c.seenFind[f.Key()] = true
	c.Findings = append(c.Findings, f)
}

// Undecided: fail closed, naming what could not be decided.
func (c *Ctx) Undecided(rule, construct string, msg string) {
	c.Fail(rule, construct, token.NoPos, "UNDECIDED (fail closed): "+msg)
}

// Floor fails the rule if fewer than min instances were analysed.
func (c *Ctx) Floor(rule string, min int) {
	if c.RuleCount[rule] < min {
		c.Undecided(rule, "instance-floor", fmt.Sprintf("rule matched %d instances, fewer than the %d confirmed by hand; the rule may have gone blind", c.RuleCount[rule], min))
	}
}

type KnownEntry struct {
	Property  string `json:"property"`
	Rule      string `json:"rule"`
	Construct string `json:"construct"`
	Status    string `json:"status"` // "known" | "fixed"
	What      string `json:"what"`
	Commit    string `json:"commit,omitempty"`
}

func loadKnown(path string) (map[string]KnownEntry, error) {
	out := map[string]KnownEntry{}
	b, err := os.ReadFile(path)
	if err != nil {
		if os.IsNotExist(err) {
			return out, nil
		}
		return nil, err
	}
	var list []KnownEntry
	if err := json.Unmarshal(b, &list); err != nil {
		return nil, err
	}
	for _, e := range list {
		out[e.Property+"|"+e.Rule+"|"+e.Construct] = e
	}
	return out, nil
}

type Evidence struct {
	PropertyID  string                 `json:"property_id"`
	Tier        string                 `json:"tier"`
	Seed        int                    `json:"seed"`
	Level       string                 `json:"level"`
	Coverage    map[string]interface{} `json:"coverage"`
	Assumptions []string               `json:"assumptions"`
	WallS       float64                `json:"wall_s"`
	Violations  int                    `json:"violations"`
}

// finish prints the verdict lines, writes evidence and replay files and
// returns the process exit code.
func (c *Ctx) finish(verifDir, tier string, seed int, t0 time.Time, extra map[string]interface{}, assumptions []string, explanation string) int {
	known, err := loadKnown(filepath.Join(verifDir, "known_findings.json"))
	if err != nil {
		fmt.Printf("cannot read known_findings.json: %v\n", err)
		return 2
	}
	sort.SliceStable(c.Findings, func(i, j int) bool { return c.Findings[i].Key() < c.Findings[j].Key() })
	var viol []Finding
	var knownMatched []string
	for _, f := range c.Findings {
		if e, ok := known[f.Key()]; ok && e.Status == "known" {
			fmt.Printf("KNOWN-FINDING: property=%s rule=%s construct=%s %s\n", f.Property, f.Rule, f.Construct, e.What)
			knownMatched = append(knownMatched, f.Rule+" "+f.Construct)
			continue
		}
		viol = append(viol, f)
	}
	replayDir := filepath.Join(verifDir, "evidence", "replay")
	os.MkdirAll(replayDir, 0o755)
	old, _ := filepath.Glob(filepath.Join(replayDir, c.Property+"-*.json"))
	for _, o := range old {
		os.Remove(o)
	}
	for i, f := range viol {
		path := filepath.Join(replayDir, fmt.Sprintf("%s-%d.json", c.Property, i+1))
		b, _ := json.MarshalIndent(f, "", " ")
		os.WriteFile(path, b, 0o644)
		fmt.Printf("%s: [%s] %s: %s\n", f.Pos, f.Rule, f.Construct, f.Msg)
		fmt.Printf("VIOLATION property=%s replay=%s\n", c.Property, path)
	}
	// evidence
	rules := []string{}
	for r := range c.RuleDesc {
		rules = append(rules, r)
	}
	sort.Strings(rules)
	perRule := map[string]int{}
	for r, n := range c.RuleCount {
		perRule[r] = n
	}
	discharged := 0
	for _, o := range c.Obls {
		if o.Verdict == "holds" {
			discharged++
		}
	}
	var samples []Obligation
	seenRule := map[string]int{}
	for _, o := range c.Obls {
		if seenRule[o.Rule] < 3 || o.Verdict != "holds" {
			samples = append(samples, o)
			seenRule[o.Rule]++
		}
		if len(samples) >= 60 {
			break
		}
	}
	ruleText := []string{}
	for _, r := range rules {
		ruleText = append(ruleText, r+": "+c.RuleDesc[r])
	}
	cov := map[string]interface{}{
		"explanation":            explanation,
		"rules":                  ruleText,
		"packages":               c.P.NPkgs,
		"functions":              len(c.P.Funcs),
		"obligations":            len(c.Obls),
		"discharged":             discharged,
		"evaluations":            len(c.Obls),
		"distinct_nontrivial":    len(c.nontrivial),
		"rule":                   "one evaluation = one obligation (rule instance at a resolved construct: call site, function, field, table entry) decided on this run from /repo's source; distinct = distinct (rule, construct) pairs; every counted obligation needed a path, flow, call-graph or table argument",
		"per_rule_instances":     perRule,
		"samples":                samples,
		"known_findings_matched": knownMatched,
		"exhaustive":             true,
		"checker_cmd":            "bin/zedcheck -property " + c.Property + " -tier " + tier,
		"trusted_base":           []string{"go/types, go/ssa (x/tools v0.29.0)", "rule tables in /verif/checker/rules_" + strings.ToLower(c.Property) + ".go"},
	}
	for k, v := range extra {
		cov[k] = v
	}
	for k, v := range c.Extra {
		cov[k] = v
	}
	ev := Evidence{c.Property, tier, seed, "other", cov, assumptions, time.Since(t0).Seconds(), len(viol)}
	b, _ := json.MarshalIndent(ev, "", " ")
	os.MkdirAll(filepath.Join(verifDir, "evidence"), 0o755)
	if err := os.WriteFile(filepath.Join(verifDir, "evidence", c.Property+".json"), b, 0o644); err != nil {
		fmt.Println("cannot write evidence:", err)
		return 2
	}
	fmt.Printf("%s: %d obligations over %d rules, %d discharged, %d known findings, %d violations (%.1fs)\n",
		c.Property, len(c.Obls), len(rules), discharged, len(knownMatched), len(viol), time.Since(t0).Seconds())
	if len(viol) > 0 {
		return 1
	}
	return 0
}

// borrow runs rules of another property in a scratch context and imports the
// obligations of the selected rules under a new rule id (shared clauses such
// as C04-W1 = C05-W1 are decided once, by the same code).
func (c *Ctx) borrow(run func(*Ctx), rename map[string]string) {
	tmp := NewCtx(c.P, c.Property)
	run(tmp)
	for _, o := range tmp.Obls {
		nr, ok := rename[o.Rule]
		if !ok {
			continue
		}
		o.Rule = nr
		c.Obls = append(c.Obls, o)
		c.RuleCount[nr]++
		c.nontrivial[nr+"|"+o.Construct] = true
	}
	for _, f := range tmp.Findings {
		nr, ok := rename[f.Rule]
		if !ok {
			continue
		}
		f.Rule = nr
		if !c.seenFind[f.Key()] {
			c.seenFind[f.Key()] = true
			c.Findings = append(c.Findings, f)
		}
	}
}
