package main

import (
	"fmt"
	"go/ast"
	"go/constant"
	"go/token"
	"go/types"
	"sort"
	"strings"

	"golang.org/x/tools/go/packages"
	"golang.org/x/tools/go/ssa"
)

// ---- C16-T1: extraction of the pruner tables and finite-order evaluation ----

type pterm struct {
	kind string // "cmp", "or", "and", "L", "R"
	op   string
	a, b string // for cmp: operand names among literal/min/max
	l, r *pterm
}

func (t *pterm) String() string {
	switch t.kind {
	case "cmp":
		return fmt.Sprintf("compare(%s,%s)%s0", t.a, t.b, t.op)
	case "L", "R":
		return t.kind
	}
	return "(" + t.l.String() + " " + t.kind + " " + t.r.String() + ")"
}

type prunerTables struct {
	table      map[string]*pterm // rangePrunerPred: op -> term over literal,min,max
	reverse    map[string]string // reverseComparator
	litLeftRev bool              // literalComparison: literal-on-left arm passes op through reverseComparator
	thisLeftID bool              // this-on-left arm passes e.Op unchanged
	cmpOps     []string          // ops of buildRangePruner's comparison case
	argMap     map[string]string // rangePrunerPred param name -> what buildRangePruner passes (literal/min/max)
	nullsMax   bool
	cmpSwap    bool // compare() passes (rhs, lhs) to the compare call
	andBody    []ast.Stmt
	orBody     []ast.Stmt
	info       *types.Info
	lhsObj     map[types.Object]string // variables bound to recursive calls: L / R
}

func constString(info *types.Info, e ast.Expr) (string, bool) {
	tv, ok := info.Types[e]
	if !ok || tv.Value == nil || tv.Value.Kind() != constant.String {
		return "", false
	}
	return constant.StringVal(tv.Value), true
}

func calleeObj(info *types.Info, call *ast.CallExpr) *types.Func {
	var id *ast.Ident
	switch f := call.Fun.(type) {
	case *ast.Ident:
		id = f
	case *ast.SelectorExpr:
		id = f.Sel
	default:
		return nil
	}
	fn, _ := info.Uses[id].(*types.Func)
	return fn
}

func findSwitch(body *ast.BlockStmt, match func(tag ast.Expr) bool) *ast.SwitchStmt {
	var out *ast.SwitchStmt
	ast.Inspect(body, func(n ast.Node) bool {
		if s, ok := n.(*ast.SwitchStmt); ok && out == nil && s.Tag != nil && match(s.Tag) {
			out = s
			return false
		}
		return true
	})
	return out
}

func paramNames(fd *ast.FuncDecl) []string {
	var out []string
	for _, f := range fd.Type.Params.List {
		for _, n := range f.Names {
			out = append(out, n.Name)
		}
	}
	return out
}

func extractPrunerTables(c *Ctx) (*prunerTables, string) {
	p := c.P
	pk := p.Pkgs["compiler/optimizer"]
	if pk == nil {
		return nil, "package compiler/optimizer not loaded"
	}
	decl := func(name string) *ast.FuncDecl {
		if f := p.Func("compiler/optimizer." + name); f != nil {
			return p.Decl(f)
		}
		return nil
	}
	t := &prunerTables{table: map[string]*pterm{}, reverse: map[string]string{}, argMap: map[string]string{}, info: pk.TypesInfo, lhsObj: map[types.Object]string{}}
	info := pk.TypesInfo

	// rangePrunerPred
	fd := decl("rangePrunerPred")
	if fd == nil {
		return nil, "anchor optimizer.rangePrunerPred does not resolve"
	}
	pn := paramNames(fd)
	if len(pn) != 4 {
		return nil, "rangePrunerPred: expected 4 parameters (op, literal, min, max)"
	}
	sw := findSwitch(fd.Body, func(tag ast.Expr) bool { id, ok := tag.(*ast.Ident); return ok && id.Name == pn[0] })
	if sw == nil {
		return nil, "rangePrunerPred: no switch on its op parameter"
	}
	var parseTerm func(e ast.Expr) (*pterm, string)
	parseTerm = func(e ast.Expr) (*pterm, string) {
		call, ok := ast.Unparen(e).(*ast.CallExpr)
		if !ok {
			return nil, "not a call: " + types.ExprString(e)
		}
		fn := calleeObj(info, call)
		if fn == nil {
			return nil, "unresolved callee in " + types.ExprString(e)
		}
		switch {
		case fn.Name() == "compare" && fn.Pkg() == pk.Types && len(call.Args) == 3:
			op, ok := constString(info, call.Args[0])
			a, oka := call.Args[1].(*ast.Ident)
			b, okb := call.Args[2].(*ast.Ident)
			if !ok || !oka || !okb {
				return nil, "compare() with non-constant op or non-parameter operands"
			}
			return &pterm{kind: "cmp", op: op, a: a.Name, b: b.Name}, ""
		case fn.Name() == "NewBinaryExpr" && len(call.Args) == 3:
			op, ok := constString(info, call.Args[0])
			if !ok || (op != "or" && op != "and") {
				return nil, "NewBinaryExpr with unrecognised operator"
			}
			l, e1 := parseTerm(call.Args[1])
			if l == nil {
				return nil, e1
			}
			r, e2 := parseTerm(call.Args[2])
			if r == nil {
				return nil, e2
			}
			return &pterm{kind: op, l: l, r: r}, ""
		}
		return nil, "unrecognised constructor " + fn.Name()
	}
	for _, s := range sw.Body.List {
		cc := s.(*ast.CaseClause)
		if cc.List == nil {
			continue // default: (panics) — ops not in the table are checked against cmpOps below
		}
		var ret *ast.ReturnStmt
		for _, st := range cc.Body {
			if r, ok := st.(*ast.ReturnStmt); ok {
				ret = r
			} else {
				return nil, "rangePrunerPred: case body is not a single return"
			}
		}
		if ret == nil || len(ret.Results) != 1 {
			return nil, "rangePrunerPred: case without a single-result return"
		}
		term, why := parseTerm(ret.Results[0])
		if term == nil {
			return nil, "rangePrunerPred: " + why
		}
		for _, l := range cc.List {
			op, ok := constString(info, l)
			if !ok {
				return nil, "rangePrunerPred: non-constant case label"
			}
			t.table[op] = term
		}
	}
	// normalise operand names to literal/min/max by parameter position
	canon := map[string]string{pn[1]: "literal", pn[2]: "min", pn[3]: "max"}
	var norm func(x *pterm) string
	norm = func(x *pterm) string {
		if x.kind == "cmp" {
			a, ok1 := canon[x.a]
			b, ok2 := canon[x.b]
			if !ok1 || !ok2 {
				return "compare() operand is not a parameter of rangePrunerPred"
			}
			x.a, x.b = a, b
			return ""
		}
		if e := norm(x.l); e != "" {
			return e
		}
		return norm(x.r)
	}
	done := map[*pterm]bool{}
	for _, term := range t.table {
		if done[term] {
			continue
		}
		done[term] = true
		if e := norm(term); e != "" {
			return nil, e
		}
	}

	// reverseComparator
	fd = decl("reverseComparator")
	if fd == nil {
		return nil, "anchor optimizer.reverseComparator does not resolve"
	}
	rp := paramNames(fd)
	sw = findSwitch(fd.Body, func(tag ast.Expr) bool { id, ok := tag.(*ast.Ident); return ok && len(rp) == 1 && id.Name == rp[0] })
	if sw == nil {
		return nil, "reverseComparator: no switch on its parameter"
	}
	for _, s := range sw.Body.List {
		cc := s.(*ast.CaseClause)
		if cc.List == nil {
			continue
		}
		if len(cc.Body) != 1 {
			return nil, "reverseComparator: case body is not a single return"
		}
		ret, ok := cc.Body[0].(*ast.ReturnStmt)
		if !ok || len(ret.Results) != 1 {
			return nil, "reverseComparator: case body is not a single return"
		}
		for _, l := range cc.List {
			op, ok := constString(info, l)
			if !ok {
				return nil, "reverseComparator: non-constant label"
			}
			if id, ok := ret.Results[0].(*ast.Ident); ok && id.Name == rp[0] {
				t.reverse[op] = op
			} else if v, ok := constString(info, ret.Results[0]); ok {
				t.reverse[op] = v
			} else {
				return nil, "reverseComparator: unrecognised result"
			}
		}
	}

	// compare(): call compare(lhs, rhs, nullsMax) <op> 0
	fd = decl("compare")
	if fd == nil {
		return nil, "anchor optimizer.compare does not resolve"
	}
	cp := paramNames(fd)
	if len(cp) != 3 {
		return nil, "compare: expected (op, lhs, rhs)"
	}
	litVal := func(e ast.Expr, defs map[string]ast.Expr) (string, bool) {
		e = ast.Unparen(e)
		if id, ok := e.(*ast.Ident); ok {
			if d, ok := defs[id.Name]; ok {
				e = d
			}
		}
		if u, ok := e.(*ast.UnaryExpr); ok && u.Op == token.AND {
			e = u.X
		}
		cl, ok := e.(*ast.CompositeLit)
		if !ok {
			return "", false
		}
		for _, el := range cl.Elts {
			if kv, ok := el.(*ast.KeyValueExpr); ok {
				if k, ok := kv.Key.(*ast.Ident); ok && k.Name == "Value" {
					return constString(info, kv.Value)
				}
			}
		}
		return "", false
	}
	defs := map[string]ast.Expr{}
	okShape := false
	ast.Inspect(fd.Body, func(n ast.Node) bool {
		switch x := n.(type) {
		case *ast.AssignStmt:
			if len(x.Lhs) == 1 && len(x.Rhs) == 1 {
				if id, ok := x.Lhs[0].(*ast.Ident); ok {
					defs[id.Name] = x.Rhs[0]
				}
			}
		}
		return true
	})
	ast.Inspect(fd.Body, func(n ast.Node) bool {
		cl, ok := n.(*ast.CompositeLit)
		if !ok || namedOf(info.TypeOf(cl)) != "compiler/ast/dag.Call" {
			return true
		}
		var name string
		var args []ast.Expr
		for _, el := range cl.Elts {
			kv, ok := el.(*ast.KeyValueExpr)
			if !ok {
				continue
			}
			k, _ := kv.Key.(*ast.Ident)
			if k == nil {
				continue
			}
			if k.Name == "Name" {
				name, _ = constString(info, kv.Value)
			}
			if k.Name == "Args" {
				if acl, ok := kv.Value.(*ast.CompositeLit); ok {
					args = acl.Elts
				}
			}
		}
		if name != "compare" || len(args) != 3 {
			return true
		}
		a0, ok0 := args[0].(*ast.Ident)
		a1, ok1 := args[1].(*ast.Ident)
		if !ok0 || !ok1 {
			return true
		}
		if a0.Name == cp[1] && a1.Name == cp[2] {
			t.cmpSwap = false
		} else if a0.Name == cp[2] && a1.Name == cp[1] {
			t.cmpSwap = true
		} else {
			return true
		}
		v, ok := litVal(args[2], defs)
		if !ok {
			return true
		}
		t.nullsMax = v == "true"
		okShape = true
		return false
	})
	if !okShape {
		return nil, "compare: body does not build dag.Call{Name:\"compare\", Args:{lhs, rhs, <literal>}}"
	}
	// return NewBinaryExpr(op, call, Literal "0")
	retOK := false
	ast.Inspect(fd.Body, func(n ast.Node) bool {
		r, ok := n.(*ast.ReturnStmt)
		if !ok || len(r.Results) != 1 {
			return true
		}
		call, ok := r.Results[0].(*ast.CallExpr)
		if !ok || len(call.Args) != 3 {
			return true
		}
		if fn := calleeObj(info, call); fn == nil || fn.Name() != "NewBinaryExpr" {
			return true
		}
		id, ok := call.Args[0].(*ast.Ident)
		zero, okz := litVal(call.Args[2], defs)
		if ok && id.Name == cp[0] && okz && zero == "0" {
			retOK = true
		}
		return true
	})
	if !retOK {
		return nil, "compare: does not return NewBinaryExpr(op, call, Literal \"0\")"
	}

	// literalComparison
	fd = decl("literalComparison")
	if fd == nil {
		return nil, "anchor optimizer.literalComparison does not resolve"
	}
	seenThis, seenLit := false, false
	var bad string
	ast.Inspect(fd.Body, func(n ast.Node) bool {
		cc, ok := n.(*ast.CaseClause)
		if !ok || len(cc.List) != 1 {
			return true
		}
		tn := namedOf(info.TypeOf(cc.List[0]))
		if tn != "compiler/ast/dag.This" && tn != "compiler/ast/dag.Literal" {
			return true
		}
		ast.Inspect(cc, func(m ast.Node) bool {
			r, ok := m.(*ast.ReturnStmt)
			if !ok || len(r.Results) != 3 {
				return true
			}
			rev := false
			switch x := r.Results[2].(type) {
			case *ast.SelectorExpr:
				if x.Sel.Name != "Op" {
					bad = "literalComparison: third result is not e.Op"
				}
			case *ast.CallExpr:
				if fn := calleeObj(info, x); fn != nil && fn.Name() == "reverseComparator" {
					rev = true
				} else {
					bad = "literalComparison: op passes through an unknown function"
				}
			default:
				bad = "literalComparison: unrecognised op result"
			}
			if tn == "compiler/ast/dag.This" {
				seenThis = true
				t.thisLeftID = !rev
			} else {
				seenLit = true
				t.litLeftRev = rev
			}
			return true
		})
		return true
	})
	if bad != "" {
		return nil, bad
	}
	if !seenThis || !seenLit {
		return nil, "literalComparison: arms for *dag.This / *dag.Literal on the left not recognised"
	}

	// buildRangePruner
	fd = decl("buildRangePruner")
	if fd == nil {
		return nil, "anchor optimizer.buildRangePruner does not resolve"
	}
	bp := paramNames(fd)
	if len(bp) != 4 {
		return nil, "buildRangePruner: expected (pred, fld, min, max)"
	}
	sw = findSwitch(fd.Body, func(tag ast.Expr) bool { s, ok := tag.(*ast.SelectorExpr); return ok && s.Sel.Name == "Op" })
	if sw == nil {
		return nil, "buildRangePruner: no switch on e.Op"
	}
	for _, s := range sw.Body.List {
		cc := s.(*ast.CaseClause)
		if cc.List == nil {
			// default must return nil
			for _, st := range cc.Body {
				if r, ok := st.(*ast.ReturnStmt); !ok || len(r.Results) != 1 || types.ExprString(r.Results[0]) != "nil" {
					return nil, "buildRangePruner: default arm does not simply return nil"
				}
			}
			continue
		}
		var labels []string
		for _, l := range cc.List {
			v, ok := constString(info, l)
			if !ok {
				return nil, "buildRangePruner: non-constant case label"
			}
			labels = append(labels, v)
		}
		switch {
		case len(labels) == 1 && labels[0] == "and":
			t.andBody = cc.Body
		case len(labels) == 1 && labels[0] == "or":
			t.orBody = cc.Body
		default:
			t.cmpOps = append(t.cmpOps, labels...)
			// find rangePrunerPred(op, literal, min, max) and map its arguments
			found := false
			var opVar, litVar string
			for _, st := range cc.Body {
				ast.Inspect(st, func(n ast.Node) bool {
					switch x := n.(type) {
					case *ast.AssignStmt:
						if len(x.Rhs) == 1 && len(x.Lhs) == 3 {
							if call, ok := x.Rhs[0].(*ast.CallExpr); ok {
								if fn := calleeObj(info, call); fn != nil && fn.Name() == "literalComparison" {
									if id, ok := x.Lhs[1].(*ast.Ident); ok {
										litVar = id.Name
									}
									if id, ok := x.Lhs[2].(*ast.Ident); ok {
										opVar = id.Name
									}
								}
							}
						}
					case *ast.CallExpr:
						if fn := calleeObj(info, x); fn != nil && fn.Name() == "rangePrunerPred" && len(x.Args) == 4 {
							names := []string{}
							for _, a := range x.Args {
								id, ok := a.(*ast.Ident)
								if !ok {
									return true
								}
								names = append(names, id.Name)
							}
							if names[0] != opVar || opVar == "" {
								return true
							}
							src := map[string]string{litVar: "literal", bp[2]: "min", bp[3]: "max"}
							for i, formal := range []string{"literal", "min", "max"} {
								actual, ok := src[names[i+1]]
								if !ok {
									return true
								}
								t.argMap[formal] = actual
							}
							found = true
						}
					}
					return true
				})
			}
			if !found {
				return nil, "buildRangePruner: comparison arm does not call rangePrunerPred(op, literal, min, max) with the results of literalComparison"
			}
		}
	}
	if t.andBody == nil || t.orBody == nil || len(t.cmpOps) == 0 {
		return nil, "buildRangePruner: and/or/comparison arms not all recognised"
	}
	return t, ""
}

// composition evaluates an and/or arm body of buildRangePruner for a given
// nil-ness of the two recursive results.
func (t *prunerTables) compose(body []ast.Stmt, lnil, rnil bool) (*pterm, bool, string) {
	info := t.info
	vars := map[string]string{} // var name -> "L"/"R"
	var evalCond func(e ast.Expr) (bool, string)
	evalCond = func(e ast.Expr) (bool, string) {
		switch x := ast.Unparen(e).(type) {
		case *ast.BinaryExpr:
			switch x.Op {
			case token.LOR, token.LAND:
				a, e1 := evalCond(x.X)
				if e1 != "" {
					return false, e1
				}
				b, e2 := evalCond(x.Y)
				if e2 != "" {
					return false, e2
				}
				if x.Op == token.LOR {
					return a || b, ""
				}
				return a && b, ""
			case token.EQL, token.NEQ:
				id, ok := x.X.(*ast.Ident)
				if !ok || types.ExprString(x.Y) != "nil" {
					return false, "unrecognised condition " + types.ExprString(e)
				}
				side, ok := vars[id.Name]
				if !ok {
					return false, "condition on unknown variable " + id.Name
				}
				isNil := lnil
				if side == "R" {
					isNil = rnil
				}
				if x.Op == token.EQL {
					return isNil, ""
				}
				return !isNil, ""
			}
		case *ast.UnaryExpr:
			if x.Op == token.NOT {
				v, e1 := evalCond(x.X)
				return !v, e1
			}
		}
		return false, "unrecognised condition " + types.ExprString(e)
	}
	var evalRes func(e ast.Expr) (*pterm, bool, string)
	evalRes = func(e ast.Expr) (*pterm, bool, string) {
		switch x := ast.Unparen(e).(type) {
		case *ast.Ident:
			if x.Name == "nil" {
				return nil, true, ""
			}
			if side, ok := vars[x.Name]; ok {
				if (side == "L" && lnil) || (side == "R" && rnil) {
					return nil, true, ""
				}
				return &pterm{kind: side}, true, ""
			}
		case *ast.CallExpr:
			if fn := calleeObj(info, x); fn != nil && fn.Name() == "NewBinaryExpr" && len(x.Args) == 3 {
				op, ok := constString(info, x.Args[0])
				if ok && (op == "or" || op == "and") {
					l, _, e1 := evalRes(x.Args[1])
					r, _, e2 := evalRes(x.Args[2])
					if e1 != "" || e2 != "" || l == nil || r == nil {
						return nil, false, "NewBinaryExpr over a nil operand"
					}
					return &pterm{kind: op, l: l, r: r}, true, ""
				}
			}
		}
		return nil, false, "unrecognised result " + types.ExprString(e)
	}
	var run func(stmts []ast.Stmt) (*pterm, bool, string)
	run = func(stmts []ast.Stmt) (*pterm, bool, string) {
		for _, st := range stmts {
			switch x := st.(type) {
			case *ast.AssignStmt:
				if len(x.Lhs) == 1 && len(x.Rhs) == 1 {
					id, ok1 := x.Lhs[0].(*ast.Ident)
					call, ok2 := x.Rhs[0].(*ast.CallExpr)
					if ok1 && ok2 {
						if fn := calleeObj(info, call); fn != nil && fn.Name() == "buildRangePruner" && len(call.Args) == 4 {
							if sel, ok := call.Args[0].(*ast.SelectorExpr); ok {
								switch sel.Sel.Name {
								case "LHS":
									vars[id.Name] = "L"
									continue
								case "RHS":
									vars[id.Name] = "R"
									continue
								}
							}
						}
					}
				}
				return nil, false, "unrecognised statement " + fmt.Sprintf("%T", st)
			case *ast.IfStmt:
				if x.Init != nil {
					return nil, false, "if with init"
				}
				cv, e := evalCond(x.Cond)
				if e != "" {
					return nil, false, e
				}
				if cv {
					return run(x.Body.List)
				} else if x.Else != nil {
					if blk, ok := x.Else.(*ast.BlockStmt); ok {
						if r, done, e := run(blk.List); done || e != "" {
							return r, done, e
						}
					} else {
						return nil, false, "else-if"
					}
				}
			case *ast.ReturnStmt:
				if len(x.Results) != 1 {
					return nil, false, "return arity"
				}
				return evalRes(x.Results[0])
			default:
				return nil, false, "unrecognised statement " + fmt.Sprintf("%T", st)
			}
		}
		return nil, false, ""
	}
	r, done, e := run(body)
	if e != "" {
		return nil, false, e
	}
	if !done {
		return nil, false, "arm falls through without a return"
	}
	return r, true, ""
}

const c16N = 5 // non-null key values 0..4; NULL is represented as c16N

// cmp3 is compare(a,b) with the extracted nullsMax.
func cmp3(a, b int, nullsMax bool) int {
	an, bn := a == c16N, b == c16N
	switch {
	case an && bn:
		return 0
	case an:
		if nullsMax {
			return 1
		}
		return -1
	case bn:
		if nullsMax {
			return -1
		}
		return 1
	case a < b:
		return -1
	case a > b:
		return 1
	}
	return 0
}

func opHolds(op string, c int) bool {
	switch op {
	case "<":
		return c < 0
	case "<=":
		return c <= 0
	case ">":
		return c > 0
	case ">=":
		return c >= 0
	case "==":
		return c == 0
	case "!=":
		return c != 0
	}
	return false
}

// leaf predicate on a key value k.
type c16leaf struct {
	opaque   bool
	op       string
	thisLeft bool
	c        int
}

func (l c16leaf) String() string {
	if l.opaque {
		return "<opaque>"
	}
	if l.thisLeft {
		return fmt.Sprintf("key %s %d", l.op, l.c)
	}
	return fmt.Sprintf("%d %s key", l.c, l.op)
}

func (l c16leaf) holds(k int) bool {
	if l.opaque {
		return true // worst case: an unknown sub-predicate may hold for every value
	}
	if k == c16N {
		return false // comparisons with a null key are never true
	}
	if l.thisLeft {
		return opHolds(l.op, cmp3(k, l.c, true))
	}
	return opHolds(l.op, cmp3(l.c, k, true))
}

func (t *prunerTables) leafPruner(l c16leaf) (*pterm, string) {
	if l.opaque {
		return nil, ""
	}
	op := l.op
	if l.thisLeft {
		if !t.thisLeftID {
			op = t.reverse[op]
		}
	} else if t.litLeftRev {
		r, ok := t.reverse[op]
		if !ok {
			return nil, "reverseComparator has no entry for " + op + " (panics at compile time)"
		}
		op = r
	}
	term, ok := t.table[op]
	if !ok {
		return nil, "rangePrunerPred has no entry for " + op + " (panics at compile time)"
	}
	return term, ""
}

func (t *prunerTables) evalTerm(x *pterm, lit, min, max int, sub map[string]*pterm, lits map[string]int) bool {
	switch x.kind {
	case "cmp":
		val := func(n string) int {
			switch t.argMap[n] {
			case "literal":
				return lit
			case "min":
				return min
			}
			return max
		}
		a, b := val(x.a), val(x.b)
		if t.cmpSwap {
			a, b = b, a
		}
		return opHolds(x.op, cmp3(a, b, t.nullsMax))
	case "or":
		return t.evalTerm(x.l, lit, min, max, sub, lits) || t.evalTerm(x.r, lit, min, max, sub, lits)
	case "and":
		return t.evalTerm(x.l, lit, min, max, sub, lits) && t.evalTerm(x.r, lit, min, max, sub, lits)
	case "L", "R":
		return t.evalTerm(sub[x.kind], lits[x.kind], min, max, nil, nil)
	}
	return false
}

func runC16T1(c *Ctx) {
	t, why := extractPrunerTables(c)
	if t == nil {
		c.Undecided("C16-T1", "optimizer pruner tables", why)
		return
	}
	ops := []string{"<", "<=", ">", ">=", "=="}
	sort.Strings(t.cmpOps)
	evals := 0
	// leaves
	var leaves []c16leaf
	for _, op := range t.cmpOps {
		for _, tl := range []bool{true, false} {
			for cst := 0; cst < c16N; cst++ {
				leaves = append(leaves, c16leaf{op: op, thisLeft: tl, c: cst})
			}
		}
	}
	_ = ops
	type rng struct{ min, max int }
	var ranges []rng
	for mn := 0; mn <= c16N; mn++ {
		for mx := mn; mx <= c16N; mx++ {
			ranges = append(ranges, rng{mn, mx})
		}
	}
	inRange := func(k int, r rng) bool { return cmp3(r.min, k, true) <= 0 && cmp3(k, r.max, true) <= 0 }
	// single comparisons
	for _, op := range t.cmpOps {
		for _, tl := range []bool{true, false} {
			side := "key " + op + " literal"
			if !tl {
				side = "literal " + op + " key"
			}
			construct := "pruner for " + side
			failed := false
			for cst := 0; cst < c16N && !failed; cst++ {
				lf := c16leaf{op: op, thisLeft: tl, c: cst}
				term, e := t.leafPruner(lf)
				if e != "" {
					c.Fail("C16-T1", construct, token.NoPos, e)
					failed = true
					break
				}
				for _, r := range ranges {
					evals++
					if !t.evalTerm(term, cst, r.min, r.max, nil, nil) {
						continue
					}
					for k := 0; k <= c16N; k++ {
						if inRange(k, r) && lf.holds(k) {
							c.Fail("C16-T1", construct, c.P.Func("compiler/optimizer.rangePrunerPred").Pos(),
								fmt.Sprintf("unsound: for predicate `%s` the extracted pruner %s (after literalComparison/reverseComparator) is true for an object with key range [min=%s,max=%s], yet key=%d in that range satisfies the predicate — the object (or seek range) would be skipped", lf, term, kstr(r.min), kstr(r.max), k))
							failed = true
							break
						}
					}
					if failed {
						break
					}
				}
			}
			if !failed {
				term, _ := t.leafPruner(c16leaf{op: op, thisLeft: tl})
				c.OK("C16-T1", construct, token.NoPos, "sound over all min<=max, literal, key in a 5-point order + NULL-as-max: "+term.String())
			}
		}
	}
	// and/or composition with opaque or comparison sub-predicates
	allLeaves := append([]c16leaf{{opaque: true}}, leaves...)
	for _, conn := range []string{"and", "or"} {
		body := t.andBody
		if conn == "or" {
			body = t.orBody
		}
		construct := "pruner composition for `" + conn + "`"
		failed := false
		for _, l := range allLeaves {
			if failed {
				break
			}
			lt, e1 := t.leafPruner(l)
			if e1 != "" {
				continue
			}
			for _, r := range allLeaves {
				rt, e2 := t.leafPruner(r)
				if e2 != "" {
					continue
				}
				comp, _, e := t.compose(body, lt == nil, rt == nil)
				if e != "" {
					c.Undecided("C16-T1", construct, "buildRangePruner arm shape not recognised: "+e)
					failed = true
					break
				}
				if comp == nil {
					continue
				}
				for _, g := range ranges {
					evals++
					if !t.evalTerm(comp, 0, g.min, g.max, map[string]*pterm{"L": lt, "R": rt}, map[string]int{"L": l.c, "R": r.c}) {
						continue
					}
					for k := 0; k <= c16N; k++ {
						if !inRange(k, g) {
							continue
						}
						h := l.holds(k) && r.holds(k)
						if conn == "or" {
							h = l.holds(k) || r.holds(k)
						}
						if h {
							c.Fail("C16-T1", construct, c.P.Func("compiler/optimizer.buildRangePruner").Pos(),
								fmt.Sprintf("unsound: `%s %s %s` is pruned (composed pruner %s true) for range [min=%s,max=%s] although key=%d may satisfy it", l, conn, r, comp, kstr(g.min), kstr(g.max), k))
							failed = true
							break
						}
					}
					if failed {
						break
					}
				}
				if failed {
					break
				}
			}
		}
		if !failed {
			c.OK("C16-T1", construct, token.NoPos, "sound for all pairs of {opaque, comparison} sub-predicates")
		}
	}
	c.extra("c16_table_evaluations", evals)
	c.extra("c16_extracted", map[string]interface{}{"reverseComparator": t.reverse, "nullsMax": t.nullsMax, "comparison_ops": t.cmpOps, "literal_left_reversed": t.litLeftRev, "args": t.argMap})
}

func kstr(k int) string {
	if k == c16N {
		return "NULL"
	}
	return fmt.Sprint(k)
}

var _ = strings.Contains
var _ *packages.Package
var _ *ssa.Function

func runC16(c *Ctx, tier string) {
	runBoundsUseSortEvaluator(c, "C16-K4")
	runPrunerBuiltFromFilter(c, "C16-T2")
	c.Rule("C16-T1", "pruner tables (rangePrunerPred, reverseComparator, literalComparison, compare, and/or composition of buildRangePruner) are extracted from the AST and evaluated exhaustively over a 5-point total order + NULL-as-max: pruner(min,max) true implies no key in [min,max] satisfies the predicate")
	c.Rule("C16-S1", "every dag.*.KeyPruner is maybeNewRangePruner(<the filter pushed into this scan>, sortKeysOfSource(<this source>)), or a copy of the lister's; the same predicate is stored as the scan's Filter/Where")
	c.Rule("C16-D1", "no store to dag.Deleter.KeyPruner (the deleter must see every seek range of a touched object)")
	c.Rule("C16-S2", "a pruner result skips an object / seek range only after Type()==TypeBool and Bool() (errors and non-bool results never prune)")
	c.Rule("C16-S3", "the pruner reads this.min/this.max in that order, these are the Min/Max metadata fields, and only comparisons on the pool key reach the table")
	c.Rule("C16-B1", "both publishers of key bounds (object, seek-index entry) swap first/last when the pool order is descending")
	c.Rule("C16-N1", "comparators on the lake path are built with nullsMax = true")
	runC16T1(c)
	runC16S1(c)
	runC16S2(c)
	runC16S3(c)
	runC16B1(c)
	runSeekIndexMaxMeaning(c, "C16-B2")
	runSeekRangeMerge(c, "C16-R1")
	runFirstKeyByPosition(c, "C16-B3")
	runSeekLookupScansAll(c, "C16-L1")
	runConstCompareRefusesNull(c, "C16-N2")
	runCompareUsesBothOperands(c, "C16-C2")
	c.borrow(func(t *Ctx) { writersNoRetain(t, "C04-W2") }, map[string]string{"C04-W2": "C16-W2"})
	checkNullsMax(c, "C16-N1")
}

func init() {
	register(&PropertyDef{ID: "C16", Run: runC16,
		Explanation: "The pool-key pruner touches keys only through comparisons, so its soundness reduces to facts about small tables in compiler/optimizer; these are extracted from the source and decided by exhaustive finite-order evaluation (T1), together with structural conditions on where the pruner is derived from and how its result is interpreted (S1, S2, B1, D1, N1). Does NOT decide agreement between compare()'s cross-type order and the filter's coercing comparison, nor that seek-index bounds are true bounds.",
		Assumptions: []string{"a 5-point total order extended with NULL as greatest is sufficient to exhibit any unsoundness of comparison-only tables (each table entry mentions at most 3 values)", "comparisons involving a null key are never true"}})
}
