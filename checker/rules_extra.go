package main

import (
	"go/ast"
	"go/constant"
	"go/token"
	"go/types"
	"math"
	"sort"
	"strings"

	"golang.org/x/tools/go/ssa"
)

// ---- C02-K2: typedef tables on both sides follow "latest definition wins".
func runTypedefLatestWins(c *Ctx, rule string) {
	p := c.P
	c.Rule(rule, "latest typedef wins on both sides: the formatter's name tables (typedefs, permanent) and the analyzer's table are overwritten unconditionally when a name is (re)defined; a table that keeps the first binding disagrees with the reader after a redefinition")
	check := func(fnName_ string, isTable func(v ssa.Value) bool, what string) {
		fn := p.Func(fnName_)
		if fn == nil {
			c.Undecided(rule, fnName_, "anchor does not resolve")
			return
		}
		n := 0
		for _, b := range fn.Blocks {
			for _, in := range b.Instrs {
				mu, ok := in.(*ssa.MapUpdate)
				if !ok || !isTable(mu.Map) {
					continue
				}
				n++
				// guarded by "name not yet present" ?
				guarded := false
				for _, bb := range fn.Blocks {
					for _, y := range bb.Instrs {
						l, ok := y.(*ssa.Lookup)
						if !ok || !l.CommaOk || !isTable(l.X) {
							continue
						}
						for _, r := range *l.Referrers() {
							if ex, ok := r.(*ssa.Extract); ok && ex.Index == 1 && falseEdgeDominates(ex, mu.Block()) {
								guarded = true
							}
						}
					}
				}
				construct := fnName_ + " updates " + what + " #" + sprint(n)
				if guarded {
					c.Fail(rule, construct, mu.Pos(), "the name table is only updated when the name is not yet bound: after a name is redefined to another type, a later value of the first type is written as a bare reference, which the reader resolves to the newer type (silently wrong type, or a parse error)")
				} else {
					c.OK(rule, construct, mu.Pos(), "overwritten on every (re)definition")
				}
			}
		}
		if n == 0 {
			c.Undecided(rule, fnName_, "no update of "+what+" found")
		}
	}
	check("(*zson.Formatter).saveType", func(v ssa.Value) bool { return isFieldLoad(v, "typedefs") || isFieldLoad(v, "permanent") }, "the formatter's typedef tables")
	check("(zson.Analyzer).enterTypeDef", func(v ssa.Value) bool {
		return namedOf(stripConv(v).Type()) == "zson.Analyzer"
	}, "the analyzer's typedef table")
}

// ---- C03-B1b: the dictionary bound is enforced after every insert.
func runDictBoundAfterInsert(c *Ctx, rule string) {
	p := c.P
	fn := p.Func("(*vng.PrimitiveEncoder).update")
	if fn == nil {
		c.Undecided(rule, "(*vng.PrimitiveEncoder).update", "anchor does not resolve")
		return
	}
	max := constInt(p, "vng", "MaxDictSize")
	isBound := func(in ssa.Instruction, strictOnly bool) bool {
		cmp, ok := in.(*ssa.BinOp)
		if !ok {
			return false
		}
		k, isK := cmp.Y.(*ssa.Const)
		if !isK || k.Value == nil || k.Int64() != max {
			return false
		}
		lenOfDict := dependsOn(cmp.X, func(v ssa.Value) bool { return isFieldLoad(v, "dict") })
		if !lenOfDict {
			return false
		}
		if strictOnly {
			return cmp.Op == token.GEQ
		}
		return cmp.Op == token.GTR || cmp.Op == token.GEQ
	}
	n := 0
	for _, b := range fn.Blocks {
		for _, in := range b.Instrs {
			mu, ok := in.(*ssa.MapUpdate)
			if !ok || !isFieldLoad(mu.Map, "dict") {
				continue
			}
			n++
			construct := "(*vng.PrimitiveEncoder).update dictionary insert #" + sprint(n)
			isRet := func(x ssa.Instruction) bool { _, ok := x.(*ssa.Return); return ok }
			post := reachAvoiding(fn, mu, func(x ssa.Instruction) bool { return isBound(x, false) }, isRet) == nil
			pre := false
			for _, bb := range fn.Blocks {
				for _, y := range bb.Instrs {
					if isBound(y, true) && dominates(y, mu) {
						pre = true
					}
				}
			}
			if post || pre {
				c.OK(rule, construct, mu.Pos(), "the size bound is enforced for the dictionary that results from this insert")
			} else {
				c.Fail(rule, construct, mu.Pos(), "after this insert the dictionary can hold MaxDictSize+1 entries before the bound is checked again (a `> MaxDictSize` test placed before the insert admits one entry too many): the 257th entry's one-byte selector wraps to 0 and every occurrence of that value reads back as another value")
			}
		}
	}
	if n == 0 {
		c.Undecided(rule, "(*vng.PrimitiveEncoder).update", "no insert into the dictionary found")
	}
}

// ---- C06-F1: sentinels of the bulk sorter's native fast path.
//
// A "source" is what the sorter stores into its int64 key array in place of a real value: a
// constant (MaxInt64/MinInt64) or a local variable that only ever holds such constants.  The tie
// branch of the less function must recognise each source: a constant by comparing with that
// constant (or with a variable that can only hold it), a variable by comparing with that variable
// (or with every constant it can hold).
func runSortSentinels(c *Ctx, rule string) {
	p := c.P
	c.Rule(rule, "fast-path sentinels agree: every stand-in the bulk sorter stores into its int64 key array in place of a real value (null markers, the clamp for large uint64) is tested for in the tie branch, so that aliased keys fall back to the full comparison")
	const fname = "(*runtime/sam/expr.Comparator).sortStableIndices"
	fn := p.Func(fname)
	if fn == nil {
		c.Undecided(rule, fname, "anchor does not resolve")
		return
	}
	sentinel := func(v ssa.Value) (int64, bool) {
		k, ok := v.(*ssa.Const)
		if !ok || k.Value == nil || k.Value.Kind() != constant.Int {
			return 0, false
		}
		i, ok := constant.Int64Val(k.Value)
		return i, ok && (i == math.MaxInt64 || i == math.MinInt64)
	}
	// constants a local variable (alloc) can hold; nil if it can hold anything else
	allocConsts := func(al *ssa.Alloc) map[int64]bool {
		out := map[int64]bool{}
		for _, r := range *al.Referrers() {
			st, ok := r.(*ssa.Store)
			if !ok || st.Addr != al {
				continue
			}
			var walk func(v ssa.Value, seen map[ssa.Value]bool) bool
			walk = func(v ssa.Value, seen map[ssa.Value]bool) bool {
				if seen[v] {
					return true
				}
				seen[v] = true
				switch x := v.(type) {
				case *ssa.Const:
					i, ok := sentinel(x)
					if ok {
						out[i] = true
					}
					return ok
				case *ssa.Phi:
					for _, e := range x.Edges {
						if !walk(e, seen) {
							return false
						}
					}
					return true
				case *ssa.Convert:
					return walk(x.X, seen)
				}
				return false
			}
			if !walk(st.Val, map[ssa.Value]bool{}) {
				return nil
			}
		}
		return out
	}
	type source struct {
		k  int64
		al *ssa.Alloc
	}
	sources := map[source]bool{}
	var collect func(v ssa.Value, seen map[ssa.Value]bool)
	collect = func(v ssa.Value, seen map[ssa.Value]bool) {
		if seen[v] {
			return
		}
		seen[v] = true
		switch x := v.(type) {
		case *ssa.Const:
			if i, ok := sentinel(x); ok {
				sources[source{k: i}] = true
			}
		case *ssa.Phi:
			for _, e := range x.Edges {
				collect(e, seen)
			}
		case *ssa.Convert:
			collect(x.X, seen)
		case *ssa.UnOp:
			if al, ok := x.X.(*ssa.Alloc); ok && x.Op == token.MUL {
				if ks := allocConsts(al); len(ks) > 0 {
					sources[source{al: al}] = true
				}
			}
		}
	}
	for _, b := range fn.Blocks {
		for _, in := range b.Instrs {
			st, ok := in.(*ssa.Store)
			if !ok {
				continue
			}
			if ia, ok := st.Addr.(*ssa.IndexAddr); ok && short(ia.X.Type().String()) == "[]int64" {
				collect(st.Val, map[ssa.Value]bool{})
			}
		}
	}
	testedK := map[int64]bool{}
	testedAl := map[*ssa.Alloc]bool{}
	for _, b := range fn.Blocks {
		for _, in := range b.Instrs {
			mc, ok := in.(*ssa.MakeClosure)
			if !ok {
				continue
			}
			an := mc.Fn.(*ssa.Function)
			for _, ab := range an.Blocks {
				for _, ai := range ab.Instrs {
					cmp, ok := ai.(*ssa.BinOp)
					if !ok || (cmp.Op != token.NEQ && cmp.Op != token.EQL) {
						continue
					}
					for _, o := range []ssa.Value{cmp.X, cmp.Y} {
						if i, ok := sentinel(o); ok {
							testedK[i] = true
						}
						if u, ok := o.(*ssa.UnOp); ok {
							if fv, ok := u.X.(*ssa.FreeVar); ok {
								for i, f := range an.FreeVars {
									if f == fv && i < len(mc.Bindings) {
										if al, ok := mc.Bindings[i].(*ssa.Alloc); ok {
											testedAl[al] = true
										}
									}
								}
							}
						}
					}
				}
			}
		}
	}
	if len(sources) == 0 {
		c.Undecided(rule, fname, "no stand-in stores into the int64 key array found")
		return
	}
	kname := func(k int64) string {
		if k == math.MinInt64 {
			return "MinInt64"
		}
		return "MaxInt64"
	}
	for src := range sources {
		var construct string
		covered := false
		if src.al == nil {
			construct = "sortStableIndices sentinel " + kname(src.k)
			covered = testedK[src.k]
			for al := range testedAl {
				if ks := allocConsts(al); len(ks) == 1 && ks[src.k] {
					covered = true
				}
			}
		} else {
			construct = "sortStableIndices sentinel variable " + src.al.Comment
			covered = testedAl[src.al]
			if !covered {
				covered = true
				for k := range allocConsts(src.al) {
					if !testedK[k] {
						covered = false
					}
				}
			}
		}
		if covered {
			c.OK(rule, construct, fn.Pos(), "stored as a stand-in and tested for in the tie branch")
		} else {
			c.Fail(rule, construct, fn.Pos(), "this value is stored into the native key array in place of a real value (null marker / clamped uint64) but the tie branch of the less function does not test for it: keys that alias it (distinct uint64 >= 2^63, MaxInt64 vs null) are treated as equal on the first key, so the bulk sort disagrees with Comparator.Compare and the output is not sorted")
		}
	}
}


// ---- C09-N1: operators that consume a dictionary vector slot by slot honour its null mask.
func runDictNulls(c *Ctx, rule string) {
	p := c.P
	c.Rule(rule, "operators that end the vector pipeline (runtime/vam/op) and walk a dictionary vector's per-slot Index also read its Nulls mask; the vector cache gives null slots index 0, so a walk of Index without Nulls counts every null as the first dictionary entry (the Counts route needs no mask: counts exclude nulls)")
	n := 0
	for _, fn := range p.FuncsIn("runtime/vam/op") {
		var idx ssa.Instruction
		nulls := false
		for _, b := range fn.Blocks {
			for _, in := range b.Instrs {
				fa, ok := in.(*ssa.FieldAddr)
				if !ok || namedOf(fa.X.Type()) != "vector.Dict" {
					continue
				}
				switch fieldName(fa.X.Type(), fa.Field) {
				case "Index":
					if idx == nil {
						idx = fa
					}
				case "Nulls":
					nulls = true
				}
			}
		}
		if idx == nil {
			continue
		}
		n++
		if nulls {
			c.OK(rule, fnName(fn)+" walks Dict.Index", idx.Pos(), "Nulls is consulted")
		} else {
			c.Fail(rule, fnName(fn)+" walks Dict.Index", idx.Pos(), "the per-slot index of a dictionary vector is consumed without its Nulls mask: every null slot is taken as dictionary entry 0, so the vector runtime's result differs from the sequential runtime's on columns with nulls")
		}
	}
	c.extra("c09_dict_index_walkers", n)
}

// ---- C18-E6: a deferred closure does not overwrite a pending error.
func runDeferredOverwrite(c *Ctx, rule string, pkgs ...string) {
	p := c.P
	c.Rule(rule, "a deferred closure that assigns the function's named error result does so only when no error is pending (guarded by `err == nil`) or when the new value is itself an error (guarded by `x != nil`); an unconditional assignment replaces a flush/write error with the (usually nil) result of the cleanup call")
	n := 0
	for _, pkg := range pkgs {
		for _, fn := range p.FuncsIn(pkg) {
			for _, an := range fn.AnonFuncs {
				if !isDeferred(fn, an) {
					continue
				}
				for i, fv := range an.FreeVars {
					pt, ok := fv.Type().Underlying().(*types.Pointer)
					if !ok || !isError(pt.Elem()) {
						continue
					}
					if !isNamedResult(fn, an, i) {
						continue
					}
					for _, r := range *fv.Referrers() {
						st, ok := r.(*ssa.Store)
						if !ok || st.Addr != fv {
							continue
						}
						n++
						construct := fnName(fn) + " deferred assignment to its error result"
						if deferredStoreGuarded(an, fv, st) {
							c.OK(rule, construct, st.Pos(), "assigned only when no error is pending or when the new value is an error")
						} else {
							c.Fail(rule, construct, st.Pos(), "the deferred closure overwrites the named error result unconditionally: an error returned by the body (a failed flush or write) is replaced by the cleanup call's result, so the caller sees success although output was lost")
						}
					}
				}
			}
		}
	}
	c.extra("c18_deferred_result_assignments", n)
}

func isDeferred(fn, an *ssa.Function) bool {
	for _, b := range fn.Blocks {
		for _, in := range b.Instrs {
			d, ok := in.(*ssa.Defer)
			if !ok {
				continue
			}
			if mc, ok := d.Call.Value.(*ssa.MakeClosure); ok && mc.Fn == an {
				return true
			}
		}
	}
	return false
}

// isNamedResult reports whether free variable i of closure an is bound to an alloc that holds a
// named result of fn (an alloc whose value is loaded for a Return).
func isNamedResult(fn, an *ssa.Function, i int) bool {
	for _, b := range fn.Blocks {
		for _, in := range b.Instrs {
			mc, ok := in.(*ssa.MakeClosure)
			if !ok || mc.Fn != an || i >= len(mc.Bindings) {
				continue
			}
			al, ok := mc.Bindings[i].(*ssa.Alloc)
			if !ok {
				return false
			}
			for _, r := range *al.Referrers() {
				if u, ok := r.(*ssa.UnOp); ok {
					for _, rr := range *u.Referrers() {
						if _, ok := rr.(*ssa.Return); ok {
							return true
						}
					}
				}
			}
		}
	}
	return false
}

func deferredStoreGuarded(an *ssa.Function, fv *ssa.FreeVar, st *ssa.Store) bool {
	// the new value is an error by construction
	switch v := st.Val.(type) {
	case *ssa.MakeInterface:
		return true
	case *ssa.Call:
		if f := v.Call.StaticCallee(); f != nil && f.Pkg != nil {
			if n := f.Pkg.Pkg.Path() + "." + f.Name(); n == "fmt.Errorf" || n == "errors.New" {
				return true
			}
		}
	}
	for _, b := range an.Blocks {
		for _, in := range b.Instrs {
			cmp, ok := in.(*ssa.BinOp)
			if !ok || (cmp.Op != token.EQL && cmp.Op != token.NEQ) {
				continue
			}
			var other ssa.Value
			if isNilConst(cmp.Y) {
				other = cmp.X
			} else if isNilConst(cmp.X) {
				other = cmp.Y
			} else {
				continue
			}
			isPending := false
			if u, ok := other.(*ssa.UnOp); ok && u.X == fv {
				isPending = true
			}
			isNew := other == st.Val
			if !isPending && !isNew {
				continue
			}
			// pending == nil  (true edge of EQL / false edge of NEQ) ; new != nil (true edge of NEQ / false edge of EQL)
			wantTrue := (isPending && cmp.Op == token.EQL) || (isNew && cmp.Op == token.NEQ)
			if wantTrue && trueEdgeDominates(cmp, st.Block()) {
				return true
			}
			if !wantTrue && falseEdgeDominates(cmp, st.Block()) {
				return true
			}
		}
	}
	return false
}

// ---- C12-F1 / C13-R2: lookups of lake metadata are never served from a time-bounded cache.
//
// journal.Store keeps the last loaded table.  load() compares the cached position with the HEAD
// it reads from storage on every call, so a table served after load() is current.  Store.Lookup
// instead trusts the table for a second after the last load: a name resolved through it can miss
// a commit that was acknowledged to another handle.  Two conditions: (a) nobody calls
// Store.Lookup; (b) every other method that reads the table has gone through load() first.
func runJournalFreshness(c *Ctx, rule string) {
	p := c.P
	c.Rule(rule, "metadata lookups read the journal HEAD: no caller of the time-based journal.Store.Lookup exists, every exported journal.Store method that reads the cached table calls load() first on every path, and load() itself reads HEAD unconditionally")
	sites := callSitesWhere(p, func(cc *ssa.CallCommon, name string) bool { return name == "(*lake/journal.Store).Lookup" })
	nsite := 0
	for _, s := range sites {
		if strings.HasSuffix(p.Fset.Position(s.ci.Pos()).Filename, "_test.go") {
			continue
		}
		nsite++
		c.Fail(rule, "(*lake/journal.Store).Lookup called from "+topName(s.fn), s.ci.Pos(), "this lookup is answered from a table that may be up to one second old: a branch or pool name can resolve to the state before a commit that was already acknowledged to another handle (a reader started after the commit does not see it)")
	}
	if nsite == 0 {
		c.OK(rule, "(*lake/journal.Store).Lookup has no callers", token.NoPos, "the time-bounded cache is not used for name or ID resolution")
	}
	// (b) readers of s.table
	n := 0
	for _, fn := range p.FuncsIn("lake/journal") {
		if fn.Parent() != nil || fn.Signature.Recv() == nil || namedOf(fn.Signature.Recv().Type()) != "lake/journal.Store" {
			continue
		}
		if !ast_IsExported(fn.Name()) || fn.Name() == "Lookup" {
			continue
		}
		var reads []ssa.Instruction
		for _, b := range fn.Blocks {
			for _, in := range b.Instrs {
				if u, ok := in.(*ssa.UnOp); ok && isFieldLoad(u, "table") {
					reads = append(reads, u)
				}
			}
		}
		if len(reads) == 0 {
			continue
		}
		n++
		var loads []ssa.Instruction
		for _, ci := range allCalls(fn) {
			if calleeName(ci.Common()) == "(*lake/journal.Store).load" {
				loads = append(loads, ci)
			}
		}
		ok := true
		for _, r := range reads {
			dom := false
			for _, l := range loads {
				if dominates(l, r) {
					dom = true
				}
			}
			if !dom {
				ok = false
				c.Fail(rule, fnName(fn)+" reads the cached table", r.Pos(), "the table is read on a path that has not called load(): the answer can predate commits acknowledged to other handles")
			}
		}
		if ok {
			c.OK(rule, fnName(fn)+" reads the cached table", fn.Pos(), "after load()")
		}
	}
	// (c) load reads HEAD first, unconditionally
	if ld := p.Func("(*lake/journal.Store).load"); ld == nil {
		c.Undecided(rule, "(*lake/journal.Store).load", "anchor does not resolve")
	} else {
		var rh ssa.Instruction
		for _, ci := range allCalls(ld) {
			if calleeName(ci.Common()) == "(*lake/journal.Queue).ReadHead" {
				rh = ci
			}
		}
		if rh == nil || rh.Block() != ld.Blocks[0] {
			c.Fail(rule, "(*lake/journal.Store).load reads HEAD", ld.Pos(), "load() does not read the journal HEAD unconditionally on entry: a cached table can be returned without consulting storage")
		} else {
			c.OK(rule, "(*lake/journal.Store).load reads HEAD", rh.Pos(), "ReadHead in the entry block")
		}
	}
	if n < 3 {
		c.Undecided(rule, "journal.Store readers", "fewer than 3 table-reading methods found ("+sprint(n)+")")
	}
}

func ast_IsExported(name string) bool { return name != "" && name[0] >= 'A' && name[0] <= 'Z' }

// ---- C16-B2: while seek-index entries are written, object.Max is the last key written.
//
// flushSeekIndex derives the upper end of a seek entry from w.object.Max ("last key written")
// and swaps the pair itself for descending pools.  The final Min/Max swap of Close gives
// object.Max another meaning (largest key), so it must come after the last flush.
func runSeekIndexMaxMeaning(c *Ctx, rule string) {
	p := c.P
	c.Rule(rule, "object.Max keeps meaning `last key written` for as long as seek-index entries are written: no assignment to the object's Min/Max (the descending-order swap of Close) can be followed by a flushSeekIndex on any path")
	n := 0
	for _, fn := range p.FuncsIn("lake/data") {
		if fn.Signature.Recv() == nil || namedOf(fn.Signature.Recv().Type()) != "lake/data.Writer" {
			continue
		}
		isFlush := func(in ssa.Instruction) bool {
			ci, ok := in.(ssa.CallInstruction)
			if !ok {
				return false
			}
			nm := calleeName(ci.Common())
			return nm == "(*lake/data.Writer).flushSeekIndex" || nm == "(*lake/data.Writer).writeIndex"
		}
		for _, b := range fn.Blocks {
			for _, in := range b.Instrs {
				st, ok := in.(*ssa.Store)
				if !ok {
					continue
				}
				fa, ok := st.Addr.(*ssa.FieldAddr)
				if !ok {
					continue
				}
				f := fieldName(fa.X.Type(), fa.Field)
				if (f != "Min" && f != "Max") || namedOf(fa.X.Type()) != "lake/data.Object" {
					continue
				}
				n++
				construct := fnName(fn) + " assigns object." + f
				if hit := reachAvoiding(fn, st, func(ssa.Instruction) bool { return false }, isFlush); hit != nil {
					c.Fail(rule, construct, st.Pos(), "after this assignment a seek-index entry can still be flushed ("+p.Pos(hit.Pos())+"): the entry's range is computed from a Max that no longer is the last key written, so for descending pools the trailing entry gets the object's largest key as its lower bound and the range pruner skips values that match")
				} else {
					c.OK(rule, construct, st.Pos(), "no seek-index flush can follow")
				}
			}
		}
	}
	if n < 2 {
		c.Undecided(rule, "lake/data.Writer", "the Min/Max swap was not found ("+sprint(n)+" assignments)")
	}
}

// ---- C10-J1: the join's sides are swapped as a unit.
//
// For a right join the kernel swaps the two inputs and builds a left join.  The parent puller,
// the key expression and the declared input direction of a side travel together: join.New sorts
// a side unless its declared direction says it is already sorted on its key, so a direction that
// stays behind when the other two are swapped makes the operator trust an unsorted stream.
func runJoinSidesSwapTogether(c *Ctx, rule string) {
	p := c.P
	c.Rule(rule, "at the kernel's call of join.New the parent, key and declared direction passed for one side come from the same side of the dag.Join on every path (for `right` all three are swapped, or none)")
	var site *ssa.Call
	var host *ssa.Function
	for _, fn := range p.FuncsIn("compiler/kernel") {
		for _, ci := range allCalls(fn) {
			if call, ok := ci.(*ssa.Call); ok && calleeName(ci.Common()) == "runtime/sam/op/join.New" {
				site, host = call, fn
			}
		}
	}
	if site == nil {
		c.Undecided(rule, "compiler/kernel -> join.New", "call site not found")
		return
	}
	callee := site.Call.StaticCallee()
	idx := map[string]int{}
	for i, prm := range callee.Params {
		idx[prm.Name()] = i
	}
	need := []string{"left", "right", "leftKey", "rightKey", "leftDir", "rightDir"}
	for _, nme := range need {
		if _, ok := idx[nme]; !ok {
			c.Undecided(rule, "join.New", "parameter "+nme+" not found (signature changed)")
			return
		}
	}
	// side of a value on predecessor edge e of block blk (-1: any)
	var side func(v ssa.Value, blk *ssa.BasicBlock, e int, depth int) string
	side = func(v ssa.Value, blk *ssa.BasicBlock, e int, depth int) string {
		if depth > 12 {
			return "?"
		}
		switch x := v.(type) {
		case *ssa.Phi:
			if x.Block() == blk && e >= 0 {
				return side(x.Edges[e], blk, -1, depth+1)
			}
			s := ""
			for _, ev := range x.Edges {
				t := side(ev, x.Block(), -1, depth+1)
				if s == "" {
					s = t
				} else if s != t {
					return "?"
				}
			}
			return s
		case *ssa.UnOp:
			if x.Op == token.MUL {
				switch a := x.X.(type) {
				case *ssa.FieldAddr:
					if namedOf(a.X.Type()) == "compiler/ast/dag.Join" {
						f := fieldName(a.X.Type(), a.Field)
						if strings.HasPrefix(f, "Left") {
							return "L"
						}
						if strings.HasPrefix(f, "Right") {
							return "R"
						}
					}
				case *ssa.IndexAddr:
					if k, ok := a.Index.(*ssa.Const); ok {
						if k.Int64() == 0 {
							return "L"
						}
						if k.Int64() == 1 {
							return "R"
						}
					}
				}
			}
		case *ssa.Extract:
			if call, ok := x.Tuple.(*ssa.Call); ok && len(call.Call.Args) > 0 {
				return side(call.Call.Args[len(call.Call.Args)-1], blk, e, depth+1)
			}
		case *ssa.Call:
			if len(x.Call.Args) > 0 {
				return side(x.Call.Args[len(x.Call.Args)-1], blk, e, depth+1)
			}
		case *ssa.ChangeType:
			return side(x.X, blk, e, depth+1)
		case *ssa.Convert:
			return side(x.X, blk, e, depth+1)
		case *ssa.MakeInterface:
			return side(x.X, blk, e, depth+1)
		}
		return "?"
	}
	// the block whose phis merge the per-style assignments
	var blk *ssa.BasicBlock
	for _, nme := range need {
		if phi, ok := site.Call.Args[idx[nme]].(*ssa.Phi); ok {
			blk = phi.Block()
		}
	}
	edges := []int{-1}
	if blk != nil {
		edges = edges[:0]
		for i := range blk.Preds {
			edges = append(edges, i)
		}
	}
	bad := ""
	for _, e := range edges {
		got := map[string]string{}
		for _, nme := range need {
			got[nme] = side(site.Call.Args[idx[nme]], blk, e, 0)
		}
		l, r := got["left"], got["right"]
		okL := l != "?" && got["leftKey"] == l && got["leftDir"] == l
		okR := r != "?" && got["rightKey"] == r && got["rightDir"] == r
		if !okL || !okR || l == r {
			bad = "left=(" + got["left"] + "," + got["leftKey"] + "," + got["leftDir"] + ") right=(" + got["right"] + "," + got["rightKey"] + "," + got["rightDir"] + ")"
		}
	}
	construct := fnName(host) + " -> join.New sides"
	if bad != "" {
		c.Fail(rule, construct, site.Pos(), "on some path the parent, key and declared direction of a side do not come from the same side of the dag.Join ["+bad+"; L/R = side of origin]: join.New sorts a side only if its declared direction does not match, so it trusts an unsorted stream as sorted (right joins with asymmetric input order silently lose matches)")
	} else {
		c.OK(rule, construct, site.Pos(), "parent, key and direction travel together on every path ("+sprint(len(edges))+" paths)")
	}
}

// ---- C10-J2: the optimizer declares a join side sorted only from that side's parent and key.
func runJoinDirDeclared(c *Ctx, rule string) {
	p := c.P
	c.Rule(rule, "the optimizer declares a join input sorted (LeftDir/RightDir) only from the sort key of that side's parent, under a test of that side's join key")
	fn := p.Func("(*compiler/optimizer.Optimizer).propagateSortKeyOp")
	if fn == nil {
		c.Undecided(rule, "propagateSortKeyOp", "anchor does not resolve")
		return
	}
	n := 0
	for _, b := range fn.Blocks {
		for _, in := range b.Instrs {
			st, ok := in.(*ssa.Store)
			if !ok {
				continue
			}
			fa, ok := st.Addr.(*ssa.FieldAddr)
			if !ok || namedOf(fa.X.Type()) != "compiler/ast/dag.Join" {
				continue
			}
			f := fieldName(fa.X.Type(), fa.Field)
			if f != "LeftDir" && f != "RightDir" {
				continue
			}
			n++
			wantIdx, wantKey, otherKey := int64(0), "LeftKey", "RightKey"
			if f == "RightDir" {
				wantIdx, wantKey, otherKey = 1, "RightKey", "LeftKey"
			}
			parentIdx := func(i int64) func(ssa.Value) bool {
				return func(v ssa.Value) bool {
					ia, ok := v.(*ssa.IndexAddr)
					if !ok {
						return false
					}
					k, ok := ia.Index.(*ssa.Const)
					return ok && k.Int64() == i
				}
			}
			keyField := func(name string) func(ssa.Value) bool {
				return func(v ssa.Value) bool {
					a, ok := v.(*ssa.FieldAddr)
					return ok && namedOf(a.X.Type()) == "compiler/ast/dag.Join" && fieldName(a.X.Type(), a.Field) == name
				}
			}
			valOK := dependsOn(st.Val, parentIdx(wantIdx)) && !dependsOn(st.Val, parentIdx(1-wantIdx))
			guardOK := false
			for _, gb := range fn.Blocks {
				if len(gb.Instrs) == 0 {
					continue
				}
				iff, ok := gb.Instrs[len(gb.Instrs)-1].(*ssa.If)
				if !ok || !gb.Dominates(b) || gb == b {
					continue
				}
				if dependsOnCtl(iff.Cond, keyField(wantKey)) && !dependsOnCtl(iff.Cond, keyField(otherKey)) {
					guardOK = true
				}
			}
			construct := "propagateSortKeyOp stores dag.Join." + f
			if valOK && guardOK {
				c.OK(rule, construct, st.Pos(), "taken from parents["+sprint(int(wantIdx))+"] under a test of "+wantKey)
			} else {
				c.Fail(rule, construct, st.Pos(), "the declared direction of this join input is not derived from its own parent's sort key under a test of its own join key: join.New skips the sort of an input it is told is sorted, so a wrong declaration loses matches")
			}
		}
	}
	if n != 2 {
		c.Undecided(rule, "propagateSortKeyOp", "expected the two stores LeftDir/RightDir, found "+sprint(n))
	}
}

// ---- C06-F2: each sort key is evaluated on the operands the comparator was given.
//
// A multi-key comparison walks the keys in order.  The direction of one key may swap what is
// compared for THAT key, but the operands handed to the next key's evaluator must be the original
// ones: an operand (or an index of one) that is carried around the key loop makes a descending
// key reverse every later key, so the pairwise comparison no longer agrees with the bulk sorter.
func runSortKeyOperandsInvariant(c *Ctx, rule string) {
	p := c.P
	c.Rule(rule, "in the comparator's key loops the value handed to a key's evaluator does not depend on state carried from the previous key (no loop-header phi other than the loop counter reaches the operand of Eval)")
	n := 0
	for _, fn := range p.FuncsIn("runtime/sam/expr") {
		top := fn
		for top.Parent() != nil {
			top = top.Parent()
		}
		if top.Signature.Recv() == nil || namedOf(top.Signature.Recv().Type()) != "runtime/sam/expr.Comparator" {
			continue
		}
		isCounter := func(phi *ssa.Phi) bool {
			for _, e := range phi.Edges {
				if bo, ok := e.(*ssa.BinOp); ok && bo.Op == token.ADD && (bo.X == ssa.Value(phi) || bo.Y == ssa.Value(phi)) {
					return true
				}
			}
			return false
		}
		isCarried := func(v ssa.Value) bool {
			phi, ok := v.(*ssa.Phi)
			if !ok || isCounter(phi) {
				return false
			}
			b := phi.Block()
			for i := range phi.Edges {
				if pred := b.Preds[i]; b.Dominates(pred) {
					return true
				}
			}
			return false
		}
		for _, ci := range allCalls(fn) {
			cc := ci.Common()
			if !cc.IsInvoke() || cc.Method.Name() != "Eval" || len(cc.Args) != 2 {
				continue
			}
			call, ok := ci.(*ssa.Call)
			if !ok || !inCycle(fn, call) {
				continue
			}
			n++
			construct := constructName(fn) + " key evaluation #" + sprint(n)
			if dependsOn(cc.Args[1], isCarried) {
				c.Fail(rule, construct, ci.Pos(), "the operand of this key's evaluator is carried over from the previous key (swapped there for a descending key): every key after a descending one is compared in the wrong direction, so Compare disagrees with the bulk sorter and a spilled multi-key sort merges its runs out of order")
			} else {
				c.OK(rule, construct, ci.Pos(), "evaluated on the comparator's own operands")
			}
		}
	}
	if n < 3 {
		c.Undecided(rule, "runtime/sam/expr.Comparator", "fewer than 3 key evaluations inside loops found ("+sprint(n)+")")
	}
}

// ---- C15-E2: a child delete that the parent cannot honour is a conflict, never a no-op.
func runDiffDeleteConflict(c *Ctx, rule string) {
	p := c.P
	c.Rule(rule, "in commits.Diff a delete of the child is either applied to the parent (DeleteObject) or refused: the branch on which the object does not exist in the parent reaches only error returns — it never continues with the next delete or returns a patch")
	fn := p.Func("lake/commits.Diff")
	if fn == nil {
		c.Undecided(rule, "lake/commits.Diff", "anchor does not resolve")
		return
	}
	n := 0
	for _, ci := range allCalls(fn) {
		call, ok := ci.(*ssa.Call)
		if !ok || calleeName(ci.Common()) != "lake/commits.Exists" || !inCycle(fn, call) {
			continue
		}
		// the delete loop: the looked-up id comes from child.deletedObjects
		if !dependsOn(call.Call.Args[1], func(v ssa.Value) bool { return isFieldLoad(v, "deletedObjects") }) {
			continue
		}
		var iff *ssa.If
		for _, r := range *call.Referrers() {
			if x, ok := r.(*ssa.If); ok {
				iff = x
			}
		}
		if iff == nil {
			continue
		}
		n++
		start := iff.Block().Succs[1]
		seen := map[*ssa.BasicBlock]bool{}
		var bad token.Pos
		found := false
		var walk func(b *ssa.BasicBlock)
		walk = func(b *ssa.BasicBlock) {
			if seen[b] || found {
				return
			}
			seen[b] = true
			if b == call.Block() {
				found, bad = true, call.Pos()
				return
			}
			if ret, ok := b.Instrs[len(b.Instrs)-1].(*ssa.Return); ok {
				if len(ret.Results) > 0 && isNilConst(returnOperand(ret, len(ret.Results)-1)) {
					found, bad = true, ret.Pos()
				}
				return
			}
			for _, s := range b.Succs {
				walk(s)
			}
		}
		walk(start)
		construct := "lake/commits.Diff child delete absent from the parent"
		if found {
			c.Fail(rule, construct, bad, "when the parent no longer has the object the child deleted, Diff goes on (next delete / returns the patch) instead of reporting a delete conflict: the merge succeeds although both sides removed the same object in different ways, so records deleted on one side come back and shared records are duplicated")
		} else {
			c.OK(rule, construct, iff.Pos(), "only error returns are reachable")
		}
	}
	if n != 1 {
		c.Undecided(rule, "lake/commits.Diff", "expected one existence test in the delete loop, found "+sprint(n))
	}
}

// ---- C15-K2: a merge adds only what the child added.
//
// The child patch is a view: the common ancestor's objects minus the child's deletes plus the
// child's additions.  Diff must offer to the parent only the additions.  If it walks the whole
// view, every object of the common ancestor that the parent has deleted since (and the child
// never touched) is missing from the parent and is therefore added back by the merge.
func runDiffAddsOnlyChildAdditions(c *Ctx, rule string) {
	p := c.P
	c.Rule(rule, "merge = parent + child's additions − child's deletes: every object Diff adds to the parent patch comes from the child's own additions (child.diff), never from the child's whole view (Patch.SelectAll / Select, which includes the common ancestor's objects)")
	fn := p.Func("lake/commits.Diff")
	if fn == nil {
		c.Undecided(rule, "lake/commits.Diff", "anchor does not resolve")
		return
	}
	n := 0
	for _, ci := range allCalls(fn) {
		if calleeName(ci.Common()) != "(*lake/commits.Patch).AddDataObject" {
			continue
		}
		n++
		arg := ci.Common().Args[1]
		fromView := dependsOn(arg, func(v ssa.Value) bool {
			call, ok := v.(*ssa.Call)
			if !ok {
				return false
			}
			nm := calleeName(&call.Call)
			return nm == "(*lake/commits.Patch).SelectAll" || nm == "(*lake/commits.Patch).Select"
		})
		fromDiff := dependsOn(arg, func(v ssa.Value) bool { return isFieldLoad(v, "diff") })
		construct := "lake/commits.Diff adds an object to the parent patch"
		switch {
		case fromView:
			c.Fail(rule, construct, ci.Pos(), "the objects offered to the parent are taken from the child's whole view, which includes the common ancestor's objects: an object the parent deleted after the branch point (and the child never touched) does not exist in the parent any more and is added back by the merge — data deleted on the parent reappears")
		case fromDiff:
			c.OK(rule, construct, ci.Pos(), "taken from the child's own additions")
		default:
			c.Undecided(rule, construct, "the origin of the added object is neither the child's additions nor its view")
		}
	}
	if n == 0 {
		c.Undecided(rule, "lake/commits.Diff", "no AddDataObject call found")
	}
}

// ---- C02-D1: container decorators are elided only on the evidence of real union members.
//
// For a container whose element type is a union the formatter drops the container's decorator
// when every member type has been seen among the elements (the reader can then re-infer the
// union).  The evidence set may only hold member types returned by union.Untag: a null element
// carries no member and must not count.
func runElisionEvidence(c *Ctx, rule string) {
	p := c.P
	c.Rule(rule, "decorator elision counts only real union members: every key put into elemHelper.seen is a type returned by TypeUnion.Untag on every path (a null element or any constant type is never counted), and needsDecoration compares the evidence with the number of union members")
	fn := p.Func("(*zson.elemHelper).add")
	if fn == nil {
		c.Undecided(rule, "(*zson.elemHelper).add", "anchor does not resolve")
		return
	}
	n := 0
	for _, b := range fn.Blocks {
		for _, in := range b.Instrs {
			mu, ok := in.(*ssa.MapUpdate)
			if !ok || !isFieldLoad(mu.Map, "seen") {
				continue
			}
			n++
			bad := ""
			seen := map[ssa.Value]bool{}
			var leaves func(v ssa.Value)
			leaves = func(v ssa.Value) {
				if seen[v] {
					return
				}
				seen[v] = true
				switch x := v.(type) {
				case *ssa.Phi:
					for _, e := range x.Edges {
						leaves(e)
					}
				case *ssa.MakeInterface:
					leaves(x.X)
				case *ssa.ChangeInterface:
					leaves(x.X)
				case *ssa.Extract:
					if call, ok := x.Tuple.(*ssa.Call); ok && calleeName(&call.Call) == "(*super.TypeUnion).Untag" && x.Index == 0 {
						return
					}
					bad = "a value that is not a result of Untag"
				default:
					bad = "a value that is not a result of Untag (" + short(v.String()) + ")"
				}
			}
			leaves(mu.Key)
			construct := "(*zson.elemHelper).add records an observed member type #" + sprint(n)
			if bad != "" {
				c.Fail(rule, construct, mu.Pos(), "the evidence set receives "+bad+": a null (or otherwise untagged) element then counts as one observed union member, so a container holding a null and missing exactly one member type loses its decorator and reads back with a narrower element type")
			} else {
				c.OK(rule, construct, mu.Pos(), "only results of union.Untag are recorded")
			}
		}
	}
	if n == 0 {
		c.Undecided(rule, "(*zson.elemHelper).add", "no update of the evidence set found")
	}
	// needsDecoration compares len(seen) with len(union.Types)
	nd := p.Func("(*zson.elemHelper).needsDecoration")
	if nd == nil {
		c.Undecided(rule, "(*zson.elemHelper).needsDecoration", "anchor does not resolve")
		return
	}
	okCmp := false
	for _, b := range nd.Blocks {
		for _, in := range b.Instrs {
			bo, ok := in.(*ssa.BinOp)
			if !ok || (bo.Op != token.LSS && bo.Op != token.GEQ && bo.Op != token.EQL && bo.Op != token.NEQ && bo.Op != token.GTR && bo.Op != token.LEQ) {
				continue
			}
			l := dependsOn(bo.X, func(v ssa.Value) bool { return isFieldLoad(v, "seen") }) || dependsOn(bo.Y, func(v ssa.Value) bool { return isFieldLoad(v, "seen") })
			r := dependsOn(bo.X, func(v ssa.Value) bool { return isFieldLoad(v, "Types") }) || dependsOn(bo.Y, func(v ssa.Value) bool { return isFieldLoad(v, "Types") })
			if l && r {
				okCmp = true
			}
		}
	}
	if okCmp {
		c.OK(rule, "(*zson.elemHelper).needsDecoration", nd.Pos(), "compares the evidence with the number of union members")
	} else {
		c.Fail(rule, "(*zson.elemHelper).needsDecoration", nd.Pos(), "the decision to drop a container decorator no longer compares the observed member types with the union's member count")
	}
}

// ---- C11-B1: output cursors of the JSON string decoder stay inside the buffer.
//
// unquoteBytes writes through a cursor into a buffer sized from the input length.  Malformed
// UTF-8 expands (one bad byte becomes U+FFFD, three bytes), so the buffer can run out: every
// write through the cursor inside the loop must be preceded, in that iteration, by a test of the
// cursor against len(buffer) (the growth check).
func runDecoderCursorBound(c *Ctx, rule string) {
	p := c.P
	c.Rule(rule, "in the JSON string decoder every store through the output cursor inside the decode loop is dominated by a test that relates the cursor to len(buffer) (the regrow check): input that expands while decoding (malformed UTF-8 → U+FFFD) cannot run the cursor past the buffer")
	fn := p.Func("zio/jsonio.unquoteBytes")
	if fn == nil {
		c.Undecided(rule, "zio/jsonio.unquoteBytes", "anchor does not resolve")
		return
	}
	isLen := func(v ssa.Value) bool {
		call, ok := v.(*ssa.Call)
		if !ok {
			return false
		}
		b, ok := call.Call.Value.(*ssa.Builtin)
		return ok && b.Name() == "len" && short(call.Call.Args[0].Type().String()) == "[]byte"
	}
	n := 0
	for _, b := range fn.Blocks {
		for _, in := range b.Instrs {
			var idx ssa.Value
			var pos token.Pos
			switch x := in.(type) {
			case *ssa.Store:
				ia, ok := x.Addr.(*ssa.IndexAddr)
				if !ok || short(ia.X.Type().String()) != "[]byte" {
					continue
				}
				idx, pos = ia.Index, x.Pos()
			case *ssa.Call:
				if calleeName(&x.Call) != "unicode/utf8.EncodeRune" {
					continue
				}
				sl, ok := x.Call.Args[0].(*ssa.Slice)
				if !ok || sl.Low == nil {
					continue
				}
				idx, pos = sl.Low, x.Pos()
			default:
				continue
			}
			if !inCycle(fn, in) {
				continue
			}
			if _, isConst := idx.(*ssa.Const); isConst {
				continue
			}
			n++
			guarded := false
			for _, gb := range fn.Blocks {
				if len(gb.Instrs) == 0 || !gb.Dominates(b) {
					continue
				}
				iff, ok := gb.Instrs[len(gb.Instrs)-1].(*ssa.If)
				if !ok {
					continue
				}
				cmp, ok := iff.Cond.(*ssa.BinOp)
				if !ok {
					continue
				}
				hasLen := dependsOn(cmp.X, isLen) || dependsOn(cmp.Y, isLen)
				// the other side is the cursor (same phi as the index, modulo increments)
				base := func(v ssa.Value) ssa.Value {
					for {
						bo, ok := v.(*ssa.BinOp)
						if !ok || bo.Op != token.ADD {
							return v
						}
						v = bo.X
					}
				}
				cur := base(idx)
				hasCur := dependsOn(cmp.X, func(v ssa.Value) bool { return v == cur }) || dependsOn(cmp.Y, func(v ssa.Value) bool { return v == cur })
				if hasLen && hasCur && inCycle(fn, iff) {
					guarded = true
				}
			}
			construct := "zio/jsonio.unquoteBytes write through the output cursor #" + sprint(n)
			if guarded {
				c.OK(rule, construct, pos, "preceded by the cursor-vs-len(buffer) check in the same iteration")
			} else {
				c.Fail(rule, construct, pos, "no test of the cursor against len(buffer) precedes this write inside the loop: a string with several malformed UTF-8 bytes (each becomes a 3-byte U+FFFD) overruns the once-allocated buffer and the index-out-of-range panic escapes Reader.Read — a log line with binary garbage kills the process")
			}
		}
	}
	if n < 3 {
		c.Undecided(rule, "zio/jsonio.unquoteBytes", "fewer than 3 cursor writes in the loop found ("+sprint(n)+")")
	}
}

// ---- C04-T1: the case-insensitive finder folds every text byte it looks at.
//
// CaseFinder's pattern and both skip tables are built from the lower-cased pattern.  The search
// is only an over-approximation-free pre-filter if every byte of the text is folded the same way
// before it is compared with the pattern or used as an index into a skip table.
func runCaseFinderFolds(c *Ctx, rule string) {
	p := c.P
	c.Rule(rule, "in stringsearch.CaseFinder.Next a byte read from the text is only ever handed to tolower: comparisons with the (lower-cased) pattern and indexes into the skip tables built from it never see a raw text byte")
	fn := p.Func("(*pkg/stringsearch.CaseFinder).Next")
	if fn == nil {
		c.Undecided(rule, "(*pkg/stringsearch.CaseFinder).Next", "anchor does not resolve")
		return
	}
	var text *ssa.Parameter
	for _, prm := range fn.Params {
		if prm.Name() == "text" {
			text = prm
		}
	}
	if text == nil {
		c.Undecided(rule, "(*pkg/stringsearch.CaseFinder).Next", "parameter text not found")
		return
	}
	n := 0
	for _, b := range fn.Blocks {
		for _, in := range b.Instrs {
			lk, ok := in.(*ssa.Index)
			if !ok || lk.X != ssa.Value(text) {
				continue
			}
			n++
			construct := "(*pkg/stringsearch.CaseFinder).Next text byte #" + sprint(n)
			bad := false
			for _, r := range *lk.Referrers() {
				if _, ok := r.(*ssa.DebugRef); ok {
					continue
				}
				if call, ok := r.(*ssa.Call); ok && calleeName(&call.Call) == "pkg/stringsearch.tolower" {
					continue
				}
				bad = true
			}
			if bad {
				c.Fail(rule, construct, lk.Pos(), "a raw (unfolded) text byte is compared with the lower-cased pattern or indexes a skip table built from it: an upper-case letter gets the maximal skip and the search jumps over an occurrence that differs only in case, so the ZNG buffer filter drops a frame the exact (case-insensitive) filter would have matched")
			} else {
				c.OK(rule, construct, lk.Pos(), "only handed to tolower")
			}
		}
	}
	if n < 2 {
		c.Undecided(rule, "(*pkg/stringsearch.CaseFinder).Next", "fewer than 2 reads of the text found")
	}
	// the pattern itself is lower-cased at construction
	nf := p.Func("pkg/stringsearch.NewCaseFinder")
	okLower := false
	if nf != nil {
		for _, ci := range allCalls(nf) {
			if calleeName(ci.Common()) == "strings.ToLower" {
				okLower = true
			}
		}
	}
	if okLower {
		c.OK(rule, "pkg/stringsearch.NewCaseFinder", nf.Pos(), "pattern lower-cased before the tables are built")
	} else {
		c.Fail(rule, "pkg/stringsearch.NewCaseFinder", token.NoPos, "the pattern is not lower-cased before the skip tables are built")
	}
}

// ---- C01-T1: the type ID in front of a value comes from the stream's type encoder.
func runValueIDFromEncoder(c *Ctx, rule string) {
	p := c.P
	c.Rule(rule, "in zngio.Writer.Write the type ID written in front of a value is, on every path, TypeID of what the stream's type encoder returned (Lookup/Encode): no path computes the ID from the value's type directly (Type.ID() of a named type is its underlying type's ID, so the name would be dropped without a typedef ever being written)")
	fn := p.Func("(*zio/zngio.Writer).Write")
	if fn == nil {
		c.Undecided(rule, "(*zio/zngio.Writer).Write", "anchor does not resolve")
		return
	}
	n := 0
	for _, ci := range allCalls(fn) {
		if calleeName(ci.Common()) != "encoding/binary.AppendUvarint" {
			continue
		}
		n++
		bad := ""
		seen := map[ssa.Value]bool{}
		var encLeaves func(v ssa.Value)
		encLeaves = func(v ssa.Value) {
			if seen[v] || bad != "" {
				return
			}
			seen[v] = true
			switch x := v.(type) {
			case *ssa.Phi:
				for _, e := range x.Edges {
					encLeaves(e)
				}
			case *ssa.Extract:
				encLeaves(x.Tuple)
			case *ssa.ChangeInterface:
				encLeaves(x.X)
			case *ssa.MakeInterface:
				encLeaves(x.X)
			case *ssa.Call:
				nm := calleeName(&x.Call)
				if nm != "(*zio/zngio.Encoder).Lookup" && nm != "(*zio/zngio.Encoder).Encode" {
					bad = "a type that did not come from the encoder (" + nm + ")"
				}
			default:
				bad = "a type that did not come from the encoder (" + short(v.String()) + ")"
			}
		}
		var idLeaves func(v ssa.Value)
		idLeaves = func(v ssa.Value) {
			if seen[v] || bad != "" {
				return
			}
			seen[v] = true
			switch x := v.(type) {
			case *ssa.Phi:
				for _, e := range x.Edges {
					idLeaves(e)
				}
			case *ssa.Convert:
				idLeaves(x.X)
			case *ssa.Call:
				if calleeName(&x.Call) == "super.TypeID" {
					encLeaves(x.Call.Args[0])
				} else {
					nm := calleeName(&x.Call)
					if x.Call.IsInvoke() {
						nm = "interface method " + x.Call.Method.Name()
					}
					bad = "an ID not computed by TypeID of the encoder's type (" + nm + ")"
				}
			default:
				bad = "an ID not computed by TypeID of the encoder's type (" + short(v.String()) + ")"
			}
		}
		idLeaves(ci.Common().Args[1])
		construct := "(*zio/zngio.Writer).Write value type ID #" + sprint(n)
		if bad != "" {
			c.Fail(rule, construct, ci.Pos(), "on some path the ID written in front of the value is "+bad+": the reader then resolves the ID in its own table and returns the value with another type (a top-level value of a named primitive type loses its name)")
		} else {
			c.OK(rule, construct, ci.Pos(), "TypeID of the encoder's Lookup/Encode result on every path")
		}
	}
	if n != 1 {
		c.Undecided(rule, "(*zio/zngio.Writer).Write", "expected one AppendUvarint of the value's type ID, found "+sprint(n))
	}
}

// ---- C14-S3: nobody tells the lake writer that its input is already sorted.
func runInputSortedWriters(c *Ctx, rule string) {
	p := c.P
	c.Rule(rule, "lake.Writer sorts what it is given: the inputSorted switch, which makes the writer skip its sort, is set nowhere (load, compaction and delete-where all hand it streams whose order nothing guarantees across objects)")
	n := 0
	for _, fn := range p.FuncsIn("lake") {
		for _, b := range fn.Blocks {
			for _, in := range b.Instrs {
				st, ok := in.(*ssa.Store)
				if !ok {
					continue
				}
				fa, ok := st.Addr.(*ssa.FieldAddr)
				if !ok || namedOf(fa.X.Type()) != "lake.Writer" || fieldName(fa.X.Type(), fa.Field) != "inputSorted" {
					continue
				}
				if k, ok := st.Val.(*ssa.Const); ok && k.Value != nil && k.Value.String() == "false" {
					continue
				}
				n++
				c.Fail(rule, fnName(fn)+" sets lake.Writer.inputSorted", st.Pos(), "the writer is told to skip its sort, but the stream it receives is only sorted per source object: survivors of overlapping objects arrive interleaved out of order, so the rewritten object is stored unsorted with min/max taken from its first and last value and scans of the pool are no longer in key order")
			}
		}
	}
	// the switch must exist for the rule to mean anything
	wt := p.Type("lake", "Writer")
	has := false
	if wt != nil {
		if st, ok := wt.Underlying().(*types.Struct); ok {
			for i := 0; i < st.NumFields(); i++ {
				if st.Field(i).Name() == "inputSorted" {
					has = true
				}
			}
		}
	}
	if n == 0 {
		if has {
			c.OK(rule, "lake.Writer.inputSorted", token.NoPos, "never set")
		} else {
			c.OK(rule, "lake.Writer.inputSorted", token.NoPos, "the switch no longer exists")
		}
	}
}

// ---- C20-M2: fusing an array with a set gives an array.
func runMergeSetOnlyFromSets(c *Ctx, rule string) {
	p := c.P
	c.Rule(rule, "the fused type of two container types is a set only if both are sets: every LookupTypeSet in agg.merge is dominated by successful assertions of both operands to *TypeSet (shaping an array into a set sorts and de-duplicates it, which loses values)")
	fn := p.Func("runtime/sam/expr/agg.merge")
	if fn == nil {
		c.Undecided(rule, "runtime/sam/expr/agg.merge", "anchor does not resolve")
		return
	}
	n := 0
	for _, ci := range allCalls(fn) {
		if calleeName(ci.Common()) != "(*super.Context).LookupTypeSet" {
			continue
		}
		n++
		roots := map[ssa.Value]bool{}
		for _, b := range fn.Blocks {
			for _, in := range b.Instrs {
				ta, ok := in.(*ssa.TypeAssert)
				if !ok || !ta.CommaOk || short(ta.AssertedType.String()) != "*super.TypeSet" {
					continue
				}
				for _, r := range *ta.Referrers() {
					if ex, ok := r.(*ssa.Extract); ok && ex.Index == 1 && trueEdgeDominates(ex, ci.Block()) {
						roots[ta.X] = true
					}
				}
			}
		}
		construct := "runtime/sam/expr/agg.merge builds a set type #" + sprint(n)
		if len(roots) >= 2 {
			c.OK(rule, construct, ci.Pos(), "both operands asserted to be sets")
		} else {
			c.Fail(rule, construct, ci.Pos(), "a set type is produced although only "+sprint(len(roots))+" of the two operands is known to be a set: fusing a set seen first with an array seen later casts the array's values into a set, which silently drops repeated elements")
		}
	}
	if n == 0 {
		c.Undecided(rule, "runtime/sam/expr/agg.merge", "no LookupTypeSet call found")
	}
}

// ---- C03-N1: whole words of a null bitmap are copied only between aligned cursors.
//
// vector.Bool keeps 64 slots per word.  Code that copies a word of one bitmap straight into a word
// of another (dst.Bits[x>>6] = src.Bits[y>>6]) is only equivalent to the slot-by-slot loop if both
// cursors are multiples of 64 at that point.  (A copy that shifts and combines two words is not
// a direct copy and is not judged by this rule.)
func runBitmapWordCopies(c *Ctx, rule string) {
	p := c.P
	c.Rule(rule, "a word of one null bitmap is copied unchanged into another only where both slot cursors were tested to be multiples of 64 (x&63 == 0 dominates the copy, for the source cursor and for the destination cursor)")
	n := 0
	wordIdx := func(v ssa.Value) (ssa.Value, bool) {
		ia, ok := v.(*ssa.IndexAddr)
		if !ok {
			return nil, false
		}
		ld, ok := ia.X.(*ssa.UnOp)
		if !ok {
			return nil, false
		}
		fa, ok := ld.X.(*ssa.FieldAddr)
		if !ok || namedOf(fa.X.Type()) != "vector.Bool" || fieldName(fa.X.Type(), fa.Field) != "Bits" {
			return nil, false
		}
		idx := stripConv(ia.Index)
		if bo, ok := idx.(*ssa.BinOp); ok && bo.Op == token.SHR {
			if k, ok := bo.Y.(*ssa.Const); ok && k.Value != nil && k.Uint64() == 6 {
				return stripConv(bo.X), true
			}
		}
		return idx, false
	}
	aligned := func(fn *ssa.Function, cur ssa.Value, at *ssa.BasicBlock) bool {
		for _, b := range fn.Blocks {
			for _, in := range b.Instrs {
				cmp, ok := in.(*ssa.BinOp)
				if !ok || cmp.Op != token.EQL {
					continue
				}
				var and *ssa.BinOp
				if k, ok := cmp.Y.(*ssa.Const); ok && k.Value != nil && k.Uint64() == 0 {
					and, _ = stripConv(cmp.X).(*ssa.BinOp)
				}
				if and == nil || and.Op != token.AND {
					continue
				}
				k, ok := and.Y.(*ssa.Const)
				if !ok || k.Value == nil || k.Uint64() != 63 || stripConv(and.X) != cur {
					continue
				}
				if trueEdgeDominates(cmp, at) {
					return true
				}
				// the test may be the first operand of a && chain: its true edge leads (through
				// further tests) to the copy; accept if the block of the copy is dominated by the
				// test's block and not reachable through its false edge
				if b.Dominates(at) {
					if iff, ok := b.Instrs[len(b.Instrs)-1].(*ssa.If); ok && iff.Cond == ssa.Value(cmp) {
						if !reachesBlock(b.Succs[1], at, b) {
							return true
						}
					}
				}
			}
		}
		return false
	}
	for _, fn := range p.FuncsIn("runtime/vcache", "vector", "runtime/vam/expr", "runtime/vam/op") {
		for _, b := range fn.Blocks {
			for _, in := range b.Instrs {
				st, ok := in.(*ssa.Store)
				if !ok {
					continue
				}
				dcur, dshift := wordIdx(st.Addr)
				if dcur == nil {
					continue
				}
				ld, ok := st.Val.(*ssa.UnOp)
				if !ok {
					continue
				}
				scur, sshift := wordIdx(ld.X)
				if scur == nil {
					continue
				}
				if !dshift && !sshift && dcur == scur {
					continue // same word index variable on both sides (word-by-word loop over equal-length vectors)
				}
				n++
				construct := constructName(fn) + " copies a bitmap word #" + sprint(n)
				okD := !dshift || aligned(fn, dcur, b)
				okS := !sshift || aligned(fn, scur, b)
				if dshift != sshift {
					okD, okS = false, false
				}
				if okD && okS {
					c.OK(rule, construct, st.Pos(), "both cursors tested to be multiples of 64")
				} else {
					c.Fail(rule, construct, st.Pos(), "a whole word of the source bitmap is stored into the destination although the source (or destination) slot cursor is not known to be a multiple of 64 here: once the cursors drift apart (e.g. after a null parent record) the copied word belongs to other slots, nulls land on the wrong rows and values are decoded into the wrong slots")
				}
			}
		}
	}
	c.extra("c03_bitmap_word_copies", n)
}

// ---- C13-M3: Snapshot.Copy shares no map with the snapshot it copies, and copies every map.
func runSnapshotCopyDeep(c *Ctx, rule string) {
	p := c.P
	c.Rule(rule, "Snapshot.Copy is deep at the level the mutators write: no slice field is shared with the receiver, every map field of commits.Snapshot is populated element by element (or cloned) in a fresh snapshot, and no map of the receiver is stored into the copy — the copies handed to patches and listers never alias the cached snapshot")
	fn := p.Func("(*lake/commits.Snapshot).Copy")
	st, _ := func() (*types.Struct, bool) {
		t := p.Type("lake/commits", "Snapshot")
		if t == nil {
			return nil, false
		}
		s, ok := t.Underlying().(*types.Struct)
		return s, ok
	}()
	if fn == nil || st == nil {
		c.Undecided(rule, "(*lake/commits.Snapshot).Copy", "anchor does not resolve")
		return
	}
	recv := fn.Params[0]
	fromRecv := func(v ssa.Value) bool {
		u, ok := v.(*ssa.UnOp)
		if !ok {
			return false
		}
		fa, ok := u.X.(*ssa.FieldAddr)
		return ok && fa.X == ssa.Value(recv)
	}
	populated := map[string]bool{}
	aliased := ""
	for _, b := range fn.Blocks {
		for _, in := range b.Instrs {
			switch x := in.(type) {
			case *ssa.MapUpdate:
				if u, ok := x.Map.(*ssa.UnOp); ok {
					if fa, ok := u.X.(*ssa.FieldAddr); ok && fa.X != ssa.Value(recv) && namedOf(fa.X.Type()) == "lake/commits.Snapshot" {
						populated[fieldName(fa.X.Type(), fa.Field)] = true
					}
				}
			case *ssa.Store:
				if fa, ok := x.Addr.(*ssa.FieldAddr); ok && namedOf(fa.X.Type()) == "lake/commits.Snapshot" {
					if fromRecv(x.Val) {
						aliased = fieldName(fa.X.Type(), fa.Field)
					} else if call, ok := x.Val.(*ssa.Call); ok && strings.HasSuffix(calleeName(&call.Call), "maps.Clone") {
						populated[fieldName(fa.X.Type(), fa.Field)] = true
					}
				}
				// *out = *s
				if u, ok := x.Val.(*ssa.UnOp); ok && u.X == ssa.Value(recv) {
					aliased = "(whole struct)"
				}
			case *ssa.Return:
				if len(x.Results) == 1 && x.Results[0] == ssa.Value(recv) {
					aliased = "(the receiver itself)"
				}
			}
		}
	}
	for i := 0; i < st.NumFields(); i++ {
		f := st.Field(i)
		if _, ok := f.Type().Underlying().(*types.Slice); ok {
			// a slice shared with the receiver shares its backing array: two copies of one cached
			// snapshot then append into the same spare capacity and overwrite each other's entries
			construct := "(*lake/commits.Snapshot).Copy field " + f.Name()
			if aliased == f.Name() || strings.HasPrefix(aliased, "(") {
				c.Fail(rule, construct, fn.Pos(), "the copy shares this slice (and its backing array) with the receiver ("+aliased+"): two snapshots copied from the same cached commit append into the same spare capacity, so the second sibling's append overwrites the first one's entry and a query at the first commit scans the other branch's object")
			} else {
				c.OK(rule, construct, fn.Pos(), "not shared with the receiver")
			}
			continue
		}
		if _, ok := f.Type().Underlying().(*types.Map); !ok {
			continue
		}
		construct := "(*lake/commits.Snapshot).Copy field " + f.Name()
		switch {
		case aliased == f.Name() || strings.HasPrefix(aliased, "("):
			c.Fail(rule, construct, fn.Pos(), "the copy shares this map with the receiver ("+aliased+"): a patch, delete or compaction that works on the copy then changes the cached snapshot of an existing commit, so readers of that commit see objects come and go")
		case !populated[f.Name()]:
			c.Fail(rule, construct, fn.Pos(), "this map is not copied: the copy starts without the commit's "+f.Name()+", so whatever is computed from it (merge base, delete, compaction) silently drops them")
		default:
			c.OK(rule, construct, fn.Pos(), "copied element by element into a fresh map")
		}
	}
}

// ---- C10-S4: what group-by spills is what it later merges.
func runSpillPartialsPairing(c *Ctx, rule string) {
	p := c.P
	c.Rule(rule, "group-by spills partial results and merges them as partials: spillTable reads the whole table in partial form (readTable(flush=true, partialsOut=true)) and nextResultFromSpills recombines rows with consumeAsPartial only — spilling final results and re-aggregating them as inputs (or the reverse) changes counts, averages and distinct sets once the memory limit is hit")
	st := p.Func("(*runtime/sam/op/groupby.Aggregator).spillTable")
	nr := p.Func("(*runtime/sam/op/groupby.Aggregator).nextResultFromSpills")
	if st == nil || nr == nil {
		c.Undecided(rule, "groupby.Aggregator.spillTable / nextResultFromSpills", "anchors do not resolve")
		return
	}
	found := false
	for _, ci := range allCalls(st) {
		if calleeName(ci.Common()) != "(*runtime/sam/op/groupby.Aggregator).readTable" {
			continue
		}
		found = true
		args := ci.Common().Args
		isTrue := func(v ssa.Value) bool {
			k, ok := v.(*ssa.Const)
			return ok && k.Value != nil && k.Value.String() == "true"
		}
		if len(args) >= 3 && isTrue(args[1]) && isTrue(args[2]) {
			c.OK(rule, "spillTable -> readTable", ci.Pos(), "flush=true, partialsOut=true")
		} else {
			c.Fail(rule, "spillTable -> readTable", ci.Pos(), "the table is not spilled whole and in partial form: the rows written to the spill file are later recombined with consumeAsPartial, which expects partials (count as a count, avg as sum+count, …)")
		}
	}
	if !found {
		c.Undecided(rule, "spillTable -> readTable", "call not found")
	}
	partial, plain := false, false
	var pos token.Pos
	for _, ci := range allCalls(nr) {
		switch calleeName(ci.Common()) {
		case "(runtime/sam/op/groupby.valRow).consumeAsPartial":
			partial = true
			pos = ci.Pos()
		case "(runtime/sam/op/groupby.valRow).apply":
			plain = true
			pos = ci.Pos()
		}
	}
	switch {
	case plain:
		c.Fail(rule, "nextResultFromSpills recombination", pos, "spilled rows are fed to the aggregates as plain inputs (apply) instead of as partials: a spilled count of 5 counts as one more value")
	case !partial:
		c.Undecided(rule, "nextResultFromSpills recombination", "no consumeAsPartial call found")
	default:
		c.OK(rule, "nextResultFromSpills recombination", pos, "consumeAsPartial")
	}
}

// ---- C11-O5: Pull(done) always stops the read-ahead before it returns.
//
// zngio.Reader.Close is scanner.Pull(true).  Its contract ("no read on the underlying reader
// after Close returns") is what lets format auto-detection rewind the input and try the next
// format.  Every return taken with done == true must have cancelled the scan and drained the
// channel of result channels (which the parser goroutine closes when it exits).
func runPullDoneStopsReader(c *Ctx, rule string) {
	p := c.P
	c.Rule(rule, "scanner.Pull(true) cancels and waits: every path to a return that is not known to have done == false passes through s.cancel() and through a receive on s.resultChCh (the wait for the parser goroutine), whatever the scanner's eof/err state")
	fn := p.Func("(*zio/zngio.scanner).Pull")
	if fn == nil {
		c.Undecided(rule, "(*zio/zngio.scanner).Pull", "anchor does not resolve")
		return
	}
	done := fn.Params[1]
	// edges on which done is known false are not of interest
	edgeOK := func(a, b *ssa.BasicBlock) bool {
		iff, ok := a.Instrs[len(a.Instrs)-1].(*ssa.If)
		if !ok || iff.Cond != ssa.Value(done) {
			return true
		}
		return a.Succs[0] == b // only the true edge
	}
	isRet := func(in ssa.Instruction) bool { _, ok := in.(*ssa.Return); return ok }
	isCancel := func(in ssa.Instruction) bool {
		ci, ok := in.(ssa.CallInstruction)
		if !ok {
			return false
		}
		v := ci.Common().Value
		return isFieldLoad(v, "cancel")
	}
	isDrain := func(in ssa.Instruction) bool {
		switch x := in.(type) {
		case *ssa.UnOp:
			return x.Op == token.ARROW && isFieldLoad(x.X, "resultChCh")
		case *ssa.Next:
			return false
		case *ssa.Select:
			return false
		}
		return false
	}
	// a path on which done may be true must contain the If(done): require that the test exists
	hasTest := false
	for _, b := range fn.Blocks {
		if iff, ok := b.Instrs[len(b.Instrs)-1].(*ssa.If); ok && iff.Cond == ssa.Value(done) {
			hasTest = true
		}
	}
	if !hasTest {
		c.Undecided(rule, "(*zio/zngio.scanner).Pull", "no test of the done parameter found")
		return
	}
	// returns reachable without knowing done == false and without the action
	type need struct {
		name string
		is   func(ssa.Instruction) bool
	}
	for _, nd := range []need{{"s.cancel()", isCancel}, {"the drain of s.resultChCh", isDrain}} {
		// only returns that lie on a path through the true edge of If(done), or before any test of done
		var bad ssa.Instruction
		// (1) before the test: a return reachable from entry without passing any If(done)
		noTest := func(a, b *ssa.BasicBlock) bool {
			iff, ok := a.Instrs[len(a.Instrs)-1].(*ssa.If)
			return !ok || iff.Cond != ssa.Value(done)
		}
		bad = reachAvoidingEdges(fn, nil, nd.is, isRet, noTest)
		// (2) through the true edge
		if bad == nil {
			for _, b := range fn.Blocks {
				iff, ok := b.Instrs[len(b.Instrs)-1].(*ssa.If)
				if !ok || iff.Cond != ssa.Value(done) {
					continue
				}
				// was the action already performed before this test on every path?  (not in this code base)
				first := b.Succs[0].Instrs[0]
				if nd.is(first) {
					continue
				}
				if isRet(first) {
					bad = first
				} else if r := reachAvoidingEdges(fn, first, nd.is, isRet, edgeOK); r != nil {
					bad = r
				}
			}
		}
		construct := "(*zio/zngio.scanner).Pull(done) -> " + nd.name
		if bad != nil {
			c.Fail(rule, construct, bad.Pos(), "a return can be taken with done == true without "+nd.name+": after an error ended the scan the read-ahead goroutine is still reading the input, so Reader.Close returns while reads continue — format auto-detection then rewinds and re-reads the same input concurrently (rows silently lost, or a panic in a goroutine nobody recovers)")
		} else {
			c.OK(rule, construct, fn.Pos(), "on every path with done possibly true")
		}
	}
}

// ---- C10-S5 / C08-P4: the output form of an aggregation is chosen by partialsOut.
func runPartialOutputForm(c *Ctx, rule string) {
	p := c.P
	c.Rule(rule, "whether a group-by row is emitted in partial or in final form is decided by the aggregator's partialsOut flag (or a constant, for spilling) at every place that builds result rows — in memory and from spill files alike; partialsIn only selects how inputs are consumed")
	n := 0
	var classify func(v ssa.Value, fn *ssa.Function, depth int) string
	classify = func(v ssa.Value, fn *ssa.Function, depth int) string {
		v = stripConv(v)
		switch x := v.(type) {
		case *ssa.Const:
			return "const"
		case *ssa.UnOp:
			if x.Op == token.NOT {
				return classify(x.X, fn, depth)
			}
			if fa, ok := x.X.(*ssa.FieldAddr); ok {
				return "field:" + fieldName(fa.X.Type(), fa.Field)
			}
		case *ssa.Parameter:
			if depth > 2 {
				return "?"
			}
			idx := -1
			for i, prm := range fn.Params {
				if prm == x {
					idx = i
				}
			}
			res := ""
			for _, s := range callSitesWhere(p, func(cc *ssa.CallCommon, _ string) bool { return cc.StaticCallee() == fn }) {
				args := s.ci.Common().Args
				if idx < 0 || idx >= len(args) {
					return "?"
				}
				r := classify(args[idx], s.fn, depth+1)
				if r == "const" {
					continue
				}
				if res == "" {
					res = r
				} else if res != r {
					return "mixed:" + res + "," + r
				}
			}
			if res == "" {
				return "const"
			}
			return res
		}
		return "?"
	}
	for _, fn := range p.FuncsIn("runtime/sam/op/groupby") {
		for _, ci := range allCalls(fn) {
			cc := ci.Common()
			if !cc.IsInvoke() || cc.Method.Name() != "ResultAsPartial" {
				continue
			}
			n++
			blk := ci.(ssa.Instruction).Block()
			how := ""
			for _, gb := range fn.Blocks {
				iff, ok := gb.Instrs[len(gb.Instrs)-1].(*ssa.If)
				if !ok || !gb.Dominates(blk) || gb == blk {
					continue
				}
				if !(trueEdgeDominates(iff.Cond, blk) || falseEdgeDominates(iff.Cond, blk)) {
					continue
				}
				if r := classify(iff.Cond, fn, 0); r != "?" {
					how = r
				}
			}
			construct := constructName(fn) + " chooses the partial form #" + sprint(n)
			switch how {
			case "field:partialsOut", "const":
				c.OK(rule, construct, ci.Pos(), "controlled by "+how)
			case "":
				c.Undecided(rule, construct, "the condition selecting ResultAsPartial was not recognised")
			default:
				c.Fail(rule, construct, ci.Pos(), "the partial form is selected by "+how+" instead of partialsOut: in a parallel plan whose aggregation spills, the per-leg summarize (partialsOut) emits final values and the combining summarize (partialsIn) emits partials — avg comes out as {sum,count}, dcount as a sketch, or the combiner fails on a missing partial field")
			}
		}
	}
	if n < 1 {
		c.Undecided(rule, "runtime/sam/op/groupby", "no place choosing the partial form found")
	}
}

// ---- C05-P3: one name-binding table per serialized type value.
//
// A type value writes a named type in full the first time (name-def) and by name afterwards
// (name-ref); the reader binds names in the order it meets them.  Both only agree if the writer
// keeps ONE table for the whole value: every component type must be serialized by the recursive
// call that carries the same table, never through the public entry point, which starts a new one.
func runTypeValueOneTable(c *Ctx, rule string) {
	p := c.P
	c.Rule(rule, "a type value is serialized with a single name-binding table: inside appendTypeValue every component type goes through the recursive call with the function's own typedefs argument, and the public AppendTypeValue (fresh table) is not called from it")
	fn := p.Func("super.appendTypeValue")
	if fn == nil {
		c.Undecided(rule, "super.appendTypeValue", "anchor does not resolve")
		return
	}
	var tbl *ssa.Parameter
	for _, prm := range fn.Params {
		if prm.Name() == "typedefs" {
			tbl = prm
		}
	}
	if tbl == nil {
		c.Undecided(rule, "super.appendTypeValue", "parameter typedefs not found")
		return
	}
	n := 0
	fns := append([]*ssa.Function{fn}, fn.AnonFuncs...)
	for _, f := range fns {
		for _, ci := range allCalls(f) {
			switch calleeName(ci.Common()) {
			case "super.AppendTypeValue":
				n++
				c.Fail(rule, "super.appendTypeValue component #"+sprint(n), ci.Pos(), "a component type is serialized through the public entry point, which starts a fresh name table: a name rebound inside that component is not recorded in the enclosing table, so a later reference to the earlier binding is written as a bare name-ref that the reader resolves to the wrong type — the type value no longer denotes the type, and translation to another context (and the ZNG stream that carries it) silently changes types")
			case "super.appendTypeValue":
				n++
				args := ci.Common().Args
				ok := len(args) == 3 && (args[2] == ssa.Value(tbl))
				if !ok && len(args) == 3 {
					if u, isU := args[2].(*ssa.UnOp); isU {
						if fv, isFV := u.X.(*ssa.FreeVar); isFV && fv.Name() == "typedefs" {
							ok = true
						}
					}
					if fv, isFV := args[2].(*ssa.FreeVar); isFV && fv.Name() == "typedefs" {
						ok = true
					}
				}
				if ok {
					c.OK(rule, "super.appendTypeValue component #"+sprint(n), ci.Pos(), "recursive call with the same table")
				} else {
					c.Fail(rule, "super.appendTypeValue component #"+sprint(n), ci.Pos(), "the recursive call does not pass the function's own name table")
				}
			}
		}
	}
	if n < 6 {
		c.Undecided(rule, "super.appendTypeValue", "fewer than 6 component serializations found ("+sprint(n)+")")
	}
}

// ---- C10-R1: a group-by row is stamped with the running maximum of the sorted key.
//
// On sorted input a row is released as soon as its stamp is below the running maximum of the
// primary key.  Stamping a new row with the maximum seen so far (not with its own key) means a row
// can only be released after the maximum has advanced past everything seen when the row was
// created — whatever the comparator thinks of the row's own key (nulls are ordered differently by
// the input's sort and by the release comparator).
func runGroupRowStamp(c *Ctx, rule string) {
	p := c.P
	c.Rule(rule, "early release on sorted input is conservative: the stamp stored in a new group-by row (Row.groupval) is the running maximum of the primary key (the result of updateMaxTableKey / the maxTableKey field), not the row's own key")
	fn := p.Func("(*runtime/sam/op/groupby.Aggregator).Consume")
	if fn == nil {
		c.Undecided(rule, "(*runtime/sam/op/groupby.Aggregator).Consume", "anchor does not resolve")
		return
	}
	n := 0
	for _, b := range fn.Blocks {
		for _, in := range b.Instrs {
			st, ok := in.(*ssa.Store)
			if !ok {
				continue
			}
			fa, ok := st.Addr.(*ssa.FieldAddr)
			if !ok || namedOf(fa.X.Type()) != "runtime/sam/op/groupby.Row" || fieldName(fa.X.Type(), fa.Field) != "groupval" {
				continue
			}
			n++
			fromMax := dependsOn(st.Val, func(v ssa.Value) bool {
				if call, ok := v.(*ssa.Call); ok && calleeName(&call.Call) == "(*runtime/sam/op/groupby.Aggregator).updateMaxTableKey" {
					return true
				}
				return isFieldLoad(v, "maxTableKey")
			})
			construct := "(*runtime/sam/op/groupby.Aggregator).Consume stamps a new row"
			if fromMax {
				c.OK(rule, construct, st.Pos(), "with the running maximum")
			} else {
				c.Fail(rule, construct, st.Pos(), "a new row is stamped with something other than the running maximum of the primary key: a row whose own key compares below the maximum (null keys on descending input) is released at the end of the batch that created it while more records of the same key are still to come, so one key is emitted several times with split aggregates")
			}
		}
	}
	if n == 0 {
		c.Undecided(rule, "(*runtime/sam/op/groupby.Aggregator).Consume", "no store to Row.groupval found")
	}
}

// ---- C16-R1: surviving seek entries are merged into a byte range only when they touch.
//
// Ranges.Append extends the previous range by the new entry's length.  That is the right end only
// if the entry starts where the previous range ends.  Merging across a gap (to "coalesce small
// holes") is only sound if the new length is computed from the entry's offset.
func runSeekRangeMerge(c *Ctx, rule string) {
	p := c.P
	c.Rule(rule, "a surviving seek-index entry is merged into the previous byte range either only when it starts at (or before) the end of that range — the test involves no slack constant — or with a length computed from the entry's own offset; otherwise the merged range stops short of the entry and the scan reads pruned bytes instead of matching ones")
	fn := p.Func("(*lake/seekindex.Ranges).Append")
	if fn == nil {
		c.Undecided(rule, "(*lake/seekindex.Ranges).Append", "anchor does not resolve")
		return
	}
	n := 0
	for _, b := range fn.Blocks {
		for _, in := range b.Instrs {
			st, ok := in.(*ssa.Store)
			if !ok {
				continue
			}
			fa, ok := st.Addr.(*ssa.FieldAddr)
			if !ok || namedOf(fa.X.Type()) != "lake/seekindex.Range" || fieldName(fa.X.Type(), fa.Field) != "Length" {
				continue
			}
			n++
			usesOffset := dependsOn(st.Val, func(v ssa.Value) bool {
				f, ok := v.(*ssa.FieldAddr)
				if ok && namedOf(f.X.Type()) == "lake/seekindex.Entry" && fieldName(f.X.Type(), f.Field) == "Offset" {
					return true
				}
				fl, ok := v.(*ssa.Field)
				return ok && namedOf(fl.X.Type()) == "lake/seekindex.Entry" && fieldName(fl.X.Type(), fl.Field) == "Offset"
			})
			slack := false
			for _, gb := range fn.Blocks {
				iff, ok := gb.Instrs[len(gb.Instrs)-1].(*ssa.If)
				if !ok || !gb.Dominates(b) || gb == b {
					continue
				}
				if dependsOn(iff.Cond, func(v ssa.Value) bool {
					k, ok := v.(*ssa.Const)
					if !ok || k.Value == nil || k.Value.Kind() != constant.Int {
						return false
					}
					i, exact := constant.Int64Val(k.Value)
					return !exact || i > 1 || i < -1
				}) {
					slack = true
				}
			}
			construct := "(*lake/seekindex.Ranges).Append extends the previous range"
			switch {
			case usesOffset:
				c.OK(rule, construct, st.Pos(), "the new length is computed from the entry's offset")
			case slack:
				c.Fail(rule, construct, st.Pos(), "the previous range is extended by the entry's length although the test that leads here tolerates a gap (a slack constant takes part in it): the range then ends before the entry does, so the scan covers the pruned bytes after the previous range and misses the tail of the surviving entry — matching values are not returned, or the reader hits a torn frame")
			default:
				c.OK(rule, construct, st.Pos(), "only when the entry touches the previous range")
			}
		}
	}
	if n == 0 {
		c.Undecided(rule, "(*lake/seekindex.Ranges).Append", "no extension of a range found")
	}
}

// ---- C11-V1: VNG metadata is validated where it is read, before anything builds types from it.
//
// Metadata.Type and the vector cache build types from names and field lists taken from the file
// with lookups that panic on failure.  That is only safe if every Metadata tree handed to them was
// checked with the same lookups in error-returning form.  V1 decides: (a) readMetadata returns
// success only after checkMetadata returned nil; (b) checkMetadata has a case for every
// implementer of vng.Metadata and refuses anything else; (c) for every lookup that a Type method
// turns into a panic, the checker's case for that kind performs the fallible form and returns its
// error; (d) an Object's metadata comes from readMetadata only.
func runVNGMetadataValidated(c *Ctx, rule string) bool {
	p := c.P
	c.Rule(rule, "VNG metadata is validated at the single place it is read: readMetadata succeeds only after checkMetadata returned nil; checkMetadata covers every vng.Metadata implementer, refuses anything else, and performs — in error-returning form — every lookup that Metadata.Type raises as a panic; vng.Object.meta is written only from readMetadata")
	ok := true
	fail := func(construct string, pos token.Pos, msg string) {
		ok = false
		c.Fail(rule, construct, pos, msg)
	}
	rm := p.Func("vng.readMetadata")
	ck := p.Func("vng.checkMetadata")
	if rm == nil || ck == nil {
		c.Fail(rule, "vng.readMetadata / vng.checkMetadata", token.NoPos, "the metadata read from a VNG file is not validated before types are built from it (no checkMetadata)")
		return false
	}
	// (a)
	var call *ssa.Call
	for _, ci := range allCalls(rm) {
		if calleeName(ci.Common()) == "vng.checkMetadata" {
			call, _ = ci.(*ssa.Call)
		}
	}
	if call == nil {
		fail("vng.readMetadata validates", rm.Pos(), "readMetadata does not call checkMetadata")
	} else {
		good := true
		for _, b := range rm.Blocks {
			ret, isRet := b.Instrs[len(b.Instrs)-1].(*ssa.Return)
			if !isRet || len(ret.Results) != 2 || !isNilConst(returnOperand(ret, 1)) {
				continue
			}
			dom := false
			for _, r := range *call.Referrers() {
				if cmp, isCmp := r.(*ssa.BinOp); isCmp && isNilConst(cmp.Y) {
					if (cmp.Op == token.NEQ && falseEdgeDominates(cmp, b)) || (cmp.Op == token.EQL && trueEdgeDominates(cmp, b)) {
						dom = true
					}
				}
			}
			if !dom {
				good = false
			}
		}
		if good {
			c.OK(rule, "vng.readMetadata validates", call.Pos(), "success only after checkMetadata returned nil")
		} else {
			fail("vng.readMetadata validates", call.Pos(), "readMetadata can return metadata that checkMetadata did not accept")
		}
	}
	// (b) coverage
	mi := ifaceType(p, "vng", "Metadata")
	decl := p.Decl(ck)
	info := p.pkgOfFunc(ck).TypesInfo
	tss := typeSwitches(info, decl.Body)
	if mi == nil || len(tss) == 0 {
		fail("vng.checkMetadata coverage", ck.Pos(), "no type switch over vng.Metadata found")
	} else {
		ts := tss[0]
		var missing []string
		for _, impl := range implementersOf(p, mi, "vng") {
			if !ts.cases[impl] {
				missing = append(missing, impl)
			}
		}
		defErr := false
		if ts.hasDefault {
			for _, st := range ts.defBody {
				if r, isR := st.(*ast.ReturnStmt); isR && len(r.Results) == 1 {
					if id, isId := r.Results[0].(*ast.Ident); !isId || id.Name != "nil" {
						defErr = true
					}
				}
			}
		}
		switch {
		case len(missing) > 0:
			fail("vng.checkMetadata coverage", ck.Pos(), "no case for "+strings.Join(missing, ", ")+": metadata of that kind is accepted (or refused) without its components being checked")
		case !defErr:
			fail("vng.checkMetadata coverage", ck.Pos(), "the default arm does not refuse unknown or missing metadata")
		default:
			c.OK(rule, "vng.checkMetadata coverage", ck.Pos(), sprint(len(ts.cases))+" kinds, default refuses")
		}
	}
	// (c) every lookup that a Type method turns into a panic is performed fallibly by the checker
	pairs := map[string]string{"(*super.Context).LookupTypeNamed": "(*super.Context).LookupTypeNamed", "(*super.Context).MustLookupTypeRecord": "(*super.Context).LookupTypeRecord"}
	need := map[string]bool{}
	for _, fn := range p.FuncsIn("vng") {
		if fn.Name() != "Type" || fn.Signature.Recv() == nil {
			continue
		}
		for _, ci := range allCalls(fn) {
			if want, isP := pairs[calleeName(ci.Common())]; isP {
				need[want] = true
			}
		}
	}
	for want := range need {
		found := false
		for _, ci := range allCalls(ck) {
			if calleeName(ci.Common()) != want {
				continue
			}
			// its error is returned
			if v, isV := ci.(ssa.Value); isV {
				for _, r := range *v.Referrers() {
					if ex, isEx := r.(*ssa.Extract); isEx && ex.Index == 1 {
						for _, rr := range *ex.Referrers() {
							if _, isRet := rr.(*ssa.Return); isRet {
								found = true
							}
						}
					}
				}
			}
		}
		if found {
			c.OK(rule, "vng.checkMetadata performs "+want, ck.Pos(), "and returns its error")
		} else {
			fail("vng.checkMetadata performs "+want, ck.Pos(), "Metadata.Type raises a failure of this lookup as a panic, but the validation does not perform it: a file can pass validation and still crash the reader")
		}
	}
	// (d) single source
	for _, fn := range p.FuncsIn("vng") {
		for _, b := range fn.Blocks {
			for _, in := range b.Instrs {
				st, isSt := in.(*ssa.Store)
				if !isSt {
					continue
				}
				fa, isFa := st.Addr.(*ssa.FieldAddr)
				if !isFa || namedOf(fa.X.Type()) != "vng.Object" || fieldName(fa.X.Type(), fa.Field) != "meta" {
					continue
				}
				fromRM := dependsOn(st.Val, func(v ssa.Value) bool {
					cl, isC := v.(*ssa.Call)
					return isC && calleeName(&cl.Call) == "vng.readMetadata"
				})
				if fromRM {
					c.OK(rule, fnName(fn)+" sets Object.meta", st.Pos(), "from readMetadata")
				} else {
					fail(fnName(fn)+" sets Object.meta", st.Pos(), "an Object gets metadata that did not come from readMetadata (unvalidated)")
				}
			}
		}
	}
	return ok
}

// ---- C17-S1: a journal snapshot that failed to load is not used.
//
// The snapshot file is written with a plain Put, so a crash can leave it torn.  getSnapshot then
// returns an error together with whatever it had read.  Using that partial table and its position
// as the starting point of the replay loses every entry that was in the missing part.
func runSnapshotErrorNotUsed(c *Ctx, rule string) {
	p := c.P
	c.Rule(rule, "in journal.Store.load the position and table returned by getSnapshot are used only where its error was tested to be nil; on the error edge the replay starts from the beginning of the journal with an empty table")
	fn := p.Func("(*lake/journal.Store).load")
	if fn == nil {
		c.Undecided(rule, "(*lake/journal.Store).load", "anchor does not resolve")
		return
	}
	var call *ssa.Call
	for _, ci := range allCalls(fn) {
		if calleeName(ci.Common()) == "(*lake/journal.Store).getSnapshot" {
			call, _ = ci.(*ssa.Call)
		}
	}
	if call == nil {
		c.Undecided(rule, "(*lake/journal.Store).load", "getSnapshot call not found")
		return
	}
	var errEx *ssa.Extract
	var vals []*ssa.Extract
	for _, r := range *call.Referrers() {
		if ex, ok := r.(*ssa.Extract); ok {
			if isError(ex.Type()) {
				errEx = ex
			} else {
				vals = append(vals, ex)
			}
		}
	}
	if errEx == nil {
		c.Fail(rule, "(*lake/journal.Store).load -> getSnapshot", call.Pos(), "the error of getSnapshot is never looked at")
		return
	}
	// blocks on which err is known nil
	okBlock := func(b *ssa.BasicBlock) bool {
		for _, r := range *errEx.Referrers() {
			cmp, ok := r.(*ssa.BinOp)
			if !ok || !isNilConst(cmp.Y) {
				continue
			}
			if cmp.Op == token.NEQ && falseEdgeDominatesOrSelf(cmp, b) {
				return true
			}
			if cmp.Op == token.EQL && trueEdgeDominatesOrSelf(cmp, b) {
				return true
			}
		}
		return false
	}
	n := 0
	for _, ex := range vals {
		for _, r := range *ex.Referrers() {
			if _, ok := r.(*ssa.DebugRef); ok {
				continue
			}
			n++
			in := r.(ssa.Instruction)
			good := false
			if phi, ok := r.(*ssa.Phi); ok {
				good = true
				for i, e := range phi.Edges {
					if e == ssa.Value(ex) && !okBlockEdge(errEx, phi.Block().Preds[i], phi.Block()) {
						good = false
					}
				}
			} else {
				good = okBlock(in.Block())
			}
			construct := "(*lake/journal.Store).load uses a result of getSnapshot #" + sprint(n)
			if good {
				c.OK(rule, construct, in.Pos(), "only where the snapshot was read without error")
			} else {
				c.Fail(rule, construct, in.Pos(), "a position or table returned together with an error is used: after a crash that tore the snapshot file, the replay starts from the snapshot's position with only the entries read before the tear, so every branch or pool recorded in the lost part silently disappears")
			}
		}
	}
	if n == 0 {
		c.Undecided(rule, "(*lake/journal.Store).load", "no use of getSnapshot's results found")
	}
}

// okBlockEdge: the edge pred->blk is only taken when err (an Extract) is nil.
func okBlockEdge(errEx *ssa.Extract, pred, blk *ssa.BasicBlock) bool {
	for _, r := range *errEx.Referrers() {
		cmp, ok := r.(*ssa.BinOp)
		if !ok || !isNilConst(cmp.Y) {
			continue
		}
		for _, rr := range *cmp.Referrers() {
			iff, ok := rr.(*ssa.If)
			if !ok {
				continue
			}
			nilSucc := 1
			if cmp.Op == token.EQL {
				nilSucc = 0
			}
			ifb := iff.Block()
			// the edge leaves the If block directly on the nil side, or pred is dominated by the nil successor
			if pred == ifb && ifb.Succs[nilSucc] == blk && ifb.Succs[1-nilSucc] != blk {
				return true
			}
			ns := ifb.Succs[nilSucc]
			if len(ns.Preds) == 1 && ns.Dominates(pred) {
				return true
			}
		}
	}
	return false
}

// ---- C09-X2: an aggregate that handles a column's plain encoding handles its other encodings.
//
// Which vector kind carries a column — flat, Const (all values equal), Dict (few distinct values),
// View (a selection) — is chosen from the data's statistics by the writer and by upstream
// operators.  A type switch that has an arm for the flat kind but none for an encoding kind, and
// no default that refuses, silently contributes nothing for that column: the result then depends
// on how the data happened to be encoded.
func runVamEncodingCoverage(c *Ctx, rule string) {
	p := c.P
	c.Rule(rule, "in the update methods of the auto-vectorized aggregates every type switch over vector.Any without a default covers the encodings the writer chooses from the column statistics (Const, Dict) and, for sum, every flat numeric kind the sequential sum accepts (Int, Uint, Float)")
	// Const and Dict are the encodings the VNG writer / vector cache choose from the column's
	// statistics (View only arises from vector operators, none of which sits between the scanner
	// and an auto-vectorized aggregate).  For sum the flat numeric kinds are required as well: the
	// sequential sum accepts signed, unsigned and floating-point columns.
	enc := []string{"vector.Const", "vector.Dict"}
	numeric := []string{"vector.Int", "vector.Uint", "vector.Float"}
	n := 0
	for _, fn := range p.FuncsIn("runtime/vam/op") {
		if fn.Parent() != nil || fn.Name() != "update" || fn.Signature.Recv() == nil {
			continue
		}
		decl := p.Decl(fn)
		if decl == nil {
			continue
		}
		info := p.pkgOfFunc(fn).TypesInfo
		all := typeSwitches(info, decl.Body)
		for _, ts := range all {
			if ts.tagType == nil || namedOf(ts.tagType) != "vector.Any" {
				continue
			}
			if ts.cases["vector.Dynamic"] && len(ts.cases) == 1 {
				continue
			}
			nested := false
			for _, o := range all {
				if o != ts && o.stmt.Pos() < ts.stmt.Pos() && ts.stmt.End() <= o.stmt.End() {
					nested = true // e.g. the switch over a dictionary's value vector, which is always flat
				}
			}
			if nested {
				continue
			}
			n++
			construct := fnName(fn) + " dispatch on vector.Any (encodings) #" + sprint(n)
			if ts.hasDefault {
				c.OK(rule, construct, ts.stmt.Pos(), "has a default arm (judged by C09-X1)")
				continue
			}
			var missing []string
			req := append([]string{}, enc...)
			if namedOf(fn.Signature.Recv().Type()) == "runtime/vam/op.Sum" {
				req = append(req, numeric...)
			}
			for _, e := range req {
				if !ts.cases[e] {
					missing = append(missing, strings.TrimPrefix(e, "vector."))
				}
			}
			if len(missing) == 0 {
				c.OK(rule, construct, ts.stmt.Pos(), "every required kind has an arm")
			} else {
				construct = fnName(fn) + " dispatch on vector.Any lacks " + strings.Join(missing, ", ")
				c.Fail(rule, construct, ts.stmt.Pos(), "no arm for "+strings.Join(missing, ", ")+" and no default: a column that arrives as that kind contributes nothing, silently (sum over a float column, or over a column stored in that encoding, is 0 once the pool has vectors)")
			}
		}
	}
	if n == 0 {
		c.Undecided(rule, "runtime/vam/op update methods", "no dispatch on vector.Any found")
	}
}

// ---- C09-G3: a scan that carries a pushed-down filter is not handed to the vector scanner.
func runVectorizeDeclinesFilter(c *Ctx, rule string) {
	p := c.P
	c.Rule(rule, "a pushed-down filter is never lost to vectorization: either the kernel's vector scan consumes SeqScan.Filter, or the planner's vectorize decision is reached only on the nil edge of a test of scan.Filter")
	isFilterAddr := func(v ssa.Value) bool {
		fa, ok := v.(*ssa.FieldAddr)
		return ok && namedOf(fa.X.Type()) == "compiler/ast/dag.SeqScan" && fieldName(fa.X.Type(), fa.Field) == "Filter"
	}
	if vs := p.Func("(*compiler/kernel.Builder).compileVamScan"); vs != nil {
		for _, b := range vs.Blocks {
			for _, in := range b.Instrs {
				if v, ok := in.(ssa.Value); ok && isFilterAddr(v) {
					c.OK(rule, "compileVamScan consumes SeqScan.Filter", in.Pos(), "the vector scan applies the pushed-down filter")
					return
				}
			}
		}
	}
	isw := p.Func("(*compiler/optimizer.Optimizer).isScanWithVectors")
	if isw == nil {
		c.Undecided(rule, "Optimizer.isScanWithVectors", "anchor does not resolve")
		return
	}
	// the nil edge of a test on scan.Filter must dominate every return that may be true
	var guard *ssa.BinOp
	for _, b := range isw.Blocks {
		for _, in := range b.Instrs {
			cmp, ok := in.(*ssa.BinOp)
			if !ok || (cmp.Op != token.NEQ && cmp.Op != token.EQL) || !isNilConst(cmp.Y) {
				continue
			}
			if u, ok := cmp.X.(*ssa.UnOp); ok && isFilterAddr(u.X) {
				guard = cmp
			}
		}
	}
	bad := token.NoPos
	found := false
	for _, b := range isw.Blocks {
		ret, ok := b.Instrs[len(b.Instrs)-1].(*ssa.Return)
		if !ok {
			continue
		}
		v := returnOperand(ret, 0)
		if k, ok := v.(*ssa.Const); ok && k.Value != nil && k.Value.String() == "false" {
			continue
		}
		found = true
		okEdge := false
		if guard != nil {
			if guard.Op == token.NEQ {
				okEdge = falseEdgeDominatesOrSelf(guard, b)
			} else {
				okEdge = trueEdgeDominatesOrSelf(guard, b)
			}
		}
		if !okEdge {
			bad = ret.Pos()
			if !bad.IsValid() {
				bad = isw.Pos()
			}
		}
	}
	switch {
	case !found:
		c.Undecided(rule, "Optimizer.isScanWithVectors", "no return that may be true found")
	case bad.IsValid():
		c.Fail(rule, "Optimizer.isScanWithVectors declines filtered scans", bad, "a scan whose filter was pushed down can be vectorized although the vector scanner does not apply SeqScan.Filter: `from p | where … | count() by k` / `sum(x)` ignore the where clause as soon as every object of the pool has a vector copy")
	default:
		c.OK(rule, "Optimizer.isScanWithVectors declines filtered scans", guard.Pos(), "true only where scan.Filter == nil")
	}
}

// ---- C02-N1: the integral-float shortcut of the formatter cannot erase the sign of zero.
func runFloatShortcutSign(c *Ctx, rule string) {
	p := c.P
	c.Rule(rule, "formatPrimitive writes a float through its int64 conversion (`%d.`) only where math.Signbit was consulted first: int64(-0.0) is 0, so without the test negative zero is written as `0.` and does not survive the ZSON round trip")
	fn := p.Func("zson.formatPrimitive")
	if fn == nil {
		c.Undecided(rule, "zson.formatPrimitive", "anchor does not resolve")
		return
	}
	n := 0
	for _, b := range fn.Blocks {
		for _, in := range b.Instrs {
			cv, ok := in.(*ssa.Convert)
			if !ok {
				continue
			}
			from, ok1 := cv.X.Type().Underlying().(*types.Basic)
			to, ok2 := cv.Type().Underlying().(*types.Basic)
			if !ok1 || !ok2 || from.Info()&types.IsFloat == 0 || to.Kind() != types.Int64 {
				continue
			}
			// only conversions whose result is printed
			printed := false
			for _, r := range *cv.Referrers() {
				if _, ok := r.(*ssa.MakeInterface); ok {
					printed = true
				}
			}
			if !printed {
				continue
			}
			n++
			// a test of the sign bit whose true edge cannot reach this conversion, and which every
			// path with a zero value passes (its block is dominated by a test the conversion's
			// block is dominated by as well)
			guarded := false
			for _, gb := range fn.Blocks {
				iff, ok := gb.Instrs[len(gb.Instrs)-1].(*ssa.If)
				if !ok || gb == b {
					continue
				}
				if !dependsOn(iff.Cond, func(v ssa.Value) bool {
					call, ok := v.(*ssa.Call)
					return ok && calleeName(&call.Call) == "math.Signbit"
				}) {
					continue
				}
				idom := gb.Idom()
				if idom == nil || !idom.Dominates(b) {
					continue
				}
				if !reachesBlock(gb.Succs[0], b, gb) {
					guarded = true
				}
			}
			construct := "zson.formatPrimitive writes a float as an integer #" + sprint(n)
			if guarded {
				c.OK(rule, construct, cv.Pos(), "after a Signbit test")
			} else {
				c.Fail(rule, construct, cv.Pos(), "the value is written through int64(f) without consulting its sign bit: -0. comes out as `0.` and reads back as +0., so the ZSON round trip (and everything that prints values as ZSON) loses the sign of negative zero")
			}
		}
	}
	if n < 3 {
		c.Undecided(rule, "zson.formatPrimitive", "fewer than 3 integral-float shortcuts found ("+sprint(n)+")")
	}
}

// ---- C17-S2: a journal snapshot is only accepted with its end marker.
func runSnapshotEndMarker(c *Ctx, rule string) {
	p := c.P
	c.Rule(rule, "the journal snapshot is self-validating: putSnapshot writes the position as the last value (no entry is written after it), and getSnapshot returns success only if that value was the last one read — a snapshot cut short at a frame boundary reads without error and must still be refused")
	put := p.Func("(*lake/journal.Store).putSnapshot")
	get := p.Func("(*lake/journal.Store).getSnapshot")
	if put == nil || get == nil {
		c.Undecided(rule, "journal.Store.putSnapshot / getSnapshot", "anchors do not resolve")
		return
	}
	// writer: the Write of a NewUint64 value is not followed by another Write
	isWrite := func(in ssa.Instruction) bool {
		ci, ok := in.(ssa.CallInstruction)
		return ok && calleeName(ci.Common()) == "(*zio/zngio.Writer).Write"
	}
	var marker ssa.Instruction
	followed := false
	for _, ci := range allCalls(put) {
		if !isWrite(ci.(ssa.Instruction)) {
			continue
		}
		if dependsOn(ci.Common().Args[1], func(v ssa.Value) bool {
			call, ok := v.(*ssa.Call)
			return ok && calleeName(&call.Call) == "super.NewUint64"
		}) {
			marker = ci.(ssa.Instruction)
			if reachAvoiding(put, marker, func(ssa.Instruction) bool { return false }, isWrite) != nil {
				followed = true
			}
		}
	}
	switch {
	case marker == nil:
		c.Fail(rule, "putSnapshot writes the end marker", put.Pos(), "no position value is written")
	case followed:
		c.Fail(rule, "putSnapshot writes the end marker", marker.Pos(), "entries can be written after the position value: a reader cannot tell a complete snapshot from one that was cut short")
	default:
		c.OK(rule, "putSnapshot writes the end marker", marker.Pos(), "the position is the last value written")
	}
	// reader: every success return is control-dependent on having seen the uint64 marker
	okAll, any := true, false
	for _, b := range get.Blocks {
		ret, ok := b.Instrs[len(b.Instrs)-1].(*ssa.Return)
		if !ok || len(ret.Results) != 3 || !isNilConst(returnOperand(ret, 2)) {
			continue
		}
		any = true
		guarded := false
		for _, gb := range get.Blocks {
			iff, ok := gb.Instrs[len(gb.Instrs)-1].(*ssa.If)
			if !ok || !gb.Dominates(b) || gb == b {
				continue
			}
			if dependsOnCtl(iff.Cond, func(v ssa.Value) bool {
				k, ok := v.(*ssa.Const)
				if !ok || k.Value == nil || k.Value.Kind() != constant.Int {
					return false
				}
				i, _ := constant.Int64Val(k.Value)
				return i == constInt(p, "", "IDUint64")
			}) {
				guarded = true
			}
		}
		if !guarded {
			okAll = false
		}
	}
	switch {
	case !any:
		c.Undecided(rule, "getSnapshot requires the end marker", "no success return found")
	case okAll:
		c.OK(rule, "getSnapshot requires the end marker", get.Pos(), "success depends on having read the position value")
	default:
		c.Fail(rule, "getSnapshot requires the end marker", get.Pos(), "getSnapshot can succeed without having seen the position value that ends a complete snapshot: a snapshot truncated at a frame boundary is accepted and the entries in the lost part silently disappear")
	}
}

// ---- C06-M1: the merge operator reads the heap only at its root.
//
// hol is a binary min-heap: hol[0] is the smallest head, and nothing else is known about the
// position of the second smallest (it is hol[1] or hol[2]).  Code that compares against a fixed
// position other than the root (instead of popping the root and looking at the new root) can let a
// whole batch overtake a smaller head.
func runMergeHeapRootOnly(c *Ctx, rule string) {
	p := c.P
	c.Rule(rule, "merge.Op indexes its head-of-line heap only at position 0 (elsewhere only through container/heap's Less/Swap with variable indexes): the second smallest head is obtained by popping, never by reading hol[1]")
	n := 0
	for _, fn := range p.FuncsIn("runtime/sam/op/merge") {
		if fn.Signature.Recv() == nil || namedOf(fn.Signature.Recv().Type()) != "runtime/sam/op/merge.Op" {
			continue
		}
		for _, b := range fn.Blocks {
			for _, in := range b.Instrs {
				ia, ok := in.(*ssa.IndexAddr)
				if !ok || !isFieldLoad(ia.X, "hol") {
					continue
				}
				k, ok := ia.Index.(*ssa.Const)
				if !ok {
					continue
				}
				n++
				construct := fnName(fn) + " reads hol[" + k.Value.String() + "]"
				if k.Int64() == 0 {
					c.OK(rule, construct, ia.Pos(), "the heap's root")
				} else {
					c.Fail(rule, construct, ia.Pos(), "a fixed position other than the root of the min-heap is read: with three or more inputs the second smallest head may sit in the other child, so a whole batch is emitted past a smaller value of another input and the merged output is not sorted")
				}
			}
		}
	}
	if n < 2 {
		c.Undecided(rule, "runtime/sam/op/merge.Op", "fewer than 2 constant-index reads of the heap found ("+sprint(n)+")")
	}
}

// ---- C02-M1: lexical decisions of the formatter look through type names.
func runMapKeyLexicalUnderlying(c *Ctx, rule string) {
	p := c.P
	c.Rule(rule, "the formatter decides how to separate a map key from its value on the key's underlying type: the comparison with the ip type in formatMap takes the result of TypeUnder (a named ip key is spelled exactly like a plain one, and an IPv6 key directly followed by `:` cannot be read back)")
	fn := p.Func("(*zson.Formatter).formatMap")
	if fn == nil {
		c.Undecided(rule, "(*zson.Formatter).formatMap", "anchor does not resolve")
		return
	}
	n := 0
	for _, b := range fn.Blocks {
		for _, in := range b.Instrs {
			cmp, ok := in.(*ssa.BinOp)
			if !ok || (cmp.Op != token.EQL && cmp.Op != token.NEQ) {
				continue
			}
			isIP := func(v ssa.Value) bool {
				return dependsOn(v, func(x ssa.Value) bool {
					g, ok := x.(*ssa.Global)
					return ok && g.Name() == "TypeIP"
				})
			}
			var other ssa.Value
			if isIP(cmp.X) {
				other = cmp.Y
			} else if isIP(cmp.Y) {
				other = cmp.X
			} else {
				continue
			}
			n++
			under := dependsOn(other, func(x ssa.Value) bool {
				call, ok := x.(*ssa.Call)
				return ok && calleeName(&call.Call) == "super.TypeUnder"
			})
			construct := "(*zson.Formatter).formatMap tests the key type for ip"
			if under {
				c.OK(rule, construct, cmp.Pos(), "on TypeUnder(keyType)")
			} else {
				c.Fail(rule, construct, cmp.Pos(), "the key type itself is compared with ip: a key of a named ip type is not recognised, the separating space after an IPv6 key is omitted, and an IPv6 key directly followed by a colon is lexed as one address — the text does not parse back (or parses to another value)")
			}
		}
	}
	if n == 0 {
		c.Undecided(rule, "(*zson.Formatter).formatMap", "no test of the key type against ip found")
	}
}

// ---- C12-U1: uniqueness of a new key is checked on every commit attempt.
func runJournalKeyUniqueness(c *Ctx, rule string) {
	p := c.P
	c.Rule(rule, "journal.Store.Insert and Move refuse a key that already exists from inside the validator that commit re-runs after every reload (a lookup of the new entry's Key() in s.table leading to ErrKeyExists): a check made once up front is stale by the time a lost race is retried")
	for _, name := range []string{"Insert", "Move"} {
		fn := p.Func("(*lake/journal.Store)." + name)
		if fn == nil {
			c.Undecided(rule, "(*lake/journal.Store)."+name, "anchor does not resolve")
			continue
		}
		// validators: closures handed (directly or through commitWithConstraint) to commit
		ok := false
		var fns []*ssa.Function
		fns = append(fns, fn.AnonFuncs...)
		for _, ci := range allCalls(fn) {
			if callee := ci.Common().StaticCallee(); callee != nil && callee.Blocks != nil && p.PkgOf(callee) == "lake/journal" && callee.Name() != "commit" {
				fns = append(fns, callee.AnonFuncs...)
			}
		}
		for _, an := range fns {
			returnsExists := false
			for _, b := range an.Blocks {
				if ret, isR := b.Instrs[len(b.Instrs)-1].(*ssa.Return); isR && len(ret.Results) == 1 {
					if dependsOn(ret.Results[0], func(v ssa.Value) bool {
						g, isG := v.(*ssa.Global)
						return isG && g.Name() == "ErrKeyExists"
					}) {
						returnsExists = true
					}
				}
			}
			lookup := false
			for _, b := range an.Blocks {
				for _, in := range b.Instrs {
					lk, isL := in.(*ssa.Lookup)
					if !isL || !isFieldLoad(lk.X, "table") {
						continue
					}
					if dependsOn(lk.Index, func(v ssa.Value) bool {
						call, isC := v.(*ssa.Call)
						return isC && call.Call.IsInvoke() && call.Call.Method.Name() == "Key"
					}) {
						lookup = true
					}
				}
			}
			if returnsExists && lookup {
				ok = true
			}
		}
		construct := "(*lake/journal.Store)." + name + " validator"
		if ok {
			c.OK(rule, construct, fn.Pos(), "looks the new key up in the table on every attempt")
		} else {
			c.Fail(rule, construct, fn.Pos(), "the validator that commit re-runs after each reload does not refuse an existing key: when this writer loses the race for a journal slot to a writer that created the same name, its retry commits on top of it and the other writer's acknowledged pool or branch vanishes from the name table")
		}
	}
}

// ---- C09-G4: only `by <field>` without renaming counts as the vectorizable shape.
func runSingleFieldShape(c *Ctx, rule string) {
	p := c.P
	c.Rule(rule, "the planner treats a by-key as the vectorizable `<field>` shape only if its left and right sides are the same single field (the vector operator uses one name for the column it reads and the column it emits)")
	fn := p.Func("compiler/optimizer.isSingleField")
	if fn == nil {
		c.Undecided(rule, "compiler/optimizer.isSingleField", "anchor does not resolve")
		return
	}
	var eq *ssa.Call
	for _, ci := range allCalls(fn) {
		nm := calleeName(ci.Common())
		if nm == "(pkg/field.Path).Equal" || strings.HasSuffix(nm, "slices.Equal") {
			eq, _ = ci.(*ssa.Call)
		}
	}
	good := eq != nil
	if good {
		for _, b := range fn.Blocks {
			ret, ok := b.Instrs[len(b.Instrs)-1].(*ssa.Return)
			if !ok || len(ret.Results) != 2 {
				continue
			}
			if k, ok := returnOperand(ret, 1).(*ssa.Const); ok && k.Value != nil && k.Value.String() == "false" {
				continue
			}
			if !trueEdgeDominatesOrSelf(eq, b) {
				good = false
			}
		}
	}
	if good {
		c.OK(rule, "compiler/optimizer.isSingleField", fn.Pos(), "true only where LHS equals RHS")
	} else {
		c.Fail(rule, "compiler/optimizer.isSingleField", fn.Pos(), "a by-key whose output name differs from the field it reads is accepted as the vectorizable shape: the vector count-by emits the source field's name, so `count() by t:=s` yields a column s (or a missing-key error row after the combine) once the pool has vectors")
	}
}

// ---- C20-M3: merging a type with itself gives that type.
//
// merge falls through to "union of the two" when no structural case applies.  For equal operands
// that produces the invalid union (T,T); the recursive calls for container elements reach it
// whenever an array and a set (or two maps) share an element type.
func runMergeIdempotent(c *Ctx, rule string) {
	p := c.P
	c.Rule(rule, "agg.merge returns its operand when both operands are the same type: an identity test on the two parameters precedes every construction of a union (no union with a repeated member can be built)")
	fn := p.Func("runtime/sam/expr/agg.merge")
	if fn == nil {
		c.Undecided(rule, "runtime/sam/expr/agg.merge", "anchor does not resolve")
		return
	}
	a, b := fn.Params[1], fn.Params[2]
	var test *ssa.BinOp
	for _, bl := range fn.Blocks {
		for _, in := range bl.Instrs {
			cmp, ok := in.(*ssa.BinOp)
			if !ok || (cmp.Op != token.EQL && cmp.Op != token.NEQ) {
				continue
			}
			if (cmp.X == ssa.Value(a) && cmp.Y == ssa.Value(b)) || (cmp.X == ssa.Value(b) && cmp.Y == ssa.Value(a)) {
				test = cmp
			}
		}
	}
	n := 0
	for _, ci := range allCalls(fn) {
		if calleeName(ci.Common()) != "(*super.Context).LookupTypeUnion" {
			continue
		}
		// only the two-operand fallback: its argument is a fresh slice holding the two parameters
		if !dependsOn(ci.Common().Args[1], func(v ssa.Value) bool { return v == ssa.Value(a) }) || !dependsOn(ci.Common().Args[1], func(v ssa.Value) bool { return v == ssa.Value(b) }) {
			continue
		}
		n++
		blk := ci.(ssa.Instruction).Block()
		ok := false
		if test != nil {
			if test.Op == token.EQL {
				ok = falseEdgeDominatesOrSelf(test, blk)
			} else {
				ok = trueEdgeDominatesOrSelf(test, blk)
			}
		}
		construct := "runtime/sam/expr/agg.merge builds the union of its two operands"
		if ok {
			c.OK(rule, construct, ci.Pos(), "only where the operands differ")
		} else {
			c.Fail(rule, construct, ci.Pos(), "the two-member union is built without first testing that the operands differ: an array and a set (or two maps) with the same element type fuse to a container of the invalid union (T,T), and every value is re-tagged into it")
		}
	}
	if n == 0 {
		c.Undecided(rule, "runtime/sam/expr/agg.merge", "the two-operand union fallback was not found")
	}
}

// ---- C20-R2: the shaper's per-input-type cache is keyed by the type, not by its underlying ID.
func runShaperCacheKey(c *Ctx, rule string) {
	p := c.P
	c.Rule(rule, "ConstShaper caches one shaper per input type: the key of the shapers map identifies the type itself (the type, or zed.TypeID of it) — Type.ID() of a named type is the ID of its underlying type, so with that key a named type and its underlying type share a shaper and one of them is tagged as the other")
	fn := p.Func("(*runtime/sam/expr.ConstShaper).Eval")
	if fn == nil {
		c.Undecided(rule, "(*runtime/sam/expr.ConstShaper).Eval", "anchor does not resolve")
		return
	}
	n := 0
	check := func(key ssa.Value, pos token.Pos, what string) {
		n++
		viaID := dependsOn(key, func(v ssa.Value) bool {
			call, ok := v.(*ssa.Call)
			return ok && call.Call.IsInvoke() && call.Call.Method.Name() == "ID"
		})
		construct := "(*runtime/sam/expr.ConstShaper).Eval " + what + " the shaper cache"
		if viaID {
			c.Fail(rule, construct, pos, "the cache key is Type.ID(), which for a named type is the ID of the underlying type: after a value of `port=int64` was shaped, a plain int64 gets the same shaper and comes out tagged as port (fuse changes the type of a value)")
		} else {
			c.OK(rule, construct, pos, "keyed by the type itself")
		}
	}
	for _, b := range fn.Blocks {
		for _, in := range b.Instrs {
			switch x := in.(type) {
			case *ssa.Lookup:
				if isFieldLoad(x.X, "shapers") {
					check(x.Index, x.Pos(), "reads")
				}
			case *ssa.MapUpdate:
				if isFieldLoad(x.Map, "shapers") {
					check(x.Key, x.Pos(), "fills")
				}
			}
		}
	}
	if n < 2 {
		c.Undecided(rule, "(*runtime/sam/expr.ConstShaper).Eval", "shaper cache accesses not found")
	}
}

// ---- C14-M1 / C16-B3: the first key of a data object is captured by position, not by value.
func runFirstKeyByPosition(c *Ctx, rule string) {
	p := c.P
	c.Rule(rule, "data.Writer records an object's first key under a guard that does not look at key values: the condition under which object.Min is set in writeIndex is a flag of the writer, not a test of Min or of the key (a null or missing key is a legitimate first key — in a descending pool it is the largest — and would be overwritten by the next one)")
	fn := p.Func("(*lake/data.Writer).writeIndex")
	if fn == nil {
		c.Undecided(rule, "(*lake/data.Writer).writeIndex", "anchor does not resolve")
		return
	}
	n := 0
	for _, ci := range allCalls(fn) {
		if calleeName(ci.Common()) != "(*super.Value).CopyFrom" {
			continue
		}
		recv := ci.Common().Args[0]
		fa, ok := recv.(*ssa.FieldAddr)
		if !ok || namedOf(fa.X.Type()) != "lake/data.Object" || fieldName(fa.X.Type(), fa.Field) != "Min" {
			continue
		}
		n++
		blk := ci.(ssa.Instruction).Block()
		valueDep := false
		flagDep := false
		for _, gb := range fn.Blocks {
			iff, ok := gb.Instrs[len(gb.Instrs)-1].(*ssa.If)
			if !ok || !gb.Dominates(blk) || gb == blk {
				continue
			}
			if dependsOn(iff.Cond, func(v ssa.Value) bool {
				f, ok := v.(*ssa.FieldAddr)
				if ok && namedOf(f.X.Type()) == "lake/data.Object" {
					return true
				}
				if call, ok := v.(*ssa.Call); ok {
					nm := calleeName(&call.Call)
					return strings.HasPrefix(nm, "(*super.Value).") || strings.HasPrefix(nm, "(super.Value).")
				}
				_, isParam := v.(*ssa.Parameter)
				return isParam && v.Name() == "key"
			}) {
				valueDep = true
			}
			if dependsOn(iff.Cond, func(v ssa.Value) bool {
				f, ok := v.(*ssa.FieldAddr)
				if !ok || namedOf(f.X.Type()) != "lake/data.Writer" {
					return false
				}
				ft := f.Type().(*types.Pointer).Elem()
				b, isB := ft.Underlying().(*types.Basic)
				return isB && b.Kind() == types.Bool
			}) {
				flagDep = true
			}
		}
		construct := "(*lake/data.Writer).writeIndex captures the first key"
		switch {
		case valueDep:
			c.Fail(rule, construct, ci.Pos(), "whether the first key is recorded depends on a key value (a test of object.Min or of the key): a null first key — legitimate, and the largest key of a descending pool — leaves the test true, so the next key overwrites the bound and the object's range no longer covers the null/missing-key values it holds (listing order, partitioning, pruning and compaction all trust that range)")
		case flagDep:
			c.OK(rule, construct, ci.Pos(), "guarded by a flag of the writer")
		default:
			c.Undecided(rule, construct, "the guard of the first-key capture was not recognised")
		}
	}
	if n == 0 {
		c.Undecided(rule, "(*lake/data.Writer).writeIndex", "no capture of object.Min found")
	}
}

// ---- C15-V1: reverting vector actions is decided on the vector's own presence in the tip.
func runRevertVectorGuards(c *Ctx, rule string) {
	p := c.P
	c.Rule(rule, "if Patch.Revert emits vector actions, a delete-vector is emitted only where the tip has that vector and an add-vector only where it does not (HasVector on the tip); commits are written without being replayed, so an action that contradicts the tip makes every later snapshot of the branch fail")
	fn := p.Func("(*lake/commits.Patch).Revert")
	if fn == nil {
		c.Undecided(rule, "(*lake/commits.Patch).Revert", "anchor does not resolve")
		return
	}
	n := 0
	for _, ci := range allCalls(fn) {
		nm := calleeName(ci.Common())
		var want int // succ index of the HasVector test that must dominate: 0 = true edge
		switch nm {
		case "(*lake/commits.Object).appendDeleteVector":
			want = 0
		case "(*lake/commits.Object).appendAddVector":
			want = 1
		default:
			continue
		}
		n++
		blk := ci.(ssa.Instruction).Block()
		ok := false
		for _, hv := range allCalls(fn) {
			cc := hv.Common()
			isHV := (cc.IsInvoke() && cc.Method.Name() == "HasVector") || strings.HasSuffix(calleeName(cc), ").HasVector")
			v, isV := hv.(ssa.Value)
			if !isHV || !isV {
				continue
			}
			if want == 0 && trueEdgeDominatesOrSelf(v, blk) {
				ok = true
			}
			if want == 1 && falseEdgeDominatesOrSelf(v, blk) {
				ok = true
			}
			// negated form
			for _, r := range *v.Referrers() {
				if u, isU := r.(*ssa.UnOp); isU && u.Op == token.NOT {
					if want == 0 && falseEdgeDominatesOrSelf(u, blk) {
						ok = true
					}
					if want == 1 && trueEdgeDominatesOrSelf(u, blk) {
						ok = true
					}
				}
			}
		}
		construct := "(*lake/commits.Patch).Revert emits " + strings.TrimPrefix(nm, "(*lake/commits.Object).")
		if ok {
			c.OK(rule, construct, ci.Pos(), "guarded by HasVector on the tip")
		} else {
			c.Fail(rule, construct, ci.Pos(), "the vector action is not conditioned on whether the tip has that vector: after the vector was already deleted (or re-added) on the branch, the revert commit contradicts the tip, and since a commit is written without replaying it the branch can no longer be read (`write conflict` on every snapshot)")
		}
	}
	c.extra("c15_revert_vector_actions", n)
}

// ---- C20-A1: the fuse aggregate sees the type of every value.
func runFuseConsumesEveryType(c *Ctx, rule string) {
	p := c.P
	c.Rule(rule, "the fuse aggregate mixes in the type of every value it is given, null or not: every path through fuse.Consume reaches the schema's Mixin (the fuse operator does the same, and the property requires both to report the same type)")
	fn := p.Func("(*runtime/sam/expr/agg.fuse).Consume")
	if fn == nil {
		c.Undecided(rule, "(*runtime/sam/expr/agg.fuse).Consume", "anchor does not resolve")
		return
	}
	isMix := func(in ssa.Instruction) bool {
		ci, ok := in.(ssa.CallInstruction)
		if !ok {
			return false
		}
		nm := calleeName(ci.Common())
		return nm == "(*runtime/sam/expr/agg.Schema).Mixin" || strings.HasSuffix(nm, ").Mixin")
	}
	// Consume may record types in a set and mix them in later (Result); accept a map update of a types field too
	isRecord := func(in ssa.Instruction) bool {
		if isMix(in) {
			return true
		}
		if mu, ok := in.(*ssa.MapUpdate); ok && isFieldLoad(mu.Map, "shapes") {
			return true
		}
		// the type is already recorded: the membership test itself
		lk, ok := in.(*ssa.Lookup)
		return ok && isFieldLoad(lk.X, "shapes")
	}
	isRet := func(in ssa.Instruction) bool { _, ok := in.(*ssa.Return); return ok }
	if hit := reachAvoiding(fn, nil, isRecord, isRet); hit != nil {
		pos := hit.Pos()
		if !pos.IsValid() {
			pos = fn.Pos()
		}
		c.Fail(rule, "(*runtime/sam/expr/agg.fuse).Consume records the value's type", pos, "a path through Consume returns without recording the value's type (e.g. for null values): a typed null whose type carries fields seen nowhere else is part of the operator's fused type but not of what fuse() reports, so the two disagree")
	} else {
		c.OK(rule, "(*runtime/sam/expr/agg.fuse).Consume records the value's type", fn.Pos(), "on every path")
	}
}

// ---- C01-C1: a control frame never ends a scan.
func runControlDoesNotEndScan(c *Ctx, rule string) {
	p := c.P
	c.Rule(rule, "in both ZNG scanners an error value that may be a control message does not end the scan: a store that marks the scanner finished (eof = true) is taken only for done, or after the type assertion to *zbuf.Control failed (control frames are delivered through the error result, and values follow them)")
	n := 0
	for _, name := range []string{"(*zio/zngio.scanner).Pull", "(*zio/zngio.scannerSync).Pull"} {
		fn := p.Func(name)
		if fn == nil {
			c.Undecided(rule, name, "anchor does not resolve")
			continue
		}
		done := fn.Params[1]
		for _, b := range fn.Blocks {
			for _, in := range b.Instrs {
				st, ok := in.(*ssa.Store)
				if !ok {
					continue
				}
				fa, ok := st.Addr.(*ssa.FieldAddr)
				if !ok || fieldName(fa.X.Type(), fa.Field) != "eof" {
					continue
				}
				if k, ok := st.Val.(*ssa.Const); !ok || k.Value == nil || k.Value.String() != "true" {
					continue
				}
				n++
				okDone := trueEdgeDominatesOrSelf(done, b)
				okCtl := false
				for _, ob := range fn.Blocks {
					for _, oi := range ob.Instrs {
						ta, isTA := oi.(*ssa.TypeAssert)
						if !isTA || !ta.CommaOk || short(ta.AssertedType.String()) != "*zbuf.Control" {
							continue
						}
						for _, r := range *ta.Referrers() {
							if ex, isEx := r.(*ssa.Extract); isEx && ex.Index == 1 && falseEdgeDominatesOrSelf(ex, b) {
								okCtl = true
							}
						}
					}
				}
				construct := name + " marks the scan finished #" + sprint(n)
				if okDone || okCtl {
					c.OK(rule, construct, st.Pos(), "only for done / after the error was found not to be a control message")
				} else {
					c.Fail(rule, construct, st.Pos(), "the scanner is marked finished for any error value, including a control message: the control frame is delivered once and then the reader reports a clean end of input, so every value after the first control frame is silently dropped (single-threaded readers)")
				}
			}
		}
	}
	if n < 2 {
		c.Undecided(rule, "ZNG scanners", "fewer than 2 eof stores found ("+sprint(n)+")")
	}
}

// ---- C03-X1: no element of a slice that is certainly nil is addressed.
//
// `var values []T` followed by `values[slot] = …` indexes a nil slice: it panics on the first
// element.  In SSA the base of such an IndexAddr is the nil constant (possibly through phis that
// only merge nil constants).  Sound and exact for the code it flags: if the instruction executes,
// it panics.
func runNilSliceIndex(c *Ctx, rule string, pkgs ...string) {
	p := c.P
	c.Rule(rule, "in the VNG reader, the vector cache and the vector packages no element of a slice that can only be nil is addressed (an arm of a per-type decoder that declares its result slice without allocating it panics on the first value of that type)")
	var onlyNil func(v ssa.Value, seen map[ssa.Value]bool) bool
	onlyNil = func(v ssa.Value, seen map[ssa.Value]bool) bool {
		if seen[v] {
			return true
		}
		seen[v] = true
		switch x := v.(type) {
		case *ssa.Const:
			return x.Value == nil
		case *ssa.Phi:
			for _, e := range x.Edges {
				if !onlyNil(e, seen) {
					return false
				}
			}
			return true
		}
		return false
	}
	n, bad := 0, 0
	for _, fn := range p.FuncsIn(pkgs...) {
		for _, b := range fn.Blocks {
			for _, in := range b.Instrs {
				ia, ok := in.(*ssa.IndexAddr)
				if !ok {
					continue
				}
				if _, isSlice := ia.X.Type().Underlying().(*types.Slice); !isSlice {
					continue
				}
				n++
				if onlyNil(ia.X, map[ssa.Value]bool{}) {
					bad++
					c.Fail(rule, constructName(fn)+" indexes a nil slice", ia.Pos(), "the slice addressed here is never allocated (it can only be nil): the first value decoded through this arm panics with index out of range — a column of this type crashes the reader")
				}
			}
		}
	}
	if bad == 0 {
		c.OK(rule, "slice element accesses", token.NoPos, sprint(n)+" element accesses examined, none on a certainly-nil slice")
	}
	if n < 100 {
		c.Undecided(rule, "slice element accesses", "fewer than 100 element accesses found ("+sprint(n)+")")
	}
}

// ---- C03-P1: a projection path that is a prefix of another one wins.
func runProjectionPrefix(c *Ctx, rule string) {
	p := c.P
	c.Rule(rule, "vcache.insertPath descends into the remainders of two paths with a common head only after it tested that neither is exhausted there (len == 1): if one path is a prefix of the other the shorter one selects everything below it — otherwise projecting `a` together with `a.b` silently narrows `a` to `a.b`")
	fn := p.Func("runtime/vcache.insertPath")
	if fn == nil {
		c.Undecided(rule, "runtime/vcache.insertPath", "anchor does not resolve")
		return
	}
	existing, addition := fn.Params[0], fn.Params[1]
	n := 0
	for _, ci := range allCalls(fn) {
		if ci.Common().StaticCallee() != fn {
			continue
		}
		args := ci.Common().Args
		s0, ok0 := args[0].(*ssa.Slice)
		s1, ok1 := args[1].(*ssa.Slice)
		if !ok0 || !ok1 || stripConv(s0.X) != ssa.Value(existing) || stripConv(s1.X) != ssa.Value(addition) {
			continue
		}
		n++
		blk := ci.(ssa.Instruction).Block()
		tested := map[ssa.Value]bool{}
		for _, gb := range fn.Blocks {
			iff, ok := gb.Instrs[len(gb.Instrs)-1].(*ssa.If)
			if !ok || !gb.Dominates(blk) || gb == blk {
				continue
			}
			cmp, ok := iff.Cond.(*ssa.BinOp)
			if !ok {
				continue
			}
			k, isK := cmp.Y.(*ssa.Const)
			if !isK || k.Value == nil || k.Int64() != 1 {
				continue
			}
			if call, ok := cmp.X.(*ssa.Call); ok {
				if b, ok := call.Call.Value.(*ssa.Builtin); ok && b.Name() == "len" {
					tested[stripConv(call.Call.Args[0])] = true
				}
			}
		}
		construct := "runtime/vcache.insertPath descends below a common head"
		if tested[existing] && tested[addition] {
			c.OK(rule, construct, ci.Pos(), "after both paths were tested for ending here")
		} else {
			c.Fail(rule, construct, ci.Pos(), "the remainders of the two paths are merged without testing whether one of them ends at the common head: a path that is a prefix of another (a and a.b) is narrowed to the longer one, so a projection returns less than the full read has at that path")
		}
	}
	if n == 0 {
		c.Undecided(rule, "runtime/vcache.insertPath", "no descent below a common head found")
	}
}

// ---- C03-U1: every vector kind that can hold nulls honours them when it is materialized.
func runSerializeHonoursNulls(c *Ctx, rule string) {
	p := c.P
	c.Rule(rule, "sibling agreement among the vector kinds: every type of package vector that has a Nulls field reads it in its Serialize method (the vector cache stores the values of a nullable column densely, so a Serialize that ignores Nulls indexes the dense storage with a sparse slot number)")
	pk := p.Pkgs["vector"]
	if pk == nil {
		c.Undecided(rule, "package vector", "not loaded")
		return
	}
	n := 0
	sc := pk.Types.Scope()
	for _, name := range sc.Names() {
		tn, ok := sc.Lookup(name).(*types.TypeName)
		if !ok {
			continue
		}
		st, ok := tn.Type().Underlying().(*types.Struct)
		if !ok {
			continue
		}
		hasNulls := false
		for i := 0; i < st.NumFields(); i++ {
			if st.Field(i).Name() == "Nulls" {
				hasNulls = true
			}
		}
		if !hasNulls {
			continue
		}
		fn := p.Func("(*vector." + name + ").Serialize")
		if fn == nil {
			continue
		}
		n++
		reads := false
		fns := map[*ssa.Function]bool{fn: true}
		for g := range reachableStatic([]*ssa.Function{fn}, func(g *ssa.Function) bool {
			return p.PkgOf(g) == "vector" && g.Signature.Recv() != nil && namedOf(g.Signature.Recv().Type()) == "vector."+name
		}) {
			fns[g] = true
		}
		for g := range fns {
			for _, b := range g.Blocks {
				for _, in := range b.Instrs {
					if fa, ok := in.(*ssa.FieldAddr); ok && fieldName(fa.X.Type(), fa.Field) == "Nulls" {
						reads = true
					}
				}
			}
		}
		construct := "(*vector." + name + ").Serialize"
		if reads {
			c.OK(rule, construct, fn.Pos(), "reads Nulls")
		} else {
			c.Fail(rule, construct, fn.Pos(), "this vector kind has a Nulls mask but its Serialize never looks at it: for a nullable column the slot number is used on storage that only holds the non-null values, so materializing it panics (index out of range) or returns the value of another row")
		}
	}
	if n < 8 {
		c.Undecided(rule, "package vector", "fewer than 8 nullable vector kinds with a Serialize method found ("+sprint(n)+")")
	}
}

// ---- C03-D1: the dictionary order is a function of the dictionary's contents.
func runDictOrderTotal(c *Ctx, rule string) {
	p := c.P
	c.Rule(rule, "the order of a column's dictionary is the same every time it is computed: the less function of vng.sortDict falls back to comparing the entries' bytes when the value comparator ties (the dictionary is sorted once for the selectors and once for the metadata, each time from a randomly ordered map)")
	fn := p.Func("vng.sortDict")
	if fn == nil || len(fn.AnonFuncs) == 0 {
		c.Undecided(rule, "vng.sortDict", "anchor does not resolve")
		return
	}
	less := fn.AnonFuncs[0]
	ok := false
	for _, b := range less.Blocks {
		ret, isR := b.Instrs[len(b.Instrs)-1].(*ssa.Return)
		if !isR || len(ret.Results) != 1 {
			continue
		}
		if dependsOn(ret.Results[0], func(v ssa.Value) bool {
			call, isC := v.(*ssa.Call)
			return isC && (calleeName(&call.Call) == "bytes.Compare" || calleeName(&call.Call) == "bytes.Equal")
		}) {
			ok = true
		}
	}
	// alternatively the dictionary is computed once: makeDict has a single caller
	single := len(callSitesWhere(p, func(_ *ssa.CallCommon, name string) bool { return name == "(*vng.PrimitiveEncoder).makeDict" })) <= 1
	switch {
	case ok:
		c.OK(rule, "vng.sortDict less function", less.Pos(), "ties of the value comparator are broken by the entries' bytes")
	case single:
		c.OK(rule, "vng.sortDict less function", less.Pos(), "the dictionary is computed once")
	default:
		c.Fail(rule, "vng.sortDict less function", less.Pos(), "the dictionary is sorted more than once with a comparator that can tie for distinct entries (0. and -0.), starting from a randomly ordered map: the selectors and the dictionary stored in the metadata can be in different orders, and the tied values come back swapped")
	}
}

// ---- C05-R1: Context.Reset forgets everything the context has learned.
func runContextResetComplete(c *Ctx, rule string) {
	p := c.P
	c.Rule(rule, "Context.Reset resets every field of the type context that its methods write after construction (tables and caches alike): a cache that survives Reset hands out a type object that is no longer in the tables, so the same structure gets a second object and ID")
	reset := p.Func("(*super.Context).Reset")
	if reset == nil {
		c.Undecided(rule, "(*super.Context).Reset", "anchor does not resolve")
		return
	}
	writesOf := func(fn *ssa.Function) map[string]bool {
		out := map[string]bool{}
		for _, b := range fn.Blocks {
			for _, in := range b.Instrs {
				switch x := in.(type) {
				case *ssa.Store:
					if fa, ok := x.Addr.(*ssa.FieldAddr); ok && namedOf(fa.X.Type()) == "super.Context" {
						out[fieldName(fa.X.Type(), fa.Field)] = true
					}
				case *ssa.MapUpdate:
					if u, ok := x.Map.(*ssa.UnOp); ok {
						if fa, ok := u.X.(*ssa.FieldAddr); ok && namedOf(fa.X.Type()) == "super.Context" {
							out[fieldName(fa.X.Type(), fa.Field)] = true
						}
					}
				case ssa.CallInstruction:
					// atomic.Pointer.Store and the like on a field
					cc := x.Common()
					if len(cc.Args) > 0 {
						if fa, ok := cc.Args[0].(*ssa.FieldAddr); ok && namedOf(fa.X.Type()) == "super.Context" {
							nm := calleeName(cc)
							if strings.Contains(nm, ").Store") || strings.Contains(nm, ").Swap") || strings.Contains(nm, ").CompareAndSwap") {
								out[fieldName(fa.X.Type(), fa.Field)] = true
							}
						}
					}
				}
			}
		}
		return out
	}
	written := map[string]string{}
	for _, fn := range p.FuncsIn("") {
		if fn.Signature.Recv() == nil || namedOf(fn.Signature.Recv().Type()) != "super.Context" || fn == reset {
			continue
		}
		top := fn
		for top.Parent() != nil {
			top = top.Parent()
		}
		for f := range writesOf(fn) {
			if f == "mu" {
				continue
			}
			if _, ok := written[f]; !ok {
				written[f] = fnName(top)
			}
		}
	}
	inReset := writesOf(reset)
	if len(written) < 4 {
		c.Undecided(rule, "(*super.Context).Reset", "fewer than 4 fields written by Context methods found")
		return
	}
	var fields []string
	for f := range written {
		fields = append(fields, f)
	}
	sort.Strings(fields)
	for _, f := range fields {
		construct := "(*super.Context).Reset field " + f
		if inReset[f] {
			c.OK(rule, construct, reset.Pos(), "reset (written by "+written[f]+")")
		} else {
			c.Fail(rule, construct, reset.Pos(), "this field is written by "+written[f]+" but not by Reset: what it caches survives the reset although the tables it refers to are emptied, so a second, different type object is created for the same structure (types are no longer canonical within the context)")
		}
	}
}

// ---- C17-S3: a commit's snapshot cache file is only accepted with its end marker.
func runCommitSnapshotMarker(c *Ctx, rule string) {
	p := c.P
	c.Rule(rule, "the snapshot cache of a commit is self-validating: Snapshot.serialize writes a Commit action as the last entry, and decodeSnapshot returns success only after it read that entry last (the cache is written with a plain Put, so a crash can leave it empty or cut short; an empty file otherwise decodes as an empty snapshot and the branch reads as empty)")
	ser := p.Func("(*lake/commits.Snapshot).serialize")
	dec := p.Func("lake/commits.decodeSnapshot")
	if ser == nil || dec == nil {
		c.Undecided(rule, "commits.Snapshot.serialize / decodeSnapshot", "anchors do not resolve")
		return
	}
	isWrite := func(in ssa.Instruction) bool {
		ci, ok := in.(ssa.CallInstruction)
		return ok && calleeName(ci.Common()) == "(*zngbytes.Serializer).Write"
	}
	var marker ssa.Instruction
	for _, ci := range allCalls(ser) {
		if !isWrite(ci.(ssa.Instruction)) {
			continue
		}
		if dependsOn(ci.Common().Args[1], func(v ssa.Value) bool {
			a, ok := v.(*ssa.Alloc)
			if !ok {
				return false
			}
			pt, ok := a.Type().Underlying().(*types.Pointer)
			return ok && namedOf(pt.Elem()) == "lake/commits.Commit"
		}) {
			marker = ci.(ssa.Instruction)
		}
	}
	switch {
	case marker == nil:
		c.Fail(rule, "Snapshot.serialize writes the end marker", ser.Pos(), "no end marker is written: a snapshot file cut short (or left empty) by a crash cannot be told from a complete one")
	case reachAvoiding(ser, marker, func(ssa.Instruction) bool { return false }, isWrite) != nil:
		c.Fail(rule, "Snapshot.serialize writes the end marker", marker.Pos(), "entries can be written after the end marker")
	default:
		c.OK(rule, "Snapshot.serialize writes the end marker", marker.Pos(), "the Commit action is the last entry written")
	}
	okAll, any := true, false
	for _, b := range dec.Blocks {
		ret, ok := b.Instrs[len(b.Instrs)-1].(*ssa.Return)
		if !ok || len(ret.Results) != 2 || !isNilConst(returnOperand(ret, 1)) {
			continue
		}
		any = true
		guarded := false
		for _, gb := range dec.Blocks {
			iff, ok := gb.Instrs[len(gb.Instrs)-1].(*ssa.If)
			if !ok || !gb.Dominates(b) || gb == b {
				continue
			}
			if dependsOnCtl(iff.Cond, func(v ssa.Value) bool {
				ta, ok := v.(*ssa.TypeAssert)
				return ok && short(ta.AssertedType.String()) == "*lake/commits.Commit"
			}) {
				guarded = true
			}
		}
		if !guarded {
			okAll = false
		}
	}
	switch {
	case !any:
		c.Undecided(rule, "decodeSnapshot requires the end marker", "no success return found")
	case okAll:
		c.OK(rule, "decodeSnapshot requires the end marker", dec.Pos(), "success depends on having read the Commit entry")
	default:
		c.Fail(rule, "decodeSnapshot requires the end marker", dec.Pos(), "decodeSnapshot can succeed without having read the end marker: an empty or truncated cache file is taken for the commit's snapshot, so a branch whose tip's cache was torn by a crash reads as empty (or partially) although its commit objects are intact")
	}
}

// ---- C10-X1: all runs of one external merge sort decode into one type context.
//
// Values read back from different spill files are compared with each other (heap order, "same key"
// test).  Type identity and type IDs are per context, so the comparison is only meaningful if the
// runs share one context: the one the MergeSort owns.
func runSpillRunsShareContext(c *Ctx, rule string) {
	p := c.P
	c.Rule(rule, "every spill run of a MergeSort is opened with the MergeSort's own type context (a field of the receiver), never with a fresh one: values of different runs are compared with each other, and complex type IDs are only comparable within one context")
	fn := p.Func("(*runtime/sam/op/spill.MergeSort).Spill")
	if fn == nil {
		c.Undecided(rule, "(*runtime/sam/op/spill.MergeSort).Spill", "anchor does not resolve")
		return
	}
	n := 0
	for _, ci := range allCalls(fn) {
		if calleeName(ci.Common()) != "runtime/sam/op/spill.newPeeker" {
			continue
		}
		for _, a := range ci.Common().Args {
			if short(a.Type().String()) != "*super.Context" {
				continue
			}
			n++
			fromField := false
			if u, ok := a.(*ssa.UnOp); ok {
				if fa, ok := u.X.(*ssa.FieldAddr); ok && namedOf(fa.X.Type()) == "runtime/sam/op/spill.MergeSort" {
					fromField = true
				}
			}
			construct := "(*runtime/sam/op/spill.MergeSort).Spill opens a run"
			if fromField {
				c.OK(rule, construct, ci.Pos(), "with the MergeSort's context")
			} else {
				c.Fail(rule, construct, ci.Pos(), "the run is opened with a type context that is not the MergeSort's own: the same record or error type gets different IDs in different runs (and different types the same ID), so the merge order and the equal-key test of a spilled group-by no longer agree with the in-memory table — keys of complex types are merged or split once the table spills")
			}
		}
	}
	if n == 0 {
		c.Undecided(rule, "(*runtime/sam/op/spill.MergeSort).Spill", "no run opened with a type context found")
	}
}

// ---- C16-L1: the seek-range lookup looks at every entry of the index.
func runSeekLookupScansAll(c *Ctx, rule string) {
	p := c.P
	c.Rule(rule, "LookupSeekRange returns its ranges only at the end of the seek index (or with an error): no successful return lies on the path of a pruned entry, so the surviving ranges of a disjunctive key predicate that lie after a pruned stretch are kept")
	fn := p.Func("lake/data.LookupSeekRange")
	if fn == nil {
		c.Undecided(rule, "lake/data.LookupSeekRange", "anchor does not resolve")
		return
	}
	var read *ssa.Call
	for _, ci := range allCalls(fn) {
		if calleeName(ci.Common()) == "(*zio/zngio.Reader).Read" {
			if call, ok := ci.(*ssa.Call); ok && inCycle(fn, call) {
				read = call
			}
		}
	}
	if read == nil {
		c.Undecided(rule, "lake/data.LookupSeekRange", "the index read loop was not found")
		return
	}
	// the value result of Read
	var valEx *ssa.Extract
	for _, r := range *read.Referrers() {
		if ex, ok := r.(*ssa.Extract); ok && ex.Index == 0 {
			valEx = ex
		}
	}
	_ = valEx
	var evalBlk *ssa.BasicBlock
	for _, ci := range allCalls(fn) {
		if cc := ci.Common(); cc.IsInvoke() && cc.Method.Name() == "Eval" {
			evalBlk = ci.(ssa.Instruction).Block()
		}
	}
	if evalBlk == nil {
		c.Undecided(rule, "lake/data.LookupSeekRange", "the pruner evaluation was not found")
		return
	}
	n, bad := 0, token.NoPos
	for _, b := range fn.Blocks {
		ret, ok := b.Instrs[len(b.Instrs)-1].(*ssa.Return)
		if !ok || !read.Block().Dominates(b) {
			continue
		}
		n++
		if !evalBlk.Dominates(b) {
			continue // the end-of-index / read-error exit, taken before any entry is judged
		}
		// after an entry was judged only a genuine error may be returned
		switch e := returnOperand(ret, 1).(type) {
		case *ssa.Const:
			if e.Value == nil {
				bad = ret.Pos()
			}
		case *ssa.Extract:
			if e.Tuple == ssa.Value(read) {
				bad = ret.Pos()
			}
		}
		if bad != token.NoPos && !bad.IsValid() {
			bad = fn.Pos()
		}
	}
	if bad.IsValid() {
		c.Fail(rule, "lake/data.LookupSeekRange returns before the end of the index", bad, "a successful return is taken after an entry was judged by the pruner, i.e. before the whole seek index was read: for a filter that keeps two separated stretches of one object (k == 3 or k == 300) every stretch after the first pruned entry is dropped, so the query returns fewer values than a full scan")
	} else {
		c.OK(rule, "lake/data.LookupSeekRange returns before the end of the index", fn.Pos(), sprint(n)+" returns inside the loop, all on the end-of-index / error exit")
	}
}

// ---- C16-N2: a null key satisfies no comparison with a literal.
//
// The range pruner orders a null key as the maximum and therefore prunes an object whose
// non-null keys cannot match.  That is only sound if the filter itself never matches a null key
// against a non-null literal.  The general comparison evaluator says so explicitly; the constant
// fast path (expr.Comparison) must as well, instead of decoding the null as a zero value.
func runConstCompareRefusesNull(c *Ctx, rule string) {
	p := c.P
	c.Rule(rule, "both comparison evaluators agree that null compared with a non-null literal is false: the predicate returned by expr.Comparison tests IsNull before it applies the type-specific comparison (as Compare.Eval does), so the pruner's treatment of null keys as never matching is sound")
	fn := p.Func("runtime/sam/expr.Comparison")
	if fn == nil {
		c.Undecided(rule, "runtime/sam/expr.Comparison", "anchor does not resolve")
		return
	}
	ok := false
	for _, an := range fn.AnonFuncs {
		var isNull ssa.Value
		for _, ci := range allCalls(an) {
			if nm := calleeName(ci.Common()); nm == "(super.Value).IsNull" || nm == "(*super.Value).IsNull" {
				isNull, _ = ci.(ssa.Value)
			}
		}
		if isNull == nil {
			continue
		}
		for _, ci := range allCalls(an) {
			cc := ci.Common()
			if cc.IsInvoke() || cc.StaticCallee() != nil {
				continue
			}
			// the dynamic call of the captured predicate
			if falseEdgeDominatesOrSelf(isNull, ci.(ssa.Instruction).Block()) {
				ok = true
			}
		}
	}
	// Compare.Eval: the null tests precede the type dispatch
	ce := p.Func("(*runtime/sam/expr.Compare).Eval")
	ceOK := false
	if ce != nil {
		for _, ci := range allCalls(ce) {
			if nm := calleeName(ci.Common()); nm == "(super.Value).IsNull" || nm == "(*super.Value).IsNull" {
				ceOK = true
			}
		}
	}
	switch {
	case ok && ceOK:
		c.OK(rule, "runtime/sam/expr.Comparison refuses null values", fn.Pos(), "IsNull is tested before the literal's comparison is applied, in both evaluators")
	default:
		c.Fail(rule, "runtime/sam/expr.Comparison refuses null values", fn.Pos(), "the constant comparison decodes a null value like a zero value (`k < 5` matches null(int64)) while the pruner treats a null key as the maximum: an object whose only matching row has a null key is pruned, so the optimized query returns fewer rows than a full scan")
	}
}

// ---- C10-P3: recombining partials never panics on a value.
func runPartialRecombinationNoPanic(c *Ctx, rule string) {
	p := c.P
	c.Rule(rule, "groupby's valRow.consumeAsPartial contains no explicit panic: a partial result is data (the partial of any() over error values is an error value) and is handed to the aggregate's ConsumeAsPartial, so a query that runs sequentially also runs when its table spills or its plan is parallel")
	fn := p.Func("(runtime/sam/op/groupby.valRow).consumeAsPartial")
	if fn == nil {
		c.Undecided(rule, "(runtime/sam/op/groupby.valRow).consumeAsPartial", "anchor does not resolve")
		return
	}
	var bad token.Pos
	calls := false
	for _, b := range fn.Blocks {
		for _, in := range b.Instrs {
			if pn, ok := in.(*ssa.Panic); ok && pn.Pos().IsValid() {
				bad = pn.Pos()
			}
			if ci, ok := in.(ssa.CallInstruction); ok && ci.Common().IsInvoke() && ci.Common().Method.Name() == "ConsumeAsPartial" {
				calls = true
			}
		}
	}
	switch {
	case bad.IsValid():
		c.Fail(rule, "(runtime/sam/op/groupby.valRow).consumeAsPartial", bad, "a partial value of a certain kind makes the recombination panic: `any(e) by k` over error values works in memory but crashes as soon as the table spills (`with -limit`) or the summarize is split across parallel legs")
	case !calls:
		c.Undecided(rule, "(runtime/sam/op/groupby.valRow).consumeAsPartial", "no call of ConsumeAsPartial found")
	default:
		c.OK(rule, "(runtime/sam/op/groupby.valRow).consumeAsPartial", fn.Pos(), "no explicit panic; partials are handed to the aggregates")
	}
}

// ---- C10-K2: the spill order distinguishes exactly what the table distinguishes.
func runSpillKeyOrderTotal(c *Ctx, rule string) {
	p := c.P
	c.Rule(rule, "the comparator that orders spilled group-by rows and decides `same key` compares, for every key, the value and then its type: the in-memory table keys on type and bytes, while the value comparison alone coerces numbers (1, 1(uint64) and 1. tie), so without the type the groups a query returns depend on whether the table spilled")
	fn := p.Func("runtime/sam/op/groupby.NewAggregator")
	if fn == nil {
		c.Undecided(rule, "runtime/sam/op/groupby.NewAggregator", "anchor does not resolve")
		return
	}
	typeAware := false
	n := 0
	for _, ci := range allCalls(fn) {
		if calleeName(ci.Common()) != "runtime/sam/expr.NewSortEvaluator" {
			continue
		}
		n++
		mi, ok := ci.Common().Args[0].(*ssa.MakeInterface)
		if !ok {
			continue
		}
		t := mi.X.Type()
		if pt, ok := t.Underlying().(*types.Pointer); ok {
			t = pt.Elem()
		}
		ev := p.Func("(*" + namedOf(t) + ").Eval")
		if ev == nil {
			continue
		}
		for _, ec := range allCalls(ev) {
			if nm := calleeName(ec.Common()); nm == "(*super.Context).LookupTypeValue" || nm == "super.EncodeTypeValue" {
				typeAware = true
			}
		}
	}
	switch {
	case n == 0:
		c.Undecided(rule, "runtime/sam/op/groupby.NewAggregator", "the spill comparator's sort expressions were not found")
	case typeAware:
		c.OK(rule, "runtime/sam/op/groupby.NewAggregator spill comparator", fn.Pos(), "orders by key value, then key type")
	default:
		c.Fail(rule, "runtime/sam/op/groupby.NewAggregator spill comparator", fn.Pos(), "spilled rows are ordered and matched by key value only: numerically equal keys of different types tie, so `count() by k` over 1, 1(uint64) and 1. returns three groups in memory and one group (count 5) once the table spills")
	}
}

// ---- C16-C2: a relative comparison of two expressions looks at both of them.
//
// `'c' <= k` (literal on the left) is evaluated by Compare.Eval while the pruner derived from
// the same predicate uses the value order.  The two agree only if every type-specific branch of
// Compare.Eval compares the left operand with the right operand.
func runCompareUsesBothOperands(c *Ctx, rule string) {
	p := c.P
	c.Rule(rule, "in (*expr.Compare).Eval every non-constant ordering handed to Compare.result is computed from the value of the left operand and from the value of the right operand: a branch that compares an operand with itself makes `lit <= key` true for every key of that type while the pruner, which uses the value order, still skips objects")
	fn := p.Func("(*runtime/sam/expr.Compare).Eval")
	if fn == nil {
		c.Undecided(rule, "(*runtime/sam/expr.Compare).Eval", "anchor does not resolve")
		return
	}
	var lhs, rhs ssa.Value
	for _, ci := range allCalls(fn) {
		cc := ci.Common()
		if !cc.IsInvoke() || cc.Method.Name() != "Eval" {
			continue
		}
		switch {
		case strings.HasSuffix(fieldPath(cc.Value), ".lhs"):
			lhs, _ = ci.(ssa.Value)
		case strings.HasSuffix(fieldPath(cc.Value), ".rhs"):
			rhs, _ = ci.(ssa.Value)
		}
	}
	if lhs == nil || rhs == nil {
		c.Undecided(rule, "(*runtime/sam/expr.Compare).Eval", "the evaluations of the lhs and rhs operands were not found")
		return
	}
	n := 0
	for _, ci := range allCalls(fn) {
		if calleeName(ci.Common()) != "(*runtime/sam/expr.Compare).result" {
			continue
		}
		arg := ci.Common().Args[len(ci.Common().Args)-1]
		if _, isConst := arg.(*ssa.Const); isConst {
			continue
		}
		n++
		l := dependsOn(arg, func(v ssa.Value) bool { return v == lhs })
		r := dependsOn(arg, func(v ssa.Value) bool { return v == rhs })
		if l && r {
			continue
		}
		side := "right"
		if !l {
			side = "left"
		}
		c.Fail(rule, "(*runtime/sam/expr.Compare).Eval ordering ignores the "+side+" operand", ci.Pos(), "the ordering passed to Compare.result here does not depend on the "+side+" operand: for this type `a <= b` is decided without looking at one side (a string compared with itself is always equal), so `'c' <= k` accepts every key while the range pruner derived from it skips the objects below 'c' - the pruned query returns fewer rows than a full scan with the same filter")
	}
	switch {
	case n < 2:
		c.Undecided(rule, "(*runtime/sam/expr.Compare).Eval", "fewer than two type-specific orderings found ("+sprint(n)+")")
	default:
		c.OK(rule, "(*runtime/sam/expr.Compare).Eval orderings", fn.Pos(), sprint(n)+" type-specific orderings, each computed from both operands")
	}
}
