package main

import (
	"fmt"
	"go/ast"
	"go/parser"
	"go/token"
	"os"
	"os/exec"
	"path/filepath"
	"strings"
	"sync"
)

// Mutant is one self-test variant: a single broken instance of a rule,
// applied through a go/packages overlay (nothing is written under /repo).
// The edit is located inside a named function (found through the AST), never
// by line number.
type Mutant struct {
	Property        string
	Name            string
	File            string // relative to the repository root
	Func            string // "Recv.Method" or "Func"; "" = whole file
	Old, New        string
	ExpectRule      string
	ExpectConstruct string // substring of the reported construct
}

// A File of the form "patch:<path under /verif>" denotes a stored unified diff (a seeded change)
// that is applied to copies of the files it touches instead of an Old/New substitution.

var mutants []Mutant

func addMutants(ms ...Mutant) { mutants = append(mutants, ms...) }

func findMutant(name string) *Mutant {
	for i := range mutants {
		if mutants[i].Name == name {
			return &mutants[i]
		}
	}
	return nil
}

func mutantOverlay(repo, name string) (map[string][]byte, error) {
	m := findMutant(name)
	if m == nil {
		return nil, fmt.Errorf("no such mutant %s", name)
	}
	if strings.HasPrefix(m.File, "patch:") {
		return patchOverlay(repo, strings.TrimPrefix(m.File, "patch:"))
	}
	path := filepath.Join(repo, m.File)
	src, err := os.ReadFile(path)
	if err != nil {
		return nil, err
	}
	lo, hi := 0, len(src)
	if m.Func != "" {
		fset := token.NewFileSet()
		f, err := parser.ParseFile(fset, path, src, 0)
		if err != nil {
			return nil, err
		}
		found := false
		for _, d := range f.Decls {
			fd, ok := d.(*ast.FuncDecl)
			if !ok {
				continue
			}
			n := fd.Name.Name
			if fd.Recv != nil && len(fd.Recv.List) > 0 {
				t := fd.Recv.List[0].Type
				if s, ok := t.(*ast.StarExpr); ok {
					t = s.X
				}
				if ix, ok := t.(*ast.IndexExpr); ok {
					t = ix.X
				}
				if id, ok := t.(*ast.Ident); ok {
					n = id.Name + "." + n
				}
			}
			if n == m.Func {
				lo, hi = fset.Position(fd.Pos()).Offset, fset.Position(fd.End()).Offset
				found = true
				break
			}
		}
		if !found {
			return nil, fmt.Errorf("function %s not found in %s", m.Func, m.File)
		}
	}
	seg := string(src[lo:hi])
	if n := strings.Count(seg, m.Old); n != 1 {
		return nil, fmt.Errorf("edit site occurs %d times in %s %s (want 1)", n, m.File, m.Func)
	}
	seg = strings.Replace(seg, m.Old, m.New, 1)
	out := append([]byte{}, src[:lo]...)
	out = append(out, seg...)
	out = append(out, src[hi:]...)
	return map[string][]byte{path: out}, nil
}

// runSelfTest runs every mutant of a property in a child process and checks
// that the expected rule fires naming the expected construct.
func runSelfTest(repo, id string) (fired, total int, notes []string, bad []string) {
	exe, _ := os.Executable()
	var mu sync.Mutex
	var wg sync.WaitGroup
	sem := make(chan struct{}, 4)
	for i := range mutants {
		m := mutants[i]
		if m.Property != id {
			continue
		}
		total++
		wg.Add(1)
		go func() {
			defer wg.Done()
			sem <- struct{}{}
			defer func() { <-sem }()
			cmd := exec.Command(exe, "-property", id, "-mutant", m.Name, "-repo", repo)
			out, err := cmd.CombinedOutput()
			mu.Lock()
			defer mu.Unlock()
			if ee, ok := err.(*exec.ExitError); ok && ee.ExitCode() == 3 {
				notes = append(notes, m.Name+": not applicable ("+strings.TrimSpace(string(out))+")")
				return
			}
			if ee, ok := err.(*exec.ExitError); ok && ee.ExitCode() == 4 {
				notes = append(notes, m.Name+": MUTANT DOES NOT COMPILE ("+strings.TrimSpace(string(out))+")")
				bad = append(bad, "mutant:"+m.Name)
				return
			}
			hit := false
			for _, line := range strings.Split(string(out), "\n") {
				if strings.HasPrefix(line, "MUTANT-FINDING rule="+m.ExpectRule+" ") && strings.Contains(line, m.ExpectConstruct) {
					hit = true
				}
			}
			if hit {
				fired++
				notes = append(notes, m.Name+": fired "+m.ExpectRule)
			} else {
				notes = append(notes, m.Name+": NOT FIRED")
				bad = append(bad, "mutant:"+m.Name)
			}
		}()
	}
	wg.Wait()
	return
}

// patchOverlay applies a stored unified diff to temporary copies of the files it touches and
// returns their patched contents keyed by their path in the repository (nothing under /repo is written).
func patchOverlay(repo, patch string) (map[string][]byte, error) {
	exe, _ := os.Executable()
	verif := filepath.Dir(filepath.Dir(exe))
	pfile := filepath.Join(verif, patch)
	diff, err := os.ReadFile(pfile)
	if err != nil {
		return nil, err
	}
	var files []string
	for _, line := range strings.Split(string(diff), "\n") {
		if strings.HasPrefix(line, "+++ b/") {
			files = append(files, strings.TrimPrefix(line, "+++ b/"))
		}
	}
	if len(files) == 0 {
		return nil, fmt.Errorf("no files in %s", patch)
	}
	tmp, err := os.MkdirTemp("", "zedcheck-seed-")
	if err != nil {
		return nil, err
	}
	defer os.RemoveAll(tmp)
	for _, f := range files {
		src, err := os.ReadFile(filepath.Join(repo, f))
		if err != nil {
			return nil, err
		}
		os.MkdirAll(filepath.Dir(filepath.Join(tmp, f)), 0o755)
		if err := os.WriteFile(filepath.Join(tmp, f), src, 0o644); err != nil {
			return nil, err
		}
	}
	cmd := exec.Command("git", "apply", "-p1", pfile)
	cmd.Dir = tmp
	cmd.Env = append(os.Environ(), "GIT_CEILING_DIRECTORIES="+filepath.Dir(tmp), "GIT_DIR=/nonexistent")
	if out, err := cmd.CombinedOutput(); err != nil {
		return nil, fmt.Errorf("seeded patch no longer applies: %s", strings.TrimSpace(string(out)))
	}
	overlay := map[string][]byte{}
	for _, f := range files {
		b, err := os.ReadFile(filepath.Join(tmp, f))
		if err != nil {
			return nil, err
		}
		overlay[filepath.Join(repo, f)] = b
	}
	return overlay, nil
}
