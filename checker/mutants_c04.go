package main

func init() {
	addMutants(
		Mutant{"C04", "c04-lakewriter-nocopy", "lake/writer.go", "Writer.Write",
			"w.vals = append(w.vals, rec.Copy())", "w.vals = append(w.vals, rec)", "C04-W2", "(*lake.Writer).Write"},
		Mutant{"C04", "c04-sortedwriter-lastkey", "lake/writer.go", "SortedWriter.Write",
			"w.lastKey.CopyFrom(key)", "w.lastKey = key", "C04-W2", "(*lake.SortedWriter).Write"},
		Mutant{"C04", "c04-datawriter-max", "lake/data/writer.go", "Writer.WriteWithKey",
			"w.object.Max.CopyFrom(key)", "w.object.Max = key", "C04-W2", "(*lake/data.Writer).Write"},
		Mutant{"C04", "c04-fuser-nocopy", "runtime/sam/op/fuse/fuser.go", "Fuser.stash",
			"rec.Copy()", "rec", "C04-W2", "(*runtime/sam/op/fuse.Fuser).Write"},
		Mutant{"C04", "c04-uniq-nocopy", "runtime/sam/op/uniq/uniq.go", "Op.appendUniq",
			"out = append(out, o.wrap(o.last))\n\to.last = t.Copy().Ptr()", "out = append(out, o.wrap(o.last))\n\to.last = t", "C04-W3", "(*runtime/sam/op/uniq.Op).Pull"},
		Mutant{"C04", "c04-finder-top-level-only", "runtime/sam/expr/fieldnamefinder.go", "FieldNameFinder.findInType",
			"\tcase *zed.TypeArray:\n\t\treturn f.findInType(typ.Type)\n", "", "C04-K1", "super.TypeArray"},
		Mutant{"C04", "c04-keep-without-want", "zio/zngio/scanner.go", "worker.scanBatch",
			"if w.wantValue(*valRef, &progress) {\n\t\t\tvalRef = batch.extend()\n\t\t}", "if w.wantValue(*valRef, &progress) || w.bufferFilter != nil {\n\t\t\tvalRef = batch.extend()\n\t\t}", "C04-P1", "scanBatch keeps a value"},
		Mutant{"C04", "c04-want-ignores-check", "zio/zngio/scanner.go", "worker.wantValue",
			"if w.filter == nil || check(w.ectx, val, w.filter) {", "if w.filter == nil || check(w.ectx, val, w.filter) || w.bufferFilter != nil {", "C04-P1", "wantValue"},
		Mutant{"C04", "c04-check-nonbool", "zio/zngio/scanner.go", "check",
			"return val.Type() == zed.TypeBool && val.Bool()", "return val.Type() != zed.TypeBool || val.Bool()", "C04-P1", "zio/zngio.check"},
		Mutant{"C04", "c04-byvalue-alias", "context.go", "Context.LookupByValue",
			"c.toValue[typ] = slices.Clone(tv)", "c.toValue[typ] = tv", "C04-W1", "LookupByValue"},
		Mutant{"C04", "c04-double-free", "zio/zngio/scanner.go", "worker.scanBatch",
			"if len(batch.Values()) == 0 {\n\t\tbatch.Unref()", "if len(batch.Values()) == 0 {\n\t\tbuf.free()\n\t\tbatch.Unref()", "C04-B1", "scanBatch"},
	)
}
