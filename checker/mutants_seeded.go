package main

// Seeded changes written independently by sub-agents (see /verif/seeded/<id>/meta.json), replayed as
// self-test mutants so that the rules that catch them stay armed.
func seeded(prop, id, rule, construct string) Mutant {
	return Mutant{Property: prop, Name: "seed-" + id, File: "patch:seeded/" + id + "/patch.diff", ExpectRule: rule, ExpectConstruct: construct}
}

func init() {
	addMutants(
		seeded("C01", "C01-1", "C01-O8", "MapperLookupCache).Reset"),
		seeded("C04", "C04-1", "C04-K2", "FieldNameFinder).Find memo"),
		seeded("C05", "C05-1", "C05-L3", "LookupTypeRecord"),
		seeded("C07", "C07-1", "C07-D6", "InputSortDir"),
		seeded("C08", "C08-1", "C08-L3", "Slicer).Pull"),
		seeded("C10", "C10-1", "C10-P2", "Union).ConsumeAsPartial"),
		seeded("C11", "C11-1", "C11-A1", "zio/zngio.newBuffer"),
		seeded("C12", "C12-1", "C12-P5", "position source"),
		seeded("C13", "C13-1", "C13-M1", "Store).Snapshot"),
		seeded("C14", "C14-1", "C14-S2", "running minimum"),
		seeded("C15", "C15-1", "C15-P3", "NewCommitObject"),
		seeded("C16", "C16-1", "C16-D1", "Deleter.KeyPruner"),
		seeded("C17", "C17-1", "C17-O6", "CreateVector"),
		seeded("C18", "C18-1", "C18-E1", "writeBlock"),
		seeded("C19", "C19-1", "C19-E3", "pipe ownership"),
		// round 2
		seeded("C01", "C01-2", "C01-O5", "scanBatch"),
		seeded("C02", "C02-1", "C02-K2", "saveType updates"),
		seeded("C03", "C03-1", "C03-B1", "dictionary insert"),
		seeded("C04", "C04-2", "C04-O7", "localctx).reset"),
		seeded("C06", "C06-1", "C06-F1", "sentinel MaxInt64"),
		seeded("C09", "C09-1", "C09-N1", "Sum).update walks Dict.Index"),
		seeded("C12", "C12-2", "C12-P3", "CommitCompact"),
		seeded("C14", "C14-2", "C14-D1", "Deleter.KeyPruner"),
		seeded("C18", "C18-2", "C18-E6", "bufwriter.Writer).Close"),
		seeded("C20", "C20-1", "C20-M1", "Fuser).Write"),
		// round 3
		seeded("C07", "C07-2", "C07-D5", ""),
		seeded("C08", "C08-2", "C08-N1", "dag.Merge"),
		seeded("C13", "C13-2", "C13-R2", "journal.Store).Lookup called from"),
		seeded("C12", "C13-2", "C12-F1", "journal.Store).Lookup called from"),
		seeded("C16", "C16-2", "C16-B2", "Close assigns object"),
		seeded("C17", "C17-2", "C17-O5", ""),
		seeded("C19", "C19-2", "C19-E4", "late-error callback"),
		seeded("C10", "C10-2", "C10-J1", "join.New sides"),
		// round 4
		seeded("C01", "C01-3", "C01-T1", "value type ID"),
		seeded("C02", "C02-2", "C02-D1", "records an observed member type"),
		seeded("C03", "C03-2", "C03-N1", "copies a bitmap word"),
		seeded("C04", "C04-3", "C04-T1", "text byte"),
		seeded("C01", "C05-2", "C01-O8", "MapperLookupCache).Reset"),
		seeded("C06", "C06-2", "C06-F2", "Compare key evaluation"),
		seeded("C09", "C09-2", "C09-G2", "returns the examiner"),
		seeded("C11", "C11-2", "C11-B1", "write through the output cursor"),
		seeded("C12", "C12-3", "C12-F1", "journal.Store).Lookup called from"),
		seeded("C14", "C14-3", "C14-S3", "sets lake.Writer.inputSorted"),
		seeded("C15", "C15-2", "C15-E2", "child delete absent from the parent"),
		seeded("C18", "C18-3", "C18-E1", ""),
		seeded("C20", "C20-2", "C20-M2", "builds a set type"),
		// round 5
		seeded("C05", "C05-3", "C05-P3", "appendTypeValue component"),
		seeded("C07", "C07-3", "C07-F1", ""),
		seeded("C04", "C07-3", "C04-F1", ""),
		seeded("C08", "C08-3", "C08-P4", "chooses the partial form"),
		seeded("C10", "C08-3", "C10-S5", "chooses the partial form"),
		seeded("C10", "C10-3", "C10-R1", "stamps a new row"),
		seeded("C11", "C11-3", "C11-O5", "Pull(done)"),
		seeded("C13", "C13-3", "C13-W1", ""),
		seeded("C16", "C16-3", "C16-R1", "extends the previous range"),
		seeded("C17", "C17-3", "C17-O1", ""),
		seeded("C18", "C18-4", "C18-E3", ""),
		seeded("C19", "C19-3", "C19-K5", "MergeBranch parameter childBranch"),
		// round 6 (C03-3, a wrong-endian hand-rolled decoder, is value-level: stored, not claimed)
		seeded("C01", "C01-4", "C01-C1", "scannerSync).Pull marks the scan finished"),
		seeded("C02", "C02-3", "C02-M1", "formatMap tests the key type"),
		seeded("C04", "C04-4", "C04-W3", "uniq.Op).Pull"),
		seeded("C06", "C06-3", "C06-M1", "reads hol["),
		seeded("C09", "C09-3", "C09-G4", "isSingleField"),
		seeded("C12", "C12-4", "C12-P4", "Store).Move"),
		seeded("C14", "C14-4", "C14-M1", "captures the first key"),
		seeded("C15", "C15-3", "C15-V1", "Revert emits"),
		seeded("C20", "C20-3", "C20-A1", "Consume records"),
		// round 7
		seeded("C05", "C05-4", "C05-P1", ""),
		seeded("C07", "C07-4", "C07-M1", "case dag.Merge"),
		seeded("C08", "C08-4", "C08-M2", "copies a sort into the legs"),
		seeded("C10", "C10-4", "C10-X1", "opens a run"),
		seeded("C13", "C13-4", "C13-V1", ""),
		seeded("C14", "C13-4", "C14-V1", ""),
		seeded("C16", "C16-4", "C16-L1", "returns before the end of the index"),
		seeded("C17", "C17-4", "C17-O4", ""),
		seeded("C19", "C19-4", "C19-E1", ""),
	)
}
