package main

import (
	"go/token"
	"go/types"
	"strings"

	"golang.org/x/tools/go/ssa"
)

// constructName names a function for obligation keys; closures are named after
// their top-level parent so that adding an unrelated closure does not rename them.
func constructName(fn *ssa.Function) string {
	if fn.Parent() == nil {
		return fnName(fn)
	}
	top := fn
	for top.Parent() != nil {
		top = top.Parent()
	}
	return fnName(top) + "$closure"
}

var sinkMethodNames = map[string]bool{
	"Write": true, "WriteString": true, "WriteByte": true, "WriteRune": true, "WriteAll": true,
	"Close": true, "Flush": true, "Sync": true, "EndStream": true, "WriteControl": true,
	"WriteBatch": true, "Put": true, "PutIfNotExists": true, "ReadFrom": true,
}

var infallibleWriters = map[string]string{
	"*bytes.Buffer":    "bytes.Buffer writes cannot fail (they panic on OOM)",
	"*strings.Builder": "strings.Builder writes cannot fail",
	"hash.Hash":        "hash.Hash.Write never returns an error",
	"hash.Hash64":      "hash.Hash.Write never returns an error",
	"*bufio.Writer":    "bufio.Writer write errors are sticky and resurface at Flush, which is an obligation of its own",
}

// functions that write only to their io.Writer argument.
var writerArgFuncs = map[string]bool{
	"io.WriteString": true, "fmt.Fprintf": true, "fmt.Fprint": true, "fmt.Fprintln": true, "io.Copy": true,
	"(*pkg/terminal/color.Stack).Start": true, "(*pkg/terminal/color.Stack).End": true,
	"encoding/binary.Write": true,
}

// sinkSet: which module functions can return an error that originates at an
// output sink (transitively contain a primitive sink call).
type sinkSet struct {
	p     *Prog
	fn    map[*ssa.Function]bool
	impls map[*types.Func][]*ssa.Function
}

func newSinkSet(p *Prog) *sinkSet {
	s := &sinkSet{p: p, fn: map[*ssa.Function]bool{}, impls: map[*types.Func][]*ssa.Function{}}
	changed := true
	for changed {
		changed = false
		for _, f := range p.Funcs {
			if s.fn[f] {
				continue
			}
			hit := false
			for _, ci := range allCalls(f) {
				if s.isSinkCall(ci.Common()) {
					hit = true
					break
				}
			}
			if !hit {
				for _, b := range f.Blocks {
					for _, in := range b.Instrs {
						if mc, ok := in.(*ssa.MakeClosure); ok {
							if g, ok := mc.Fn.(*ssa.Function); ok && s.fn[g] {
								hit = true
							}
						}
					}
				}
			}
			if hit {
				s.fn[f] = true
				changed = true
			}
		}
	}
	return s
}

func writerArgInfallible(cc *ssa.CallCommon) (isWriterArgFunc, infallible bool) {
	name := calleeName(cc)
	if !writerArgFuncs[name] {
		return false, false
	}
	args := cc.Args
	for _, a := range args {
		t := stripConv(a).Type()
		ts := short(t.String())
		if _, ok := infallibleWriters[ts]; ok && ts != "*bufio.Writer" {
			return true, true
		}
		if ts == "*bufio.Writer" {
			return true, true
		}
	}
	return true, false
}

// isSinkCall: the call can return an error produced by an output sink.
func (s *sinkSet) isSinkCall(cc *ssa.CallCommon) bool {
	if errIndex(cc.Signature()) < 0 {
		return false
	}
	if rt := recvTypeString(cc); rt == "*bufio.Writer" && calleeBare(cc) == "Flush" {
		return true
	} else if _, ok := infallibleWriters[rt]; ok {
		return false
	}
	if isWA, inf := writerArgInfallible(cc); isWA {
		return !inf
	}
	if cc.IsInvoke() {
		if sinkMethodNames[cc.Method.Name()] {
			return true
		}
		// interface method with a module implementer on the sink path
		for _, g := range s.implementers(cc) {
			if s.fn[g] {
				return true
			}
		}
		return false
	}
	f := cc.StaticCallee()
	if f == nil {
		return false
	}
	if o := f.Origin(); o != nil {
		f = o
	}
	if f.Blocks == nil || !strings.HasPrefix(pkgPathOf(f), modPath) {
		// outside the module: writer-ish methods of stdlib / third-party types
		return f.Signature.Recv() != nil && sinkMethodNames[f.Name()]
	}
	return s.fn[f]
}

func pkgPathOf(f *ssa.Function) string {
	for q := f; q != nil; q = q.Parent() {
		if q.Pkg != nil {
			return q.Pkg.Pkg.Path()
		}
	}
	return ""
}

var implCache = map[*types.Func][]*ssa.Function{}

// implementersOfCall resolves an interface call to the module methods that can
// be its target (CHA over the module's named types).
func (p *Prog) implementersOfCall(cc *ssa.CallCommon) []*ssa.Function {
	if r, ok := implCache[cc.Method]; ok {
		return r
	}
	var out []*ssa.Function
	iface, _ := cc.Value.Type().Underlying().(*types.Interface)
	if iface != nil {
		for _, f := range p.Funcs {
			if f.Parent() != nil || f.Signature.Recv() == nil || f.Name() != cc.Method.Name() {
				continue
			}
			if types.Implements(f.Signature.Recv().Type(), iface) {
				out = append(out, f)
			}
		}
	}
	implCache[cc.Method] = out
	return out
}

// implementers resolves an interface call to the module methods that can be
// its target (CHA over the module's named types).
func (s *sinkSet) implementers(cc *ssa.CallCommon) []*ssa.Function {
	if r, ok := s.impls[cc.Method]; ok {
		return r
	}
	var out []*ssa.Function
	iface, _ := cc.Value.Type().Underlying().(*types.Interface)
	if iface != nil {
		for _, f := range s.p.Funcs {
			if f.Parent() != nil || f.Signature.Recv() == nil || f.Name() != cc.Method.Name() {
				continue
			}
			rt := f.Signature.Recv().Type()
			if types.Implements(rt, iface) {
				out = append(out, f)
			}
		}
	}
	s.impls[cc.Method] = out
	return out
}

// onErrorPath: the call sits on a path that is only taken when an error value
// is non-nil, and every return reachable from it returns a non-nil-constant
// error: the classic "clean up, then return err" idiom.
func onErrorPath(ci ssa.CallInstruction) bool {
	in := ci.(ssa.Instruction)
	fn := in.Parent()
	if errIndex(fn.Signature) < 0 {
		return false
	}
	b := in.Block()
	guarded := false
	for _, blk := range fn.Blocks {
		if len(blk.Instrs) == 0 {
			continue
		}
		iff, ok := blk.Instrs[len(blk.Instrs)-1].(*ssa.If)
		if !ok {
			continue
		}
		cmp, ok := iff.Cond.(*ssa.BinOp)
		if !ok || !(isNilConst(cmp.X) || isNilConst(cmp.Y)) {
			continue
		}
		v := cmp.X
		if isNilConst(v) {
			v = cmp.Y
		}
		if !isError(v.Type()) {
			continue
		}
		var arm *ssa.BasicBlock
		if cmp.Op == token.NEQ {
			arm = blk.Succs[0]
		} else if cmp.Op == token.EQL {
			arm = blk.Succs[1]
		}
		if arm != nil && len(arm.Preds) == 1 && arm.Dominates(b) {
			guarded = true
			break
		}
	}
	if !guarded {
		return false
	}
	idx := errIndex(fn.Signature)
	bad := reachAvoiding(fn, in, func(ssa.Instruction) bool { return false }, func(x ssa.Instruction) bool {
		r, ok := x.(*ssa.Return)
		return ok && isNilConst(returnOperand(r, idx))
	})
	return bad == nil
}
