package main

import (
	"go/types"

	"golang.org/x/tools/go/ssa"
)

// Round 14.

// ---- C08-X1 / C07-X1: an operator is placed into parallel legs only after its expressions were
// examined for aggregate functions.
//
// An aggregate function called in an expression (`put c:=count()`) keeps state from one value to
// the next.  An operator holding such an expression computes something else on every leg of a
// scatter than on the whole input, so the optimizer may copy a general expression-bearing operator
// (put, cut, filter, yield, ... — everything but the kinds it splits by a dedicated protocol) into
// parallel legs only if it has looked: the two places that do the copying must be governed by a
// test whose condition derives from a call that receives the operator and reaches a type test for
// *dag.Agg.  Without such an examination a stateful put is indistinguishable from a stateless one,
// whatever else the code does, so the condition is necessary for the property.
func runStatefulNotParallel(c *Ctx, rule string) {
	p := c.P
	c.Rule(rule, "stateful expressions stay sequential: in compiler/optimizer, (1) the step of concurrentPath that lets a general operator join the scatter legs (the analyzeSortKeys call of the default arm) and (2) every copyOp of an operator of a multi-kind case of liftIntoParPaths are dominated by a test whose condition derives from a call that receives the operator and reaches a type test for *dag.Agg")
	// which functions of the package reach a type test for *dag.Agg (depth-bounded, static calls
	// inside the package)?
	inspects := map[*ssa.Function]bool{}
	isAggPtr := func(t types.Type) bool {
		pt, ok := t.(*types.Pointer)
		return ok && namedOf(pt.Elem()) == "compiler/ast/dag.Agg"
	}
	var reaches func(fn *ssa.Function, depth int, seen map[*ssa.Function]bool) bool
	reaches = func(fn *ssa.Function, depth int, seen map[*ssa.Function]bool) bool {
		if fn == nil || fn.Blocks == nil || seen[fn] || depth > 4 {
			return false
		}
		seen[fn] = true
		for _, b := range fn.Blocks {
			for _, in := range b.Instrs {
				switch x := in.(type) {
				case *ssa.TypeAssert:
					if isAggPtr(x.AssertedType) {
						return true
					}
				case ssa.CallInstruction:
					callee := x.Common().StaticCallee()
					if callee != nil && p.PkgOf(callee) == "compiler/optimizer" && reaches(callee, depth+1, seen) {
						return true
					}
				}
			}
		}
		for _, an := range fn.AnonFuncs {
			if reaches(an, depth+1, seen) {
				return true
			}
		}
		return false
	}
	for _, fn := range p.FuncsIn("compiler/optimizer") {
		if reaches(fn, 0, map[*ssa.Function]bool{}) {
			inspects[fn] = true
		}
	}
	// governed(site, op): some block that dominates site ends in an If whose condition derives from
	// a call of an inspecting function.
	governed := func(site ssa.Instruction) (bool, string) {
		for b := site.Block(); b != nil; b = b.Idom() {
			if len(b.Instrs) == 0 {
				continue
			}
			iff, ok := b.Instrs[len(b.Instrs)-1].(*ssa.If)
			if !ok || b == site.Block() {
				continue
			}
			var via string
			if dependsOn(iff.Cond, func(v ssa.Value) bool {
				call, ok := v.(*ssa.Call)
				if !ok {
					return false
				}
				callee := call.Common().StaticCallee()
				if callee != nil && inspects[callee] {
					via = fnName(callee)
					return true
				}
				return false
			}) {
				return true, via
			}
		}
		return false, ""
	}
	n := 0
	// (1) concurrentPath
	const cpName = "(*compiler/optimizer.Optimizer).concurrentPath"
	if fn := p.Func(cpName); fn == nil {
		c.Undecided(rule, cpName, "anchor does not resolve")
	} else {
		sites := callsTo(fn, "(*compiler/optimizer.Optimizer).analyzeSortKeys")
		if len(sites) == 0 {
			c.Undecided(rule, cpName, "the step that extends the concurrent path over a general operator (analyzeSortKeys call) was not found")
		}
		for _, s := range sites {
			n++
			construct := cpName + " extends the concurrent path over a general operator"
			if inspects[s.Common().StaticCallee()] {
				c.OK(rule, construct, s.Pos(), "analyzeSortKeys itself examines the operator for aggregate expressions")
			} else if ok, via := governed(s); ok {
				c.OK(rule, construct, s.Pos(), "governed by a test on "+via)
			} else {
				c.Fail(rule, construct, s.Pos(), "the operator joins the scatter legs without having been examined for aggregate functions in its expressions: `from pool | put c:=count()` numbers the values per leg at parallelism > 1 and over the whole input at parallelism 1")
			}
		}
	}
	// (2) liftIntoParPaths: copyOp of an operator that is still of interface type (a case listing
	// several kinds); the single-kind cases (summarize, sort, head, tail) have their own rules.
	const liftName = "(*compiler/optimizer.Optimizer).liftIntoParPaths"
	if fn := p.Func(liftName); fn == nil {
		c.Undecided(rule, liftName, "anchor does not resolve")
	} else {
		m := 0
		for _, s := range callsTo(fn, "compiler/optimizer.copyOp") {
			args := s.Common().Args
			if len(args) != 1 {
				continue
			}
			if _, ok := args[0].(*ssa.MakeInterface); ok {
				continue // a single concrete kind
			}
			// the kinds of the case: type tests whose true edge leads to a block dominating the copy
			bears := false
			kinds := 0
			for _, b := range fn.Blocks {
				if len(b.Instrs) == 0 {
					continue
				}
				iff, ok := b.Instrs[len(b.Instrs)-1].(*ssa.If)
				if !ok {
					continue
				}
				ex, ok := iff.Cond.(*ssa.Extract)
				if !ok || ex.Index != 1 {
					continue
				}
				ta, ok := ex.Tuple.(*ssa.TypeAssert)
				if !ok {
					continue
				}
				if succ := b.Succs[0]; succ == s.Block() || succ.Dominates(s.Block()) {
					kinds++
					if typeBearsExpr(ta.AssertedType, map[types.Type]bool{}) {
						bears = true
					}
				}
			}
			if kinds > 0 && !bears {
				continue // e.g. head/tail: no expression to examine
			}
			m++
			n++
			construct := liftName + " copies an operator of a multi-kind case into the legs"
			if ok, via := governed(s); ok {
				c.OK(rule, construct, s.Pos(), "governed by a test on "+via)
			} else {
				c.Fail(rule, construct, s.Pos(), "a cut/drop/put/rename/filter that follows a fork or scatter is copied into every leg without having been examined for aggregate functions in its expressions: each leg keeps its own aggregate state, so the result depends on how the input was split")
			}
		}
		if m == 0 {
			c.Undecided(rule, liftName, "no copyOp of a multi-kind case found")
		}
	}
	c.extra(rule+"_inspecting_functions", len(inspects))
	_ = n
}

// typeBearsExpr: a value of type t can hold a dag.Expr.
func typeBearsExpr(t types.Type, seen map[types.Type]bool) bool {
	if seen[t] {
		return false
	}
	seen[t] = true
	if namedOf(t) == "compiler/ast/dag.Expr" {
		return true
	}
	switch u := t.Underlying().(type) {
	case *types.Pointer:
		return typeBearsExpr(u.Elem(), seen)
	case *types.Slice:
		return typeBearsExpr(u.Elem(), seen)
	case *types.Array:
		return typeBearsExpr(u.Elem(), seen)
	case *types.Struct:
		for i := 0; i < u.NumFields(); i++ {
			if typeBearsExpr(u.Field(i).Type(), seen) {
				return true
			}
		}
	}
	return false
}
