package main

import (
	"go/types"

	"golang.org/x/tools/go/ssa"
)

// Round 14.

// ---- C08-X1 / C07-X1: an operator is placed into parallel legs only after its expressions were
// examined for aggregate functions.
//
// An aggregate function called in an expression (`put c:=count()`) keeps state from one value to
// the next.  An operator holding such an expression computes something else on every leg of a
// scatter than on the whole input, so the optimizer may copy a general expression-bearing operator
// (put, cut, filter, yield, ... — everything but the kinds it splits by a dedicated protocol) into
// parallel legs only if it has looked: the two places that do the copying must be governed by a
// test whose condition derives from a call that receives the operator and reaches a type test for
// *dag.Agg.  Without such an examination a stateful put is indistinguishable from a stateless one,
// whatever else the code does, so the condition is necessary for the property.
func runStatefulNotParallel(c *Ctx, rule string) {
	p := c.P
	c.Rule(rule, "stateful expressions stay sequential: in compiler/optimizer, (1) the step of concurrentPath that lets a general operator join the scatter legs (the analyzeSortKeys call of the default arm) and (2) every copyOp of an operator of a multi-kind case of liftIntoParPaths are dominated by a test whose condition derives from a call that receives the operator and reaches a type test for *dag.Agg")
	// which functions of the package reach a type test for *dag.Agg (depth-bounded, static calls
	// inside the package)?
	inspects := map[*ssa.Function]bool{}
	isAggPtr := func(t types.Type) bool {
		pt, ok := t.(*types.Pointer)
		return ok && namedOf(pt.Elem()) == "compiler/ast/dag.Agg"
	}
	var reaches func(fn *ssa.Function, depth int, seen map[*ssa.Function]bool) bool
	reaches = func(fn *ssa.Function, depth int, seen map[*ssa.Function]bool) bool {
		if fn == nil || fn.Blocks == nil || seen[fn] || depth > 4 {
			return false
		}
		seen[fn] = true
		for _, b := range fn.Blocks {
			for _, in := range b.Instrs {
				switch x := in.(type) {
				case *ssa.TypeAssert:
					if isAggPtr(x.AssertedType) {
						return true
					}
				case ssa.CallInstruction:
					callee := x.Common().StaticCallee()
					if callee != nil && p.PkgOf(callee) == "compiler/optimizer" && reaches(callee, depth+1, seen) {
						return true
					}
				}
			}
		}
		for _, an := range fn.AnonFuncs {
			if reaches(an, depth+1, seen) {
				return true
			}
		}
		return false
	}
	for _, fn := range p.FuncsIn("compiler/optimizer") {
		if reaches(fn, 0, map[*ssa.Function]bool{}) {
			inspects[fn] = true
		}
	}
	// governed(site, op): some block that dominates site ends in an If whose condition derives from
	// a call of an inspecting function.
	governed := func(site ssa.Instruction) (bool, string) {
		for b := site.Block(); b != nil; b = b.Idom() {
			if len(b.Instrs) == 0 {
				continue
			}
			iff, ok := b.Instrs[len(b.Instrs)-1].(*ssa.If)
			if !ok || b == site.Block() {
				continue
			}
			var via string
			if dependsOn(iff.Cond, func(v ssa.Value) bool {
				call, ok := v.(*ssa.Call)
				if !ok {
					return false
				}
				callee := call.Common().StaticCallee()
				if callee != nil && inspects[callee] {
					via = fnName(callee)
					return true
				}
				return false
			}) {
				return true, via
			}
		}
		return false, ""
	}
	n := 0
	// (1) concurrentPath
	const cpName = "(*compiler/optimizer.Optimizer).concurrentPath"
	if fn := p.Func(cpName); fn == nil {
		c.Undecided(rule, cpName, "anchor does not resolve")
	} else {
		sites := callsTo(fn, "(*compiler/optimizer.Optimizer).analyzeSortKeys")
		if len(sites) == 0 {
			c.Undecided(rule, cpName, "the step that extends the concurrent path over a general operator (analyzeSortKeys call) was not found")
		}
		for _, s := range sites {
			n++
			construct := cpName + " extends the concurrent path over a general operator"
			if inspects[s.Common().StaticCallee()] {
				c.OK(rule, construct, s.Pos(), "analyzeSortKeys itself examines the operator for aggregate expressions")
			} else if ok, via := governed(s); ok {
				c.OK(rule, construct, s.Pos(), "governed by a test on "+via)
			} else {
				c.Fail(rule, construct, s.Pos(), "the operator joins the scatter legs without having been examined for aggregate functions in its expressions: `from pool | put c:=count()` numbers the values per leg at parallelism > 1 and over the whole input at parallelism 1")
			}
		}
	}
	// (2) liftIntoParPaths: copyOp of an operator that is still of interface type (a case listing
	// several kinds); the single-kind cases (summarize, sort, head, tail) have their own rules.
	const liftName = "(*compiler/optimizer.Optimizer).liftIntoParPaths"
	if fn := p.Func(liftName); fn == nil {
		c.Undecided(rule, liftName, "anchor does not resolve")
	} else {
		m := 0
		for _, s := range callsTo(fn, "compiler/optimizer.copyOp") {
			args := s.Common().Args
			if len(args) != 1 {
				continue
			}
			if _, ok := args[0].(*ssa.MakeInterface); ok {
				continue // a single concrete kind
			}
			// the kinds of the case: type tests whose true edge leads to a block dominating the copy
			bears := false
			kinds := 0
			for _, b := range fn.Blocks {
				if len(b.Instrs) == 0 {
					continue
				}
				iff, ok := b.Instrs[len(b.Instrs)-1].(*ssa.If)
				if !ok {
					continue
				}
				ex, ok := iff.Cond.(*ssa.Extract)
				if !ok || ex.Index != 1 {
					continue
				}
				ta, ok := ex.Tuple.(*ssa.TypeAssert)
				if !ok {
					continue
				}
				if succ := b.Succs[0]; succ == s.Block() || succ.Dominates(s.Block()) {
					kinds++
					if typeBearsExpr(ta.AssertedType, map[types.Type]bool{}) {
						bears = true
					}
				}
			}
			if kinds > 0 && !bears {
				continue // e.g. head/tail: no expression to examine
			}
			m++
			n++
			construct := liftName + " copies an operator of a multi-kind case into the legs"
			if ok, via := governed(s); ok {
				c.OK(rule, construct, s.Pos(), "governed by a test on "+via)
			} else {
				c.Fail(rule, construct, s.Pos(), "a cut/drop/put/rename/filter that follows a fork or scatter is copied into every leg without having been examined for aggregate functions in its expressions: each leg keeps its own aggregate state, so the result depends on how the input was split")
			}
		}
		if m == 0 {
			c.Undecided(rule, liftName, "no copyOp of a multi-kind case found")
		}
	}
	c.extra(rule+"_inspecting_functions", len(inspects))
	_ = n
}

// typeBearsExpr: a value of type t can hold a dag.Expr.
func typeBearsExpr(t types.Type, seen map[types.Type]bool) bool {
	if seen[t] {
		return false
	}
	seen[t] = true
	if namedOf(t) == "compiler/ast/dag.Expr" {
		return true
	}
	switch u := t.Underlying().(type) {
	case *types.Pointer:
		return typeBearsExpr(u.Elem(), seen)
	case *types.Slice:
		return typeBearsExpr(u.Elem(), seen)
	case *types.Array:
		return typeBearsExpr(u.Elem(), seen)
	case *types.Struct:
		for i := 0; i < u.NumFields(); i++ {
			if typeBearsExpr(u.Field(i).Type(), seen) {
				return true
			}
		}
	}
	return false
}

// ---- C15-A1: a merge of histories that share no commit is refused.
//
// Branch.buildMergeObject patches the child's commits since the common ancestor onto the parent.
// If the two leaf-to-root paths share no commit (a branch created while main was empty) there is
// no base to diff against, and PatchOfPath treats the last element of the path it is given as
// the base and skips it: whatever commonAncestor returns in that case, other than "none", makes
// the merge succeed with the child's first commit missing.  Necessary shape: (a) commonAncestor
// can report "none" (ksuid.Nil) for two non-empty paths — some return of ksuid.Nil is not confined
// to the empty-input edge of a len test; (b) its caller compares the result with ksuid.Nil and
// returns a non-nil error on the equal edge.
func runCommonAncestorNone(c *Ctx, rule string) {
	p := c.P
	c.Rule(rule, "unrelated histories are refused: lake.commonAncestor has a return of ksuid.Nil that is reachable when both paths are non-empty, and every caller compares the result with ksuid.Nil and returns an error on the equal edge")
	fn := p.Func("lake.commonAncestor")
	if fn == nil {
		c.Undecided(rule, "lake.commonAncestor", "anchor does not resolve")
		return
	}
	isNilID := func(v ssa.Value) bool {
		u, ok := v.(*ssa.UnOp)
		if !ok {
			return false
		}
		g, ok := u.X.(*ssa.Global)
		return ok && g.Name() == "Nil" && g.Pkg != nil && g.Pkg.Pkg.Path() == "github.com/segmentio/ksuid"
	}
	// blocks reachable from the entry without taking the "is empty" edge of a len(x) == 0 / len(x) < 1 test
	emptyEdge := func(b *ssa.BasicBlock) int { // index of the successor taken when the input is empty, or -1
		if len(b.Instrs) == 0 {
			return -1
		}
		iff, ok := b.Instrs[len(b.Instrs)-1].(*ssa.If)
		if !ok {
			return -1
		}
		bo, ok := iff.Cond.(*ssa.BinOp)
		if !ok {
			return -1
		}
		isLen := func(v ssa.Value) bool {
			call, ok := v.(*ssa.Call)
			if !ok {
				return false
			}
			b, ok := call.Call.Value.(*ssa.Builtin)
			return ok && b.Name() == "len"
		}
		isZero := func(v ssa.Value) bool {
			k, ok := v.(*ssa.Const)
			return ok && k.Value != nil && k.Value.ExactString() == "0"
		}
		switch {
		case isLen(bo.X) && isZero(bo.Y) && bo.Op.String() == "==":
			return 0
		case isLen(bo.X) && isZero(bo.Y) && (bo.Op.String() == "!=" || bo.Op.String() == ">"):
			return 1
		case isZero(bo.X) && isLen(bo.Y) && bo.Op.String() == "==":
			return 0
		case isZero(bo.X) && isLen(bo.Y) && (bo.Op.String() == "!=" || bo.Op.String() == "<"):
			return 1
		}
		return -1
	}
	seen := map[*ssa.BasicBlock]bool{}
	var walk func(b *ssa.BasicBlock)
	walk = func(b *ssa.BasicBlock) {
		if seen[b] {
			return
		}
		seen[b] = true
		skip := emptyEdge(b)
		for i, s := range b.Succs {
			if i != skip {
				walk(s)
			}
		}
	}
	if len(fn.Blocks) > 0 {
		walk(fn.Blocks[0])
	}
	found := false
	var anyRet ssa.Instruction
	for _, b := range fn.Blocks {
		for _, in := range b.Instrs {
			ret, ok := in.(*ssa.Return)
			if !ok || len(ret.Results) == 0 {
				continue
			}
			anyRet = ret
			v := returnOperand(ret, 0)
			nilish := isNilID(v)
			if phi, ok := v.(*ssa.Phi); ok {
				for k, e := range phi.Edges {
					if isNilID(e) && seen[phi.Block().Preds[k]] {
						nilish = true
					}
				}
			}
			if nilish && seen[b] {
				found = true
			}
		}
	}
	construct := "lake.commonAncestor reports that two non-empty paths share no commit"
	if anyRet == nil {
		c.Undecided(rule, "lake.commonAncestor", "no return found")
	} else if found {
		c.OK(rule, construct, anyRet.Pos(), "a return of ksuid.Nil is reachable past the emptiness tests")
	} else {
		c.Fail(rule, construct, fn.Pos(), "no return of ksuid.Nil is reachable when both paths are non-empty: for a child branch created while the parent was empty the function names some commit as the common ancestor, the guard of buildMergeObject does not fire, PatchOfPath skips the child's first commit as the base, and the merge succeeds with that commit's data missing from the parent")
	}
	// callers
	n := 0
	for _, caller := range p.FuncsIn("lake") {
		for _, ci := range callsTo(caller, "lake.commonAncestor") {
			call, ok := ci.(*ssa.Call)
			if !ok {
				continue
			}
			n++
			construct := fnName(caller) + " refuses a merge without a common ancestor"
			ok2 := false
			for _, b := range caller.Blocks {
				if len(b.Instrs) == 0 {
					continue
				}
				iff, isIf := b.Instrs[len(b.Instrs)-1].(*ssa.If)
				if !isIf {
					continue
				}
				bo, isBo := iff.Cond.(*ssa.BinOp)
				if !isBo || !((bo.X == ssa.Value(call) && isNilID(bo.Y)) || (bo.Y == ssa.Value(call) && isNilID(bo.X))) {
					continue
				}
				edge := 0
				if bo.Op.String() == "!=" {
					edge = 1
				}
				// every return reachable from that edge's block head, before any join with the other edge, carries a non-nil error
				tgt := b.Succs[edge]
				good := true
				hasRet := false
				for _, in := range tgt.Instrs {
					if ret, isRet := in.(*ssa.Return); isRet {
						hasRet = true
						ei := errIndex(caller.Signature)
						if ei < 0 || isNilConst(returnOperand(ret, ei)) {
							good = false
						}
					}
				}
				if hasRet && good {
					ok2 = true
				}
			}
			if ok2 {
				c.OK(rule, construct, ci.Pos(), "the result is compared with ksuid.Nil and the equal edge returns an error")
			} else {
				c.Fail(rule, construct, ci.Pos(), "the result of commonAncestor is not compared with ksuid.Nil on an edge that returns an error: a merge of unrelated histories goes on to diff against the empty snapshot of the nil commit")
			}
		}
	}
	if n == 0 {
		c.Undecided(rule, "lake.commonAncestor", "no caller found")
	}
}

// ---- C14-P3 (= C12-P6): a patch mutator's refusal ends the commit attempt.
//
// commits.Patch.DeleteObject / AddDataObject / AddVector / DeleteVector refuse a change that does
// not fit the tip the patch was built on (delete of an object that is not there, add of one that
// is).  In the constructors of lake.Branch that refusal is the only conflict check between the
// snapshot an operation computed its result from and the tip it commits on; a constructor that
// goes on after it (skipping the object, continuing the loop) commits a result computed from a
// stale snapshot.  From every edge on which the mutator's error is known non-nil, neither a
// return with a nil error nor another execution of the call is reachable.
var patchRefusalExempt = map[string]string{
	"(*lake.Branch).DeleteWhere$closure -> (*lake/commits.Patch).DeleteObject":  "the deletion set was computed, in this constructor call, by scanning the very commit whose snapshot the patch is built on: every id is in the base",
	"(*lake.Branch).DeleteWhere$closure -> (*lake/commits.Patch).AddDataObject": "the objects were written by this constructor call under fresh ids: none is in the base",
}

func runPatchRefusalIsFatal(c *Ctx, rule string) {
	p := c.P
	c.Rule(rule, "a patch mutator's refusal ends the commit attempt: in package lake, from every edge on which the error of commits.Patch.DeleteObject/AddDataObject/AddVector/DeleteVector is known non-nil, no return with a nil error and no further execution of that call is reachable")
	mut := map[string]bool{
		"(*lake/commits.Patch).DeleteObject":  true,
		"(*lake/commits.Patch).AddDataObject": true,
		"(*lake/commits.Patch).AddVector":     true,
		"(*lake/commits.Patch).DeleteVector":  true,
	}
	n := 0
	for _, fn := range p.FuncsIn("lake") {
		if fn.Blocks == nil {
			continue
		}
		idx := errIndex(fn.Signature)
		for _, ci := range allCalls(fn) {
			cc := ci.Common()
			if !mut[calleeName(cc)] {
				continue
			}
			n++
			construct := constructName(fn) + " -> " + calleeName(cc)
			v := errValueOf(ci)
			if r, ok := patchRefusalExempt[construct]; ok && v == nil {
				c.OK(rule, construct, ci.Pos(), "exempt: "+r)
				continue
			}
			if v == nil || idx < 0 {
				c.Fail(rule, construct, ci.Pos(), "the error of the patch mutator is discarded or cannot be returned")
				continue
			}
			var bad ssa.Instruction
			for _, e := range nonNilEdges(v) {
				ib, to := e.from, e.to
				first := true
				hit := reachAvoidingEdges(fn, ib.Instrs[len(ib.Instrs)-1],
					func(x ssa.Instruction) bool { return false },
					func(x ssa.Instruction) bool {
						if x == ci.(ssa.Instruction) {
							return true
						}
						ret, ok := x.(*ssa.Return)
						return ok && isNilConst(returnOperand(ret, idx))
					},
					func(a, b *ssa.BasicBlock) bool {
						if a == ib && first {
							return b == to
						}
						return true
					})
				_ = first
				if hit != nil {
					bad = hit
				}
			}
			if bad == nil {
				c.OK(rule, construct, ci.Pos(), "every failing edge ends in an error return")
			} else {
				c.Fail(rule, construct, bad.Pos(), "after "+calleeName(cc)+" refused the change the constructor can go on ("+p.Pos(bad.Pos())+"): the refusal is the only check that the tip still holds what the operation read, so e.g. a compaction whose source object was deleted meanwhile still commits its rollup and the deleted values reappear")
			}
		}
	}
	c.Floor(rule, 6)
	_ = n
}

// ---- C18-E7: an error carried around a loop is not overwritten by a later iteration.
//
// A loop that closes or flushes several outputs and reports one error at the end keeps that error
// in a variable that lives across iterations (a phi at the loop header).  If the value coming
// round the back edge is the fresh result of this iteration — not merged with the old value, and
// not known nil on that edge — a failure of an earlier iteration is replaced by a later success.
func runLoopErrorNotOverwritten(c *Ctx, rule string, pkgs ...string) {
	p := c.P
	c.Rule(rule, "an error carried around a loop survives later iterations: for every error-typed phi at a loop header on the write path, the value arriving on a back edge is merged with the old value (its phi chain contains the header phi) or is known nil on that edge (the back edge is dominated by the nil edge of a test of it)")
	n := 0
	for _, fn := range p.FuncsIn(pkgs...) {
		if fn.Blocks == nil {
			continue
		}
		for _, h := range fn.Blocks {
			for _, in := range h.Instrs {
				phi, ok := in.(*ssa.Phi)
				if !ok {
					break
				}
				if !isError(phi.Type()) || phi.Referrers() == nil || len(*phi.Referrers()) == 0 {
					continue
				}
				for k, pred := range h.Preds {
					if !h.Dominates(pred) {
						continue // not a back edge
					}
					v := phi.Edges[k]
					if isNilConst(v) {
						continue
					}
					n++
					construct := constructName(fn) + " carries " + phi.Comment + " around a loop"
					// merged with the old value?
					seen := map[ssa.Value]bool{}
					var has func(x ssa.Value) bool
					has = func(x ssa.Value) bool {
						if x == ssa.Value(phi) {
							return true
						}
						if seen[x] {
							return false
						}
						seen[x] = true
						if q, ok := x.(*ssa.Phi); ok {
							for _, e := range q.Edges {
								if has(e) {
									return true
								}
							}
						}
						return false
					}
					if has(v) {
						c.OK(rule, construct, phi.Pos(), "the back-edge value merges the old value")
						continue
					}
					// known nil on the back edge?
					knownNil := false
					if v.Referrers() != nil {
						for _, r := range *v.Referrers() {
							bo, ok := r.(*ssa.BinOp)
							if !ok || !(isNilConst(bo.X) || isNilConst(bo.Y)) {
								continue
							}
							for _, rr := range *bo.Referrers() {
								iff, ok := rr.(*ssa.If)
								if !ok {
									continue
								}
								nilEdge := 0
								if bo.Op.String() == "!=" {
									nilEdge = 1
								}
								s := iff.Block().Succs[nilEdge]
								if (s == pred || s.Dominates(pred) || s == h) && len(s.Preds) >= 1 {
									knownNil = true
								}
							}
						}
					}
					if knownNil {
						c.OK(rule, construct, phi.Pos(), "the loop continues only while the fresh error is nil")
						continue
					}
					// is the old value examined in the loop before it is replaced (tested or returned)?
					examined := false
					for _, r := range *phi.Referrers() {
						switch x := r.(type) {
						case *ssa.BinOp:
							if (isNilConst(x.X) || isNilConst(x.Y)) && h.Dominates(x.Block()) {
								examined = true
							}
						}
					}
					if examined {
						c.OK(rule, construct, phi.Pos(), "the carried error is tested inside the loop")
						continue
					}
					c.Fail(rule, construct, v.Pos(), "the error kept across iterations is replaced by the result of the latest iteration whatever it held: when one output fails to flush and a later one closes cleanly, nil is reported and the truncated output is taken for written")
				}
			}
		}
	}
	c.extra(rule+"_loop_carried_errors", n)
}
