package main

func init() {
	addMutants(
		Mutant{"C09", "c09-sum-without-guard", "compiler/optimizer/vam.go", "Optimizer.Vectorize",
			"if ok, err := o.isScanWithVectors(seq[0]); !ok || err != nil {\n\t\t\treturn seq, err\n\t\t}\n\t\tif _, ok := IsCountByString(seq[1]); ok {", "if _, ok := IsSum(seq[1]); ok {\n\t\t\tif _, isScan := seq[0].(*dag.SeqScan); isScan {\n\t\t\t\treturn vectorize(seq, 2), nil\n\t\t\t}\n\t\t}\n\t\tif ok, err := o.isScanWithVectors(seq[0]); !ok || err != nil {\n\t\t\treturn seq, err\n\t\t}\n\t\tif _, ok := IsCountByString(seq[1]); ok {", "C09-G1", "vectorize #"},
		Mutant{"C09", "c09-any-object-has-vector", "compiler/optimizer/vam.go", "Optimizer.isScanWithVectors",
			"if !snap.HasVector(obj.ID) {\n\t\t\treturn false, nil\n\t\t}\n\t}\n\treturn true, nil", "if snap.HasVector(obj.ID) {\n\t\t\treturn true, nil\n\t\t}\n\t}\n\treturn false, nil", "C09-G1", "isScanWithVectors"},
		Mutant{"C09", "c09-no-hasvector-check", "compiler/optimizer/vam.go", "Optimizer.isScanWithVectors",
			"for _, obj := range objects {\n\t\tif !snap.HasVector(obj.ID) {\n\t\t\treturn false, nil\n\t\t}\n\t}", "for _, obj := range objects {\n\t\t_ = obj\n\t}", "C09-G1", "isScanWithVectors"},
		Mutant{"C09", "c09-empty-pool-vectorized", "compiler/optimizer/vam.go", "Optimizer.isScanWithVectors",
			"if len(objects) == 0 {\n\t\treturn false, nil\n\t}\n", "", "C09-G1", "isScanWithVectors"},
		Mutant{"C09", "c09-sum-default-panics", "runtime/vam/op/agg.go", "Sum.update",
			"\t\t\tfor k, val := range number.Values {\n\t\t\t\tc.sum += int64(val) * int64(vec.Counts[k])\n\t\t\t}\n\t\t}\n\t}", "\t\t\tfor k, val := range number.Values {\n\t\t\t\tc.sum += int64(val) * int64(vec.Counts[k])\n\t\t\t}\n\t\t}\n\tdefault:\n\t\tpanic(vec)\n\t}", "C09-X1", "(*runtime/vam/op.Sum).update dispatch"},
		Mutant{"C09", "c09-sum-unchecked-assert", "runtime/vam/op/agg.go", "Sum.update",
			"switch number := vec.Any.(type) {", "_ = vec.Any.(*vector.Int)\n\t\tswitch number := vec.Any.(type) {", "C09-X1", "(*runtime/vam/op.Sum).update asserts"},
	)
}
