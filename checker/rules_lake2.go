package main

import (
	"go/token"
	"go/types"
	"sort"
	"strings"

	"golang.org/x/tools/go/ssa"
)

// ---------------------------------------------------------------- C13

var snapshotMutators = map[string]bool{
	"(*lake/commits.Snapshot).AddDataObject": true, "(*lake/commits.Snapshot).DeleteObject": true,
	"(*lake/commits.Snapshot).AddVector": true, "(*lake/commits.Snapshot).DeleteVector": true,
}

// freshSnapshot: v is a snapshot this function (or its callers) created, not one obtained from the store's cache.
func freshSnapshot(p *Prog, fn *ssa.Function, v ssa.Value, depth int, seen map[ssa.Value]bool) (bool, string) {
	v = stripConv(v)
	if seen[v] {
		return true, ""
	}
	seen[v] = true
	switch x := v.(type) {
	case *ssa.Call:
		n := calleeName(x.Common())
		switch n {
		case "lake/commits.NewSnapshot", "(*lake/commits.Snapshot).Copy", "lake/commits.decodeSnapshot":
			return true, ""
		}
		return false, "result of " + n
	case *ssa.Extract:
		if call, ok := x.Tuple.(*ssa.Call); ok {
			n := calleeName(call.Common())
			if n == "lake/commits.decodeSnapshot" {
				return true, ""
			}
			return false, "result of " + n
		}
		return false, "tuple element"
	case *ssa.Phi:
		for _, e := range x.Edges {
			if isNilConst(e) {
				continue
			}
			if ok, why := freshSnapshot(p, fn, e, depth, seen); !ok {
				return false, why
			}
		}
		return true, ""
	case *ssa.UnOp:
		if fa, ok := x.X.(*ssa.FieldAddr); ok {
			if fieldName(fa.X.Type(), fa.Field) == "diff" && namedOf(fa.X.Type()) == "lake/commits.Patch" {
				return true, "" // a patch's private diff snapshot
			}
			return false, "field " + fieldName(fa.X.Type(), fa.Field)
		}
		if a, ok := x.X.(*ssa.Alloc); ok {
			for _, r := range *a.Referrers() {
				if st, ok := r.(*ssa.Store); ok && st.Addr == a {
					if ok, why := freshSnapshot(p, fn, st.Val, depth, seen); !ok {
						return false, why
					}
				}
			}
			return true, ""
		}
		return false, "load"
	case *ssa.Parameter:
		if depth >= 2 {
			return false, "parameter " + x.Name() + " (caller depth bound)"
		}
		// receiver of Snapshot's own methods, or a Writeable parameter: check every caller
		idx := -1
		for i, prm := range fn.Params {
			if prm == x {
				idx = i
			}
		}
		callers := callSitesWhere(p, func(cc *ssa.CallCommon, _ string) bool { return cc.StaticCallee() == fn })
		if len(callers) == 0 {
			return true, "" // no module caller (exported API or dead)
		}
		for _, cs := range callers {
			args := cs.ci.Common().Args
			if idx < 0 || idx >= len(args) {
				continue
			}
			a := stripConv(args[idx])
			if !strings.HasSuffix(namedOf(a.Type()), "commits.Snapshot") {
				continue // another Writeable implementation (Patch)
			}
			if ok, why := freshSnapshot(p, cs.fn, a, depth+1, map[ssa.Value]bool{}); !ok {
				return false, why + " in " + fnName(cs.fn)
			}
		}
		return true, ""
	case *ssa.Alloc:
		return true, ""
	}
	return false, "unrecognised origin"
}

func runC13(c *Ctx, tier string) {
	p := c.P
	runPathCacheHoldsFullPaths(c, "C13-C1")
	runIDBeforeName(c, "C13-N1")
	c.Rule("C13-W1", "who may delete: storage.Engine.Delete/DeleteByPrefix is called only from the frozen sites (vacuum, abort of never-committed objects, lost-race commit object, pool removal), each with its reason")
	c.Rule("C13-R1", "the read path never re-resolves names: no function of the kernel, optimizer, lake scan operators, vector runtime or lake/data calls a name->commit resolver; positive witness in the semantic analyzer")
	c.Rule("C13-M1", "cached snapshots are not mutated: every Snapshot mutator call has a receiver that is fresh in that function (NewSnapshot, Copy, a patch's diff) or a parameter whose callers pass fresh ones")
	c.Rule("C13-M2", "a lister pins its snapshot: Lister.snap is written only while the lister is being constructed")
	runJournalFreshness(c, "C13-R2")
	runSnapshotCopyDeep(c, "C13-M3")
	c.Rule("C13-V1", "vacuum removes only what the requested commit no longer contains (= C14-V1): data of objects visible at that commit is never offered for deletion")
	c.borrow(func(t *Ctx) { runC14(t, "quick") }, map[string]string{"C14-V1": "C13-V1"})
	whoMayCall(c, "C13-W1", "storage.Engine.Delete/DeleteByPrefix",
		func(cc *ssa.CallCommon, _ string) bool { return isEngineMethod(cc, "Delete", "DeleteByPrefix") },
		map[string]string{
			"(*lake.Pool).Vacuum":                    "explicit vacuum of objects absent from the commit's snapshot (guard: C14-V1)",
			"lake.RemovePool":                        "pool removal (after its name was removed) and cleanup of a failed create",
			"(*lake/commits.Store).Remove":           "commit object of an attempt that lost the branch-update race",
			"(lake/data.Object).Remove":              "objects of a writer that aborted before any commit referenced them",
			"lake/data.DeleteVector":                 "vector of a writer that aborted before any commit referenced it",
			"(*zio/emitter.sizeSplitter).nextFile":   "output file of a failed writer construction (not lake data)",
		}, []string{"pkg/storage"}, 6,
		"a new deletion of stored objects: delete/compact must only add commits; data and commit objects disappear only through vacuum or the abort of a never-committed write, so a commit's snapshot never changes")
	// callers of the deleters that are reachable from commit paths
	whoMayCall(c, "C13-W1", "data.Object.Remove",
		func(_ *ssa.CallCommon, n string) bool { return n == "(lake/data.Object).Remove" },
		map[string]string{"(*lake.SortedWriter).Abort": "abort of a compaction/load whose objects were never committed"}, nil, 1,
		"data objects are removed outside a writer's Abort")
	whoMayCall(c, "C13-W1", "commits.Store.Remove",
		func(_ *ssa.CallCommon, n string) bool { return n == "(*lake/commits.Store).Remove" },
		map[string]string{"(*lake.Branch).commit": "lost-race path of the optimistic commit"}, nil, 1,
		"commit objects are removed outside the lost-race path of Branch.commit: an acknowledged commit could vanish")
	whoMayCall(c, "C13-W1", "data.DeleteVector",
		func(_ *ssa.CallCommon, n string) bool { return n == "lake/data.DeleteVector" },
		map[string]string{"lake/data.NewVectorWriter": "the abort closure of a vector writer: removes a vector file whose creation failed, before any commit refers to it"}, nil, 1,
		"a vector file is deleted outside the abort of its own creation: the file is shared by every commit (and branch) whose snapshot has the vector, so deleting it when one branch drops the vector makes `pool@<older commit> | count() by s` fail with `file does not exist`")

	// R1
	resolvers := map[string]bool{
		"(*lake.Pool).LookupBranchByName": true, "(*lake.Pool).OpenBranchByName": true, "(*lake.Pool).ResolveRevision": true,
		"(*lake.Root).CommitObject": true, "(*lake/branches.Store).LookupByName": true, "(*compiler/data.Source).CommitObject": true,
		"(*lake.Pool).Main": true,
	}
	readPkgs := []string{"compiler/kernel", "compiler/optimizer", "runtime/sam/op/meta", "runtime/vam", "runtime/vam/op", "runtime/vam/expr", "runtime/vcache", "lake/data", "runtime/sam/op/merge", "runtime/sam/op/combine"}
	inRead := func(pk string) bool {
		for _, r := range readPkgs {
			if pk == r || strings.HasPrefix(pk, r+"/") {
				return true
			}
		}
		return false
	}
	nRes, nWit := 0, 0
	for _, s := range callSitesWhere(p, func(cc *ssa.CallCommon, n string) bool {
		return resolvers[n] || (cc.IsInvoke() && cc.Method.Name() == "CommitObject")
	}) {
		pk := p.PkgOf(s.fn)
		if pk == "compiler/semantic" {
			nWit++
		}
		if !inRead(pk) {
			continue
		}
		nRes++
		c.Fail("C13-R1", fnName(s.fn)+" -> "+calleeName(s.ci.Common()), s.ci.Pos(), "the read path resolves a branch/pool name to a commit while the query runs: a writer committing in between makes one query see two different commits")
	}
	if nWit < 3 {
		c.Undecided("C13-R1", "semantic analyzer witness", "fewer than the 3 known CommitObject call sites in compiler/semantic: the resolver table no longer matches the code")
	}
	if nRes == 0 {
		c.OK("C13-R1", "read-path packages", token.NoPos, "no name->commit resolver is called from "+strings.Join(readPkgs, ", ")+" (witness: "+sprint(nWit)+" compile-time resolutions in compiler/semantic)")
	}

	// M1
	nMut := 0
	for _, fn := range p.Funcs {
		for _, ci := range allCalls(fn) {
			cc := ci.Common()
			name := calleeName(cc)
			var target ssa.Value
			switch {
			case snapshotMutators[name]:
				target = cc.Args[0]
			case name == "lake/commits.PlayAction" || name == "lake/commits.Play":
				a := stripConv(cc.Args[0])
				if strings.HasSuffix(namedOf(a.Type()), "commits.Snapshot") {
					target = a
				}
			}
			if target == nil {
				continue
			}
			nMut++
			construct := constructName(fn) + " -> " + name
			if fn.Signature.Recv() != nil && namedOf(fn.Signature.Recv().Type()) == "lake/commits.Snapshot" && stripConv(target) == ssa.Value(fn.Params[0]) {
				// a Snapshot method mutating its own receiver: the obligation is on its callers (checked as calls to that method)
				c.OK("C13-M1", construct, ci.Pos(), "method on its own receiver; callers are checked")
				continue
			}
			if ok, why := freshSnapshot(p, fn, target, 0, map[ssa.Value]bool{}); ok {
				c.OK("C13-M1", construct, ci.Pos(), "receiver is fresh (NewSnapshot / Copy / patch diff / fresh at every caller)")
			} else {
				c.Fail("C13-M1", construct, ci.Pos(), "mutates a snapshot that is not private to this computation ("+why+"): snapshots returned by commits.Store.Snapshot are cached and shared by every reader of that commit, so the data visible at a commit id would change")
			}
		}
	}
	if nMut < 8 {
		c.Undecided("C13-M1", "snapshot mutator call sites", "fewer than 8 mutator call sites found")
	}

	// M2
	nSnap := 0
	for _, fs := range fieldStores(p, "snap") {
		if fs.strukt != "runtime/sam/op/meta.Lister" {
			continue
		}
		nSnap++
		fa := fs.store.Addr.(*ssa.FieldAddr)
		construct := fnName(fs.fn) + " writes Lister.snap"
		if _, fresh := fa.X.(*ssa.Alloc); fresh {
			c.OK("C13-M2", construct, fs.store.Pos(), "set while the lister is being constructed")
		} else {
			c.Fail("C13-M2", construct, fs.store.Pos(), "a running lister's snapshot is replaced: a query would see objects of two different commits")
		}
	}
	if nSnap == 0 {
		c.Undecided("C13-M2", "Lister.snap", "no construction site found")
	}
}

// ---------------------------------------------------------------- C14

// closedBeforeContinue: in fn, every `success continuation` is dominated by the nil edge of a test on an
// error that phi-depends on the error result of the close call.
func errFlowsToTest(v ssa.Value) []*ssa.BinOp {
	var out []*ssa.BinOp
	seen := map[ssa.Value]bool{}
	var visit func(v ssa.Value)
	visit = func(v ssa.Value) {
		if seen[v] {
			return
		}
		seen[v] = true
		if v.Referrers() == nil {
			return
		}
		for _, r := range *v.Referrers() {
			switch x := r.(type) {
			case *ssa.Phi:
				visit(x)
			case *ssa.BinOp:
				if x.Op == token.NEQ && (isNilConst(x.X) || isNilConst(x.Y)) {
					out = append(out, x)
				}
			case *ssa.Store:
				if a, ok := x.Addr.(*ssa.Alloc); ok && x.Val == v {
					for _, ar := range *a.Referrers() {
						if l, ok := ar.(*ssa.UnOp); ok {
							visit(l)
						}
					}
				}
			}
		}
	}
	visit(v)
	return out
}

func checkClosedBefore(c *Ctx, rule string, fn *ssa.Function, closeNames []string, contName func(string) bool, what string) {
	p := c.P
	var closes []*ssa.Call
	for _, ci := range allCalls(fn) {
		n := calleeName(ci.Common())
		for _, cn := range closeNames {
			if n == cn {
				if call, ok := ci.(*ssa.Call); ok {
					closes = append(closes, call)
				}
			}
		}
	}
	var conts []ssa.Instruction
	for _, ci := range allCalls(fn) {
		if contName(calleeName(ci.Common())) {
			conts = append(conts, ci.(ssa.Instruction))
		}
	}
	construct := constructName(fn) + " " + what
	if len(closes) == 0 || len(conts) == 0 {
		// continuation may be the closure's successful return
		if len(closes) > 0 && fn.Parent() != nil {
			for _, b := range fn.Blocks {
				for _, in := range b.Instrs {
					if r, ok := in.(*ssa.Return); ok && len(r.Results) == 2 && isNilConst(returnOperand(r, 1)) && !isNilConst(returnOperand(r, 0)) {
						conts = append(conts, r)
					}
				}
			}
		}
		if len(closes) == 0 || len(conts) == 0 {
			c.Undecided(rule, construct, "close call or commit continuation not found")
			return
		}
	}
	ok := true
	for _, cl := range closes {
		ev := errValueOf(cl)
		if ev == nil {
			ok = false
			c.Fail(rule, construct, cl.Pos(), "the error of "+calleeName(cl.Common())+" is dropped before the commit: a commit could reference a data object that was never completely written")
			continue
		}
		tests := errFlowsToTest(ev)
		for _, k := range conts {
			guarded := false
			for _, t := range tests {
				if falseEdgeDominatesOrSelf(t, k.Block()) {
					guarded = true
				}
			}
			inLoop := reachAvoiding(fn, cl, func(ssa.Instruction) bool { return false }, func(x ssa.Instruction) bool { return x == ssa.Instruction(cl) }) != nil
			if inLoop {
				// the call is in a loop: no path from it to the commit may avoid the nil edge of its error test
				isTest := func(v ssa.Value) bool {
					for _, t := range tests {
						if ssa.Value(t) == v {
							return true
						}
					}
					return false
				}
				bad := reachAvoidingEdges(fn, cl, func(ssa.Instruction) bool { return false }, func(x ssa.Instruction) bool { return x == k },
					func(a, b *ssa.BasicBlock) bool {
						if iff, ok := a.Instrs[len(a.Instrs)-1].(*ssa.If); ok && isTest(iff.Cond) && b == a.Succs[1] {
							return false
						}
						return true
					})
				guarded = len(tests) > 0 && bad == nil
			}
			if (!inLoop && !dominates(cl, k)) || !guarded {
				ok = false
				c.Fail(rule, construct, k.Pos(), "the commit at "+p.Pos(k.Pos())+" is reachable without "+calleeName(cl.Common())+" having returned nil: metadata may be committed for data objects (or vectors) that are not durable")
			}
		}
	}
	if ok {
		c.OK(rule, construct, closes[0].Pos(), "the commit is reached only after every writer Close / CreateVector returned nil")
	}
}

func runObjectsBeforeCommit(c *Ctx, rule string) {
	p := c.P
	isCommit := func(n string) bool {
		return n == "(*lake.Branch).commit" || n == "(*lake.Branch).CommitCompact"
	}
	type site struct {
		fn     string
		closes []string
		what   string
	}
	for _, s := range []site{
		{"(*lake.Branch).Load", []string{"(*lake.Writer).Close"}, "objects closed before commit"},
		{"runtime/exec.Compact", []string{"(*lake.SortedWriter).Close"}, "objects closed before commit"},
		{"(*lake.Branch).AddVectors", []string{"lake/data.CreateVector"}, "vectors created before commit"},
	} {
		fn := p.Func(s.fn)
		if fn == nil {
			c.Undecided(rule, s.fn, "anchor does not resolve")
			continue
		}
		checkClosedBefore(c, rule, fn, s.closes, isCommit, s.what)
	}
	// DeleteWhere: the writer is closed inside the constructor closure
	if fn := p.Func("(*lake.Branch).DeleteWhere"); fn == nil {
		c.Undecided(rule, "(*lake.Branch).DeleteWhere", "anchor does not resolve")
	} else {
		done := false
		for _, an := range fn.AnonFuncs {
			if len(callsTo(an, "(*lake.Writer).Close")) > 0 {
				checkClosedBefore(c, rule, an, []string{"(*lake.Writer).Close"}, func(string) bool { return false }, "objects closed before the constructor returns a commit object")
				done = true
			}
		}
		if !done {
			c.Undecided(rule, "(*lake.Branch).DeleteWhere", "constructor closing its writer not found")
		}
	}
}

func runC14(c *Ctx, tier string) {
	p := c.P
	c.Rule("C14-V1", "vacuum guard: Store.Vacuumable sends an object only when the requested commit's snapshot does not contain it")
	c.Rule("C14-N1", "nulls-max everywhere on the lake path (= C16-N1)")
	c.Rule("C14-D1", "the deleter never prunes inside objects (= C16-D1)")
	c.Rule("C14-O1", "data before metadata: a commit is reached only after every writer Close / CreateVector returned nil (= C17-O2)")
	c.Rule("C14-S1", "object order is deterministic: the lister's object sort and the load sort are stable sorts (= C06-S1 on the lake path)")
	runLakeErrDiscipline(c, "C14-E1")
	runPatchRefusalIsFatal(c, "C14-P3")
	runSeekLookupScansAll(c, "C14-L1")
	runBoundsUseSortEvaluator(c, "C14-K4")
	runLakeErrNotConverted(c, "C14-E2")
	fn := p.Func("(*lake/commits.Store).Vacuumable")
	if fn == nil {
		c.Undecided("C14-V1", "(*lake/commits.Store).Vacuumable", "anchor does not resolve")
	} else {
		n := 0
		for _, b := range fn.Blocks {
			for _, in := range b.Instrs {
				var sendChan ssa.Value
				var pos token.Pos
				switch x := in.(type) {
				case *ssa.Select:
					for _, st := range x.States {
						if st.Dir == types.SendOnly {
							sendChan, pos = st.Chan, x.Pos()
						}
					}
				case *ssa.Send:
					sendChan, pos = x.Chan, x.Pos()
				}
				if sendChan == nil || stripConv(sendChan) != ssa.Value(fn.Params[len(fn.Params)-1]) {
					continue
				}
				n++
				guarded := false
				for _, ci := range allCalls(fn) {
					call, ok := ci.(*ssa.Call)
					if !ok || calleeName(ci.Common()) != "(*lake/commits.Snapshot).Exists" {
						continue
					}
					// the snapshot must be the one of the requested leaf
					fromLeaf := dependsOn(call.Call.Args[0], func(v ssa.Value) bool {
						sc, ok := v.(*ssa.Call)
						return ok && calleeName(sc.Common()) == "(*lake/commits.Store).Snapshot" && stripConv(sc.Call.Args[2]) == ssa.Value(fn.Params[2])
					})
					if fromLeaf && falseEdgeDominates(call, in.Block()) {
						guarded = true
					}
				}
				if guarded {
					c.OK("C14-V1", "(*lake/commits.Store).Vacuumable send", pos, "only objects absent from the snapshot of the requested commit are offered for deletion")
				} else {
					c.Fail("C14-V1", "(*lake/commits.Store).Vacuumable send", pos, "an object is offered to vacuum without first establishing that the requested commit's snapshot does not contain it: vacuum would delete live data")
				}
			}
		}
		if n == 0 {
			c.Undecided("C14-V1", "(*lake/commits.Store).Vacuumable", "no send on the output channel found")
		}
	}
	checkNullsMax(c, "C14-N1")
	c.borrow(func(t *Ctx) { runC16S1(t) }, map[string]string{"C16-D1": "C14-D1"})
	runObjectsBeforeCommit(c, "C14-O1")
	stableSorts(c, "C14-S1", []string{"runtime/sam/op/meta.sortObjects", "(*runtime/sam/expr.Comparator).sortStableIndices"})
	runDeleteComplement(c)
	runSlicerBounds(c, "C14-S2")
	runInputSortedWriters(c, "C14-S3")
	runFirstKeyByPosition(c, "C14-M1")
	runDeleteSurvivorExact(c, "C14-P2")
	runLoadWriterSingleFlight(c, "C14-W2")
	runSeekIndexMaxMeaning(c, "C14-B2")
}

// stableSorts: the named functions sort with a stable algorithm.
func stableSorts(c *Ctx, rule string, fns []string) {
	p := c.P
	stable := map[string]bool{"sort.SliceStable": true, "sort.Stable": true, "slices.SortStableFunc": true}
	unstable := map[string]bool{"sort.Slice": true, "sort.Sort": true, "slices.SortFunc": true, "slices.Sort": true}
	for _, name := range fns {
		fn := p.Func(name)
		if fn == nil {
			c.Undecided(rule, name, "anchor does not resolve")
			continue
		}
		var st, un []ssa.CallInstruction
		for g := range reachableStatic([]*ssa.Function{fn}, func(f *ssa.Function) bool { return p.PkgOf(f) == p.PkgOf(fn) && (f == fn || f.Parent() != nil) }) {
			for _, ci := range allCalls(g) {
				n := calleeName(ci.Common())
				if stable[n] {
					st = append(st, ci)
				}
				if unstable[n] {
					un = append(un, ci)
				}
			}
		}
		switch {
		case len(un) > 0:
			c.Fail(rule, name, un[0].Pos(), "sorts with an unstable algorithm: values with equal keys come out in an order that depends on the input size and pivot choices, so ties are not ordered deterministically")
		case len(st) == 0:
			c.Undecided(rule, name, "no sort call found")
		default:
			c.OK(rule, name, st[0].Pos(), "stable sort")
		}
	}
}

// ---------------------------------------------------------------- C15

func runC15(c *Ctx, tier string) {
	p := c.P
	runPathCacheHoldsFullPaths(c, "C15-C1")
	runCommonAncestorNone(c, "C15-A1")
	c.Rule("C15-K1", "a patch's view reflects everything its mutators record: Lookup/Select/SelectAll read every field AddDataObject/DeleteObject write, HasVector every field AddVector/DeleteVector write")
	c.Rule("C15-P3", "merge and revert objects are built against the tip inside the retry loop (= C12-P3)")
	c.Rule("C15-E1", "conflict errors abort before any write: errors of Diff / Patch.Revert / PatchOfPath are returned from the constructor, which runs before commits.Put")
	runDiffDeleteConflict(c, "C15-E2")
	runDiffAddsOnlyChildAdditions(c, "C15-K2")
	runRevertVectorGuards(c, "C15-V1")
	// K1
	methods := map[string]*ssa.Function{}
	for _, fn := range p.FuncsIn("lake/commits") {
		if fn.Parent() == nil && fn.Signature.Recv() != nil && namedOf(fn.Signature.Recv().Type()) == "lake/commits.Patch" {
			methods[fn.Name()] = fn
		}
	}
	fieldsOf := func(fn *ssa.Function, write bool) map[string]bool {
		out := map[string]bool{}
		for g := range reachableStatic([]*ssa.Function{fn}, func(f *ssa.Function) bool {
			return f == fn || f.Parent() != nil || (f.Signature.Recv() != nil && namedOf(f.Signature.Recv().Type()) == "lake/commits.Patch")
		}) {
			for _, b := range g.Blocks {
				for _, in := range b.Instrs {
					fa, ok := in.(*ssa.FieldAddr)
					if !ok || namedOf(fa.X.Type()) != "lake/commits.Patch" {
						continue
					}
					name := fieldName(fa.X.Type(), fa.Field)
					if !write {
						out[name] = true
						continue
					}
					if fieldAddrWritten(fa) {
						out[name] = true
					}
					// calling a mutator on the field's value (p.diff.AddDataObject) writes it
					for _, r := range *fa.Referrers() {
						if ld, ok := r.(*ssa.UnOp); ok {
							for _, u := range *ld.Referrers() {
								if call, ok := u.(ssa.CallInstruction); ok && snapshotMutators[calleeName(call.Common())] {
									out[name] = true
								}
							}
						}
					}
				}
			}
		}
		return out
	}
	groups := []struct {
		mut, view []string
		what       string
	}{
		{[]string{"AddDataObject", "DeleteObject"}, []string{"Lookup", "Select", "SelectAll"}, "data objects"},
		{[]string{"AddVector", "DeleteVector"}, []string{"HasVector"}, "vectors"},
	}
	for _, g := range groups {
		written := map[string]bool{}
		for _, m := range g.mut {
			if methods[m] == nil {
				c.Undecided("C15-K1", "(*lake/commits.Patch)."+m, "method does not resolve")
				continue
			}
			for f := range fieldsOf(methods[m], true) {
				written[f] = true
			}
		}
		if len(written) < 2 {
			c.Undecided("C15-K1", "Patch mutators of "+g.what, "fewer than 2 state fields written by the mutators")
		}
		for _, v := range g.view {
			if methods[v] == nil {
				c.Undecided("C15-K1", "(*lake/commits.Patch)."+v, "method does not resolve")
				continue
			}
			read := fieldsOf(methods[v], false)
			var wl []string
			for f := range written {
				wl = append(wl, f)
			}
			sort.Strings(wl)
			for _, f := range wl {
				construct := "(*lake/commits.Patch)." + v + " reads " + f
				if read[f] {
					c.OK("C15-K1", construct, methods[v].Pos(), "state recorded by the "+g.what+" mutators is visible through the view")
				} else {
					c.Fail("C15-K1", construct, methods[v].Pos(), "the patch's mutators record changes in field "+f+" that this view method never consults: the view disagrees with what the patch will commit (e.g. an object deleted by the patch still Exists, so Diff cannot see a delete conflict and a merge commits a delete that fails on replay)")
				}
			}
		}
	}
	// P3
	c.borrow(func(t *Ctx) { runC12P3(t, "C12-P3") }, map[string]string{"C12-P3": "C15-P3"})
	// E1: every call of a conflict-detecting function in package lake
	nE1 := 0
	for _, callee := range []string{"lake/commits.Diff", "(*lake/commits.Store).PatchOfPath", "(*lake/commits.Patch).Revert", "(*lake/commits.Store).PatchOfCommit"} {
		seenFn := map[*ssa.Function]bool{}
		for _, s := range callSitesWhere(p, func(_ *ssa.CallCommon, n string) bool { return n == callee }) {
			if p.PkgOf(s.fn) != "lake" || seenFn[s.fn] {
				continue
			}
			// only functions that produce a commit object
			if r := s.fn.Signature.Results(); r.Len() != 2 || (namedOf(r.At(0).Type()) != "lake/commits.Object" && namedOf(r.At(0).Type()) != "lake/commits.Patch") {
				continue
			}
			seenFn[s.fn] = true
			nE1++
			checkErrReturned(c, "C15-E1", s.fn, callee)
		}
	}
	if nE1 < 3 {
		c.Undecided("C15-E1", "conflict-detecting calls", "fewer than 3 call sites of Diff/PatchOfPath/Revert/PatchOfCommit in commit-object / patch constructors of package lake")
	}
	runBranchCommitProtocol(c, "C15-E1", false)
	runPatchDeletesVisibleToDiff(c, "C15-R1")
	runPatchDiffDisjointFromBase(c, "C15-P1")
}

// checkErrReturned: every call of callee in fn has its error returned and the success
// continuation (a return of a non-nil first result) only on the nil edge.
func checkErrReturned(c *Ctx, rule string, fn *ssa.Function, callee string) {
	calls := callsTo(fn, callee)
	if len(calls) == 0 {
		c.Undecided(rule, constructName(fn)+" -> "+callee, "call not found")
		return
	}
	for i, ci := range calls {
		call, ok := ci.(*ssa.Call)
		construct := constructName(fn) + " -> " + callee + " #" + sprint(i+1)
		if !ok {
			c.Fail(rule, construct, ci.Pos(), "deferred call discards the conflict error")
			continue
		}
		ev := errValueOf(call)
		if ev == nil {
			c.Fail(rule, construct, call.Pos(), "the conflict error is dropped: a conflicting merge/revert would be committed")
			continue
		}
		u := usesOfErr(ev)
		tests := errFlowsToTest(ev)
		okRet := true
		for _, b := range fn.Blocks {
			for _, in := range b.Instrs {
				r, isRet := in.(*ssa.Return)
				if !isRet || len(r.Results) != 2 || isNilConst(returnOperand(r, 0)) {
					continue
				}
				// a success return reachable from the call must be on the nil edge
				if reachAvoiding(fn, call, func(ssa.Instruction) bool { return false }, func(x ssa.Instruction) bool { return x == in }) == nil {
					continue
				}
				g := false
				for _, t := range tests {
					if falseEdgeDominatesOrSelf(t, r.Block()) {
						g = true
					}
				}
				if !g {
					okRet = false
				}
			}
		}
		_ = u
		if okRet {
			c.OK(rule, construct, call.Pos(), "error returned before any commit object is produced")
		} else {
			c.Fail(rule, construct, call.Pos(), "a commit object can be returned on a path where this call failed: the conflict is committed instead of aborting")
		}
	}
}

// ---------------------------------------------------------------- C17

func runC17(c *Ctx, tier string) {
	p := c.P
	c.Rule("C17-O1", "Branch.commit writes the commit object before it moves the branch pointer")
	c.Rule("C17-O2", "data before metadata: a commit is reached only after every writer Close / CreateVector returned nil")
	c.Rule("C17-O3", "Queue.CommitAt writes the entry before HEAD; writeHead is reachable only from CommitAt and Create")
	c.Rule("C17-O4", "a lake exists only when complete: writeLakeMagic comes after the pools store on every successful path; journal.Create writes HEAD then TAIL")
	c.Rule("C17-O5", "pool directory before name, cleanup on failure (= C12-N1); name removed before the directory on drop")
	c.Rule("C17-H1", "HEAD is only a hint: reading the head probes for entry HEAD+1 (docs/lake/format.md)")
	runBranchCommitProtocol(c, "C17-O1", false)
	runObjectsBeforeCommit(c, "C17-O2")
	// O3
	if fn := p.Func("(*lake/journal.Queue).CommitAt"); fn == nil {
		c.Undecided("C17-O3", "(*lake/journal.Queue).CommitAt", "anchor does not resolve")
	} else {
		wh := callsTo(fn, "(*lake/journal.Queue).writeHead")
		var puts []ssa.Instruction
		for _, ci := range allCalls(fn) {
			if isEngineMethod(ci.Common(), "PutIfNotExists") {
				puts = append(puts, ci.(ssa.Instruction))
			}
		}
		if len(wh) != 1 || len(puts) != 1 {
			c.Undecided("C17-O3", "(*lake/journal.Queue).CommitAt", "expected one PutIfNotExists and one writeHead")
		} else {
			put := puts[0].(*ssa.Call)
			w := wh[0].(ssa.Instruction)
			// writeHead only after the entry write succeeded: not reachable from the error arm that returns
			ok := dominates(put, w)
			ev := errValueOf(put)
			if ev == nil {
				ok = false
			}
			if ok {
				c.OK("C17-O3", "(*lake/journal.Queue).CommitAt order", w.Pos(), "entry written (or its error returned) before HEAD is advanced")
			} else {
				c.Fail("C17-O3", "(*lake/journal.Queue).CommitAt order", w.Pos(), "HEAD can be advanced before the entry it points to exists: after a crash every reader fails on a missing entry")
			}
		}
	}
	whoMayCall(c, "C17-O3", "journal.Queue.writeHead",
		func(_ *ssa.CallCommon, n string) bool { return n == "(*lake/journal.Queue).writeHead" },
		map[string]string{"(*lake/journal.Queue).CommitAt": "after the entry write", "lake/journal.Create": "initial HEAD of an empty journal"}, nil, 2,
		"HEAD is moved by a function that does not write the entry it points to")
	// O4
	if fn := p.Func("(*lake.Root).createConfig"); fn == nil {
		c.Undecided("C17-O4", "(*lake.Root).createConfig", "anchor does not resolve")
	} else {
		cs := callsTo(fn, "lake/pools.CreateStore")
		ms := callsTo(fn, "(*lake.Root).writeLakeMagic")
		isMagic := func(in ssa.Instruction) bool { return len(ms) == 1 && in == ms[0].(ssa.Instruction) }
		nilRet := func(in ssa.Instruction) bool {
			r, ok := in.(*ssa.Return)
			return ok && isNilConst(returnOperand(r, 0))
		}
		switch {
		case len(cs) != 1 || len(ms) != 1:
			c.Undecided("C17-O4", "(*lake.Root).createConfig", "expected one pools.CreateStore and one writeLakeMagic")
		case !dominates(cs[0].(ssa.Instruction), ms[0].(ssa.Instruction)):
			c.Fail("C17-O4", "(*lake.Root).createConfig", ms[0].Pos(), "the lake magic file is written before the pools store exists: a crash in between leaves a lake that Open accepts and that cannot list pools")
		case reachAvoiding(fn, nil, isMagic, nilRet) != nil:
			c.Fail("C17-O4", "(*lake.Root).createConfig", fn.Pos(), "createConfig can succeed without writing the lake magic")
		default:
			// the magic write's error from CreateStore must stop it
			ev := errValueOf(cs[0].(*ssa.Call))
			guard := false
			if ev != nil {
				for _, t := range errFlowsToTest(ev) {
					if falseEdgeDominatesOrSelf(t, ms[0].(ssa.Instruction).Block()) {
						guard = true
					}
				}
			}
			if guard {
				c.OK("C17-O4", "(*lake.Root).createConfig", ms[0].Pos(), "magic written last, only after the pools store was created")
			} else {
				c.Fail("C17-O4", "(*lake.Root).createConfig", ms[0].Pos(), "the lake magic is written even if creating the pools store failed")
			}
		}
	}
	if fn := p.Func("lake/journal.Create"); fn == nil {
		c.Undecided("C17-O4", "lake/journal.Create", "anchor does not resolve")
	} else {
		h := callsTo(fn, "(*lake/journal.Queue).writeHead")
		t := callsTo(fn, "(*lake/journal.Queue).writeTail")
		if len(h) == 1 && len(t) == 1 && dominates(h[0].(ssa.Instruction), t[0].(ssa.Instruction)) {
			c.OK("C17-O4", "lake/journal.Create", h[0].Pos(), "HEAD then TAIL")
		} else {
			c.Fail("C17-O4", "lake/journal.Create", fn.Pos(), "journal.Create no longer writes HEAD before TAIL (Open probes HEAD to decide whether a journal exists)")
		}
	}
	// O5
	c.borrow(func(t *Ctx) { runCreatePoolOrder(t, "C12-N1") }, map[string]string{"C12-N1": "C17-O5"})
	if fn := p.Func("(*lake.Root).RemovePool"); fn == nil {
		c.Undecided("C17-O5", "(*lake.Root).RemovePool", "anchor does not resolve")
	} else {
		rm := callsTo(fn, "(*lake/pools.Store).Remove")
		del := callsTo(fn, "lake.RemovePool")
		if len(rm) == 1 && len(del) == 1 && dominates(rm[0].(ssa.Instruction), del[0].(ssa.Instruction)) {
			ev := errValueOf(rm[0].(*ssa.Call))
			g := false
			if ev != nil {
				for _, t := range errFlowsToTest(ev) {
					if falseEdgeDominatesOrSelf(t, del[0].(ssa.Instruction).Block()) {
						g = true
					}
				}
			}
			if g {
				c.OK("C17-O5", "(*lake.Root).RemovePool", del[0].Pos(), "name removed (successfully) before the data is deleted")
			} else {
				c.Fail("C17-O5", "(*lake.Root).RemovePool", del[0].Pos(), "the pool's data is deleted even when removing its name failed: a named pool without data")
			}
		} else {
			c.Fail("C17-O5", "(*lake.Root).RemovePool", fn.Pos(), "the pool's data can be deleted before its name is removed: a crash in between leaves a named pool whose objects are gone")
		}
	}
	// O6: existence is not completeness
	runLakeErrDiscipline(c, "C17-E1")
	runLakeErrNotConverted(c, "C17-E2")
	runSnapshotErrorNotUsed(c, "C17-S1")
	runSnapshotEndMarker(c, "C17-S2")
	runCommitSnapshotMarker(c, "C17-S3")
	c.Rule("C17-O6", "existence of a stored object is never taken as proof that it is complete: storage.Engine.Exists is called only from the confirmed read-only sites; no write path skips (re)writing an object because a file of that name exists (a crash leaves such files behind)")
	whoMayCall(c, "C17-O6", "storage.Engine.Exists",
		func(cc *ssa.CallCommon, _ string) bool { return isEngineMethod(cc, "Exists") },
		map[string]string{
			"(*lake.Pool).ObjectExists": "resolving a user-supplied tag to an object id (read-only)",
			"(*lake.Pool).Vacuum":       "dry-run listing of what a vacuum would delete (read-only)",
		}, []string{"pkg/storage"}, 2,
		"a new decision based on whether a stored object exists: everything written before the commit point is garbage that a retry must overwrite, and the file engine creates files before filling them, so a file left by a crash (or still being written by another process) would be treated as valid")
	// H1
	if fn := p.Func("(*lake/journal.Queue).ReadHead"); fn == nil {
		c.Undecided("C17-H1", "(*lake/journal.Queue).ReadHead", "anchor does not resolve")
	} else {
		probes := false
		for g := range reachableStatic([]*ssa.Function{fn}, func(f *ssa.Function) bool { return p.PkgOf(f) == "lake/journal" }) {
			for _, ci := range allCalls(g) {
				cc := ci.Common()
				if isEngineMethod(cc, "Exists", "Get", "Size", "List") || calleeName(cc) == "pkg/storage.Get" {
					for _, a := range cc.Args {
						if dependsOn(a, func(v ssa.Value) bool {
							call, ok := v.(*ssa.Call)
							return ok && calleeName(call.Common()) == "(*lake/journal.Queue).uri"
						}) {
							probes = true
						}
					}
				}
			}
		}
		if probes {
			c.OK("C17-H1", "(*lake/journal.Queue).ReadHead", fn.Pos(), "probes for journal entries beyond the HEAD hint")
		} else {
			c.Fail("C17-H1", "(*lake/journal.Queue).ReadHead", fn.Pos(), "ReadHead trusts the HEAD file and never probes for entry HEAD+1: after a crash between the entry write and the HEAD write every later commit gets os.IsExist on the same slot and gives up (ErrRetriesExceeded), so subsequent operations do not succeed")
		}
	}
	runOneCommitPerRequest(c, "C17-A1")
	runReadResultsNilTested(c, "C17-M1")
	runTailNeverMoves(c, "C17-T1")
}

func init() {
	register(&PropertyDef{ID: "C13", Run: runC13,
		Explanation: "Decides structural conditions of snapshot immutability and reader isolation: a closed set of sites may delete stored objects (W1), the read path never re-resolves names (R1), cached snapshots are never mutated (M1), a lister pins its snapshot (M2). Does NOT decide result constancy, cross-process snapshot files or vacuum semantics.",
		Assumptions: []string{"call graph: static calls plus interface calls resolved by method name on storage.Engine", "freshness is tracked up to two caller levels"}})
	register(&PropertyDef{ID: "C14", Run: runC14,
		Explanation: "Decides structural conditions of the loaded-minus-deleted model: vacuum only offers objects absent from the commit's snapshot (V1), nulls-max comparators everywhere on the lake path (N1), the deleter never prunes seek ranges (D1), data objects are durable before metadata references them (O1), object order is produced by stable sorts (S1). Does NOT decide multiset equality, order or metadata accuracy.",
		Assumptions: []string{"constant nullsMax arguments; dominance on SSA"}})
	register(&PropertyDef{ID: "C15", Run: runC15,
		Explanation: "Decides structural conditions of merge/revert: a patch's view reads every field its mutators write (K1), merge/revert objects are built against the retry's parent (P3), conflict errors are returned before any commit object is produced and the object is written before the branch moves (E1). Does NOT decide the set algebra of merge and revert.",
		Assumptions: []string{"field read/write sets are computed over the Patch methods and their same-type helpers"}})
	register(&PropertyDef{ID: "C17", Run: runC17,
		Explanation: "Decides the order in which durable effects are issued, for all paths: commit object before branch pointer (O1), data before metadata (O2), journal entry before HEAD with a closed set of HEAD writers (O3), lake magic last and HEAD before TAIL (O4), pool directory before name and name before data on drop (O5), HEAD treated as a hint (H1: genuine known finding). Does NOT decide what a reopened lake sees after a torn non-atomic put.",
		Assumptions: []string{"a storage operation issued later in program order is not made durable before an earlier one returned"}})
}

// runDeleteComplement: C14-W1.
func runDeleteComplement(c *Ctx) {
	p := c.P
	c.Rule("C14-W1", "delete-where rewrites with the complement of the same predicate: the deleter's evaluator is compiled from the filter's own pushed-down predicate P (its Boolean function is C14-P2), and the deleter has no buffer filter (a frame filter for P would drop the frames whose values must all be kept)")
	pk := p.Pkgs["compiler/kernel"]
	ae := p.Func("(*compiler/kernel.DeleteFilter).AsEvaluator")
	ab := p.Func("(*compiler/kernel.DeleteFilter).AsBufferFilter")
	if pk == nil || ae == nil || p.Decl(ae) == nil {
		c.Undecided("C14-W1", "(*compiler/kernel.DeleteFilter).AsEvaluator", "anchor does not resolve")
	} else {
		// the survivor predicate is compiled from the filter's own pushed-down predicate
		// (its Boolean function is C14-P2's obligation)
		ok := false
		for _, ci := range allCalls(ae) {
			if !strings.HasSuffix(calleeName(ci.Common()), ".compileExpr") {
				continue
			}
			args := ci.Common().Args
			if strings.HasSuffix(fieldPath(stripConv(args[len(args)-1])), ".pushdown") {
				ok = true
			}
		}
		if ok {
			c.OK("C14-W1", "(*compiler/kernel.DeleteFilter).AsEvaluator", ae.Pos(), "the survivor predicate is compiled from the filter's pushdown")
		} else {
			c.Fail("C14-W1", "(*compiler/kernel.DeleteFilter).AsEvaluator", ae.Pos(), "the evaluator used to rewrite an object on delete-where is not compiled from the pushed-down predicate of the same filter: the deleter and the lister's pruner would then disagree about which values the delete is about")
		}
	}
	if ab == nil {
		c.Fail("C14-W1", "(*compiler/kernel.DeleteFilter).AsBufferFilter", token.NoPos, "DeleteFilter no longer overrides AsBufferFilter: it inherits the buffer filter of P from the embedded Filter, so frames containing no match of P — whose values must all be kept — are dropped when an object is rewritten")
	} else {
		calls := 0
		for range allCalls(ab) {
			calls++
		}
		allNil := true
		for _, b := range ab.Blocks {
			for _, in := range b.Instrs {
				if r, ok := in.(*ssa.Return); ok && !isNilConst(r.Results[0]) {
					allNil = false
				}
			}
		}
		if calls == 0 && allNil {
			c.OK("C14-W1", "(*compiler/kernel.DeleteFilter).AsBufferFilter", ab.Pos(), "no buffer filter for the complement")
		} else {
			c.Fail("C14-W1", "(*compiler/kernel.DeleteFilter).AsBufferFilter", ab.Pos(), "the deleter is given a buffer filter: an over-approximation of P is not an over-approximation of its complement, so frames whose values must be kept are dropped")
		}
	}
}

// runSlicerBounds: C14-S2.  The slicer groups overlapping objects by comparing each new object with
// the running [min,max] hull of the group; the hull must really be the running minimum of the objects'
// Min and the running maximum of their Max, in whatever order the lister delivers them (ascending or
// descending pools).
func runSlicerBounds(c *Ctx, rule string) {
	p := c.P
	c.Rule(rule, "the slicer's partition hull is a running minimum / maximum: every update of Slicer.min (max) is taken when it is unset or when cmp says the new object's Min is smaller (Max is larger), and the overlap test compares the new object against both ends of the hull")
	fn := p.Func("(*runtime/sam/op/meta.Slicer).stash")
	if fn == nil {
		c.Undecided(rule, "(*runtime/sam/op/meta.Slicer).stash", "anchor does not resolve")
		return
	}
	// comparisons: cmp(a, b) OP 0 where cmp is the Slicer's CompareFn
	type cmpInfo struct {
		bin      *ssa.BinOp
		a, b     ssa.Value
		op       token.Token
	}
	var cmps []cmpInfo
	for _, b := range fn.Blocks {
		for _, in := range b.Instrs {
			bo, ok := in.(*ssa.BinOp)
			if !ok {
				continue
			}
			k, isK := bo.Y.(*ssa.Const)
			call, isCall := bo.X.(*ssa.Call)
			if !isK || !isCall || k.Value == nil || k.Int64() != 0 || namedOf(call.Call.Value.Type()) != "runtime/sam/expr.CompareFn" || len(call.Call.Args) != 2 {
				continue
			}
			cmps = append(cmps, cmpInfo{bo, call.Call.Args[0], call.Call.Args[1], bo.Op})
		}
	}
	isHull := func(v ssa.Value, f string) bool {
		return dependsOn(v, func(w ssa.Value) bool { return isFieldOf(w, "runtime/sam/op/meta.Slicer", f) })
	}
	isObj := func(v ssa.Value, f string) bool {
		return dependsOn(v, func(w ssa.Value) bool { return isFieldOf(w, "lake/data.Object", f) })
	}
	for _, spec := range []struct {
		field, objField string
		op, swapped     token.Token
		what            string
	}{
		{"min", "Min", token.GTR, token.LSS, "minimum"},
		{"max", "Max", token.LSS, token.GTR, "maximum"},
	} {
		var stores []*ssa.Store
		for _, fs := range fieldStores(p, spec.field) {
			if fs.fn == fn && fs.strukt == "runtime/sam/op/meta.Slicer" && !isNilConst(fs.store.Val) {
				stores = append(stores, fs.store)
			}
		}
		construct := "(*runtime/sam/op/meta.Slicer).stash running " + spec.what
		if len(stores) == 0 {
			c.Fail(rule, construct, fn.Pos(), "the partition's "+spec.what+" is never recorded")
			continue
		}
		ok := true
		for _, st := range stores {
			if !isObj(st.Val, spec.objField) {
				ok = false
				c.Fail(rule, construct, st.Pos(), "Slicer."+spec.field+" is not set from the new object's "+spec.objField)
				continue
			}
			// some comparison hull-vs-object with the right sense must lead to this store
			guarded := false
			for _, ci := range cmps {
				sense := false
				if isHull(ci.a, spec.field) && isObj(ci.b, spec.objField) && (ci.op == spec.op || (spec.op == token.GTR && ci.op == token.GEQ) || (spec.op == token.LSS && ci.op == token.LEQ)) {
					sense = true
				}
				if isObj(ci.a, spec.objField) && isHull(ci.b, spec.field) && (ci.op == spec.swapped || (spec.swapped == token.LSS && ci.op == token.LEQ) || (spec.swapped == token.GTR && ci.op == token.GEQ)) {
					sense = true
				}
				if !sense {
					continue
				}
				for _, r := range *ci.bin.Referrers() {
					if iff, isIf := r.(*ssa.If); isIf && (iff.Block().Succs[0] == st.Block() || iff.Block().Succs[0].Dominates(st.Block())) {
						guarded = true
					}
				}
			}
			if !guarded {
				ok = false
				c.Fail(rule, construct, st.Pos(), "Slicer."+spec.field+" is only set when it is unset (or not under a comparison of the hull with the new object's "+spec.objField+"): it is not a running "+spec.what+". For descending pools (and any lister order other than ascending "+spec.objField+") the hull is stale, overlapping objects are split into separate partitions, and scans / compactions emit values out of pool-key order")
			}
		}
		if ok {
			c.OK(rule, construct, stores[0].Pos(), "updated when unset or when cmp(hull, object."+spec.objField+") says so")
		}
	}
	// overlap test uses both ends
	lo, hi := false, false
	for _, ci := range cmps {
		if (isObj(ci.a, "Max") && isHull(ci.b, "min") && ci.op == token.LSS) || (isHull(ci.a, "min") && isObj(ci.b, "Max") && ci.op == token.GTR) {
			lo = true
		}
		if (isObj(ci.a, "Min") && isHull(ci.b, "max") && ci.op == token.GTR) || (isHull(ci.a, "max") && isObj(ci.b, "Min") && ci.op == token.LSS) {
			hi = true
		}
	}
	if lo && hi {
		c.OK(rule, "(*runtime/sam/op/meta.Slicer).stash overlap test", fn.Pos(), "object.Max < hull.min || object.Min > hull.max closes the partition")
	} else {
		c.Fail(rule, "(*runtime/sam/op/meta.Slicer).stash overlap test", fn.Pos(), "the new object is not compared strictly against both ends of the hull (object.Max < min, object.Min > max): overlapping objects can land in different partitions")
	}
}

// C17-T1: nothing advances the journal's TAIL.
func runTailNeverMoves(c *Ctx, rule string) {
	p := c.P
	c.Rule(rule, "journal.Queue.MoveTail has no caller: the fallback of journal.Store.load for an unreadable snapshot replays the journal from TAIL into an empty table, which rebuilds the whole table only while TAIL stays at the first entry")
	sites := callSitesWhere(p, func(_ *ssa.CallCommon, n string) bool { return n == "(*lake/journal.Queue).MoveTail" })
	for _, s := range sites {
		c.Fail(rule, "journal.Queue.MoveTail called from "+topName(s.fn), s.ci.Pos(), "the journal's TAIL is advanced: after a crash while snap.zng is being rewritten in place, load falls back to replaying from TAIL into an empty table, hits an update of a key added before TAIL, and every branch lookup in the pool fails with `branch not found`")
	}
	if len(sites) == 0 {
		if p.Func("(*lake/journal.Store).load") == nil {
			c.Undecided(rule, "journal TAIL", "journal.Store.load does not resolve")
			return
		}
		c.OK(rule, "journal TAIL", token.NoPos, "MoveTail is never called; TAIL stays at the first entry")
	}
}
