package main

import (
	"go/ast"
	"go/constant"
	"go/token"
	"go/types"
	"strings"

	"golang.org/x/tools/go/ssa"
)

// sameValue: identical SSA values, or two loads of the same field path.
func sameValue(a, b ssa.Value) bool {
	a, b = stripConv(a), stripConv(b)
	if a == b {
		return true
	}
	la, ok1 := a.(*ssa.UnOp)
	lb, ok2 := b.(*ssa.UnOp)
	if ok1 && ok2 && la.Op == token.MUL && lb.Op == token.MUL {
		fa, ok1 := la.X.(*ssa.FieldAddr)
		fb, ok2 := lb.X.(*ssa.FieldAddr)
		if ok1 && ok2 && fa.Field == fb.Field {
			return sameValue(fa.X, fb.X)
		}
	}
	return false
}

// fieldStores returns every store to a struct field with the given name, with
// the struct's named type.
type fieldStore struct {
	fn     *ssa.Function
	store  *ssa.Store
	strukt string
}

func fieldStores(p *Prog, field string) []fieldStore {
	var out []fieldStore
	for _, fn := range p.Funcs {
		for _, b := range fn.Blocks {
			for _, in := range b.Instrs {
				st, ok := in.(*ssa.Store)
				if !ok {
					continue
				}
				fa, ok := st.Addr.(*ssa.FieldAddr)
				if !ok || fieldName(fa.X.Type(), fa.Field) != field {
					continue
				}
				out = append(out, fieldStore{fn, st, namedOf(fa.X.Type())})
			}
		}
	}
	return out
}

// constBoolArg returns the constant boolean value of argument idx of a call.
func constBoolArg(cc *ssa.CallCommon, idx int) (val, ok bool) {
	args := cc.Args
	if cc.IsInvoke() || idx >= len(args) {
		return false, false
	}
	k, isC := args[idx].(*ssa.Const)
	if !isC || k.Value == nil || k.Value.Kind() != constant.Bool {
		return false, false
	}
	return constant.BoolVal(k.Value), true
}

// callsTo returns the call sites in fn whose resolved callee is name.
func callsTo(fn *ssa.Function, name string) []ssa.CallInstruction {
	var out []ssa.CallInstruction
	for _, ci := range allCalls(fn) {
		if calleeName(ci.Common()) == name {
			out = append(out, ci)
		}
	}
	return out
}

// nullsMaxSites: comparator constructions on the lake read/write path whose
// nullsMax argument must be the constant true (min/max metadata, the slicer,
// the object sort, the per-object merge and the optimizer's compare() all
// assume NULL is the greatest key).
var nullsMaxSites = []struct{ fn, callee string; arg int }{
	{"runtime/sam/op/meta.sortObjects", "runtime/sam/expr.NewValueCompareFn", 1},
	{"runtime/sam/op/meta.NewSlicer", "runtime/sam/expr.NewValueCompareFn", 1},
	{"zbuf.NewComparatorNullsMax", "runtime/sam/expr.NewComparator", 0},
	{"(*compiler/kernel.Builder).compileSeq", "runtime/sam/expr.NewComparator", 0},
}

func checkNullsMax(c *Ctx, rule string) {
	p := c.P
	for _, s := range nullsMaxSites {
		construct := s.fn + " -> " + s.callee
		fn := p.Func(s.fn)
		if strings.Contains(s.fn, "compileSeq") {
			// the merge is built in whichever Builder method handles *dag.Merge
			{
				found := false
				for _, f := range p.FuncsIn("compiler/kernel") {
					if len(callsTo(f, "runtime/sam/op/merge.New")) == 0 {
						continue
					}
					for _, ci := range callsTo(f, s.callee) {
						found = true
						checkOneNullsMax(c, rule, "compiler/kernel (dag.Merge) -> "+s.callee, ci, s.arg)
					}
				}
				if !found {
					c.Undecided(rule, construct, "no comparator construction for dag.Merge found in compiler/kernel")
				}
				continue
			}
		}
		if fn == nil {
			c.Undecided(rule, construct, "anchor function does not resolve")
			continue
		}
		calls := callsTo(fn, s.callee)
		if len(calls) == 0 {
			c.Undecided(rule, construct, "comparator constructor call not found")
			continue
		}
		for _, ci := range calls {
			checkOneNullsMax(c, rule, construct, ci, s.arg)
		}
	}
	// lake.ImportComparator must be built by NewComparatorNullsMax
	if fn := p.Func("lake.ImportComparator"); fn == nil {
		c.Undecided(rule, "lake.ImportComparator", "anchor function does not resolve")
	} else if len(callsTo(fn, "zbuf.NewComparatorNullsMax")) == 0 {
		c.Fail(rule, "lake.ImportComparator", fn.Pos(), "the lake's import/merge comparator is no longer built by zbuf.NewComparatorNullsMax (object min/max and the pruner assume NULL is the greatest key)")
	} else {
		c.OK(rule, "lake.ImportComparator", fn.Pos(), "built by NewComparatorNullsMax")
	}
}

func checkOneNullsMax(c *Ctx, rule, construct string, ci ssa.CallInstruction, arg int) {
	v, ok := constBoolArg(ci.Common(), arg)
	switch {
	case !ok:
		c.Fail(rule, construct, ci.Pos(), "nullsMax argument is not the constant true")
	case !v:
		c.Fail(rule, construct, ci.Pos(), "comparator built with nullsMax=false; the lake's min/max metadata and pruner assume NULL is the greatest key")
	default:
		c.OK(rule, construct, ci.Pos(), "nullsMax = true")
	}
}

// C16-S1 / D1: provenance of every KeyPruner.
func runC16S1(c *Ctx) {
	p := c.P
	stores := fieldStores(p, "KeyPruner")
	nDeleter := 0
	for _, fs := range stores {
		if !strings.HasPrefix(fs.strukt, "compiler/ast/dag.") {
			continue
		}
		construct := fnName(fs.fn) + " stores " + fs.strukt + ".KeyPruner"
		if fs.strukt == "compiler/ast/dag.Deleter" {
			nDeleter++
			c.Fail("C16-D1", construct, fs.store.Pos(), "the deleter must not prune seek ranges: it rewrites each touched object with the complement of the predicate, so skipped ranges would be lost")
			continue
		}
		val := stripConv(fs.store.Val)
		// copy of another KeyPruner field set in the same function?
		if ld, ok := val.(*ssa.UnOp); ok && ld.Op == token.MUL {
			if fa, ok := ld.X.(*ssa.FieldAddr); ok && fieldName(fa.X.Type(), fa.Field) == "KeyPruner" {
				okCopy := false
				for _, o := range stores {
					if o.fn == fs.fn && o.store != fs.store {
						if ofa := o.store.Addr.(*ssa.FieldAddr); sameValue(ofa.X, fa.X) {
							okCopy = true
						}
					}
				}
				if okCopy {
					c.OK("C16-S1", construct, fs.store.Pos(), "same pruner value as the lister's (copied field)")
				} else {
					c.Fail("C16-S1", construct, fs.store.Pos(), "KeyPruner copied from a field that is not set in this function")
				}
				continue
			}
		}
		if isNilConst(val) {
			continue
		}
		call, ok := val.(*ssa.Call)
		if !ok || !(calleeName(call.Common()) == "compiler/optimizer.maybeNewRangePruner" || calleeName(call.Common()) == "compiler/optimizer.newRangePruner") {
			c.Fail("C16-S1", construct, fs.store.Pos(), "KeyPruner is not the result of maybeNewRangePruner(filter, sortKeys)")
			continue
		}
		pred := stripConv(call.Call.Args[0])
		// the predicate must be the scan's own filter: result 0 of matchFilter(chain) or the Expr of the *dag.Filter
		predOK := false
		if ex, ok := pred.(*ssa.Extract); ok && ex.Index == 0 {
			if cl, ok := ex.Tuple.(*ssa.Call); ok && calleeName(cl.Common()) == "compiler/optimizer.matchFilter" {
				predOK = true
			}
		}
		if ld, ok := pred.(*ssa.UnOp); ok && ld.Op == token.MUL {
			if fa, ok := ld.X.(*ssa.FieldAddr); ok && namedOf(fa.X.Type()) == "compiler/ast/dag.Filter" && fieldName(fa.X.Type(), fa.Field) == "Expr" {
				predOK = true
			}
		}
		if !predOK {
			c.Fail("C16-S1", construct, fs.store.Pos(), "the pruner's predicate is neither matchFilter(chain)'s filter nor the Expr of the *dag.Filter being pushed down")
			continue
		}
		// the same predicate must be the one the scan applies (SeqScan.Filter / Deleter.Where), when the function builds one
		applied := 0
		mismatch := false
		for _, fld := range []string{"Filter", "Where"} {
			for _, o := range fieldStores(p, fld) {
				if o.fn != fs.fn || !(o.strukt == "compiler/ast/dag.SeqScan" || o.strukt == "compiler/ast/dag.Deleter") {
					continue
				}
				applied++
				if !sameValue(o.store.Val, pred) {
					mismatch = true
					c.Fail("C16-S1", construct, o.store.Pos(), "the predicate the pruner was derived from is not the predicate stored as the scan's "+fld)
				}
			}
		}
		// sort keys must come from sortKeysOfSource
		skOK := false
		skv := stripConv(call.Call.Args[1])
		if pc, ok := skv.(*ssa.Call); ok && calleeBare(pc.Common()) == "Primary" && len(pc.Call.Args) > 0 {
			skv = stripConv(pc.Call.Args[0])
		}
		if ex, ok := skv.(*ssa.Extract); ok && ex.Index == 0 {
			if cl, ok := ex.Tuple.(*ssa.Call); ok && strings.HasSuffix(calleeName(cl.Common()), ".sortKeysOfSource") {
				skOK = true
			}
		}
		if !skOK {
			c.Fail("C16-S1", construct, fs.store.Pos(), "the pruner's sort keys are not the result of sortKeysOfSource for this source")
			continue
		}
		if !mismatch {
			c.OK("C16-S1", construct, fs.store.Pos(), "pruner derived from the pushed-down filter and the source's sort keys")
		}
		_ = applied
	}
	if nDeleter == 0 {
		// positive witness: the field exists and is read by the kernel
		wit := false
		if fn := p.Func("(*compiler/kernel.Builder).compileLeaf"); fn != nil {
			for _, b := range fn.Blocks {
				for _, in := range b.Instrs {
					if fa, ok := in.(*ssa.FieldAddr); ok && fieldName(fa.X.Type(), fa.Field) == "KeyPruner" && namedOf(fa.X.Type()) == "compiler/ast/dag.Deleter" {
						wit = true
					}
				}
			}
		}
		if t := p.Type("compiler/ast/dag", "Deleter"); t == nil {
			c.Undecided("C16-D1", "dag.Deleter", "type does not resolve")
		} else {
			d := "no store to dag.Deleter.KeyPruner anywhere in the module"
			if wit {
				d += " (witness: the kernel reads the field)"
			}
			c.OK("C16-D1", "dag.Deleter.KeyPruner", token.NoPos, d)
		}
	}
	c.Floor("C16-S1", 3)
}

// C16-S2: a pruner result prunes only when it is the boolean true.
func runC16S2(c *Ctx) {
	p := c.P
	sites := 0
	for _, fn := range p.FuncsIn("lake/data", "runtime/sam/op/meta", "runtime/vam/op", "lake/seekindex") {
		for _, ci := range allCalls(fn) {
			cc := ci.Common()
			if !cc.IsInvoke() || cc.Method.Name() != "Eval" || namedOf(cc.Value.Type()) != "runtime/sam/expr.Evaluator" {
				continue
			}
			if !isPrunerValue(cc.Value) {
				continue
			}
			sites++
			construct := fnName(fn) + " evaluates the key pruner"
			call, ok := ci.(*ssa.Call)
			if !ok {
				c.Fail("C16-S2", construct, ci.Pos(), "pruner evaluated in a defer/go")
				continue
			}
			if why := prunerResultDiscipline(call); why != "" {
				c.Fail("C16-S2", construct, ci.Pos(), why)
			} else {
				c.OK("C16-S2", construct, ci.Pos(), "skips only when result.Type()==TypeBool && result.Bool()")
			}
		}
	}
	if sites < 2 {
		c.Undecided("C16-S2", "pruner evaluation sites", "fewer than the 2 known pruner evaluation sites (lister, seek index) were found")
	}
}

func isPrunerValue(v ssa.Value) bool {
	v = stripConv(v)
	switch x := v.(type) {
	case *ssa.Parameter:
		return strings.Contains(strings.ToLower(x.Name()), "prune")
	case *ssa.UnOp:
		if fa, ok := x.X.(*ssa.FieldAddr); ok {
			n := strings.ToLower(fieldName(fa.X.Type(), fa.Field))
			return strings.Contains(n, "prune") || strings.Contains(strings.ToLower(namedOf(fa.X.Type())), "prune")
		}
	}
	return false
}

// prunerResultDiscipline: the zed.Value result is used only through Type()
// compared with zed.TypeBool and Bool(), the latter only after the former held.
func prunerResultDiscipline(call *ssa.Call) string {
	var typeCalls, boolCalls []*ssa.Call
	var visit func(v ssa.Value) string
	visit = func(v ssa.Value) string {
		for _, r := range *v.Referrers() {
			switch x := r.(type) {
			case *ssa.DebugRef:
			case *ssa.Store:
				if a, ok := x.Addr.(*ssa.Alloc); ok && x.Val == v {
					for _, ar := range *a.Referrers() {
						switch y := ar.(type) {
						case *ssa.UnOp:
							if e := visit(y); e != "" {
								return e
							}
						case *ssa.Store, *ssa.DebugRef:
						case *ssa.Call:
							// method call on the address (pointer receiver)
							switch y.Common().StaticCallee().Name() {
							case "Type":
								typeCalls = append(typeCalls, y)
							case "Bool":
								boolCalls = append(boolCalls, y)
							default:
								return "pruner result is used by " + calleeName(y.Common())
							}
						default:
							return "pruner result escapes"
						}
					}
				} else {
					return "pruner result is stored"
				}
			case *ssa.Call:
				f := x.Common().StaticCallee()
				if f == nil {
					return "pruner result passed to a dynamic call"
				}
				switch f.Name() {
				case "Type":
					typeCalls = append(typeCalls, x)
				case "Bool":
					boolCalls = append(boolCalls, x)
				default:
					return "pruner result is used by " + calleeName(x.Common())
				}
			default:
				return "pruner result has a use other than Type()/Bool()"
			}
		}
		return ""
	}
	if e := visit(call); e != "" {
		return e
	}
	if len(typeCalls) == 0 || len(boolCalls) == 0 {
		return "pruner result is not tested with both Type()==TypeBool and Bool()"
	}
	// each Bool() must be dominated by the true edge of a Type()==TypeBool test
	for _, bc := range boolCalls {
		ok := false
		for _, tc := range typeCalls {
			for _, r := range *tc.Referrers() {
				cmp, isCmp := r.(*ssa.BinOp)
				if !isCmp || cmp.Op != token.EQL {
					continue
				}
				other := cmp.Y
				if other == ssa.Value(tc) {
					other = cmp.X
				}
				if !isGlobalLoad(other, "TypeBool") {
					continue
				}
				if trueEdgeDominates(cmp, bc.Block()) {
					ok = true
				}
			}
		}
		if !ok {
			return "Bool() of the pruner result is consulted without first establishing Type()==TypeBool (an error or non-bool result could prune)"
		}
	}
	return ""
}

func isGlobalLoad(v ssa.Value, name string) bool {
	v = stripConv(v)
	if u, ok := v.(*ssa.UnOp); ok && u.Op == token.MUL {
		if g, ok := u.X.(*ssa.Global); ok {
			return g.Name() == name
		}
	}
	return false
}

// trueEdgeDominates: block b is only reachable through the true edge of an If on cond.
func trueEdgeDominates(cond ssa.Value, b *ssa.BasicBlock) bool {
	for _, r := range *cond.Referrers() {
		iff, ok := r.(*ssa.If)
		if !ok {
			continue
		}
		t := iff.Block().Succs[0]
		if len(t.Preds) == 1 && t.Dominates(b) {
			return true
		}
	}
	return false
}

func falseEdgeDominates(cond ssa.Value, b *ssa.BasicBlock) bool {
	for _, r := range *cond.Referrers() {
		iff, ok := r.(*ssa.If)
		if !ok {
			continue
		}
		t := iff.Block().Succs[1]
		if len(t.Preds) == 1 && t.Dominates(b) {
			return true
		}
	}
	return false
}

// C16-B1: both publishers of key bounds swap first/last for descending pools.
func runC16B1(c *Ctx) {
	p := c.P
	pk := p.Pkgs["lake/data"]
	if pk == nil {
		c.Undecided("C16-B1", "lake/data", "package not loaded")
		return
	}
	for _, name := range []string{"(*lake/data.Writer).Close", "(*lake/data.Writer).flushSeekIndex"} {
		fn := p.Func(name)
		if fn == nil {
			c.Undecided("C16-B1", name, "anchor function does not resolve")
			continue
		}
		// the function or a same-package static callee must contain: if <x>.Order == order.Desc { a, b = b, a }
		found := token.NoPos
		for g := range reachableStatic([]*ssa.Function{fn}, func(f *ssa.Function) bool {
			// helpers of the same package, but not the sibling publisher
			return p.PkgOf(f) == "lake/data" && (f == fn || (fnName(f) != "(*lake/data.Writer).Close" && fnName(f) != "(*lake/data.Writer).flushSeekIndex"))
		}) {
			d := p.Decl(g)
			if d == nil || d.Body == nil {
				continue
			}
			ast.Inspect(d.Body, func(n ast.Node) bool {
				is, ok := n.(*ast.IfStmt)
				if !ok {
					return true
				}
				if !isOrderDescTest(pk.TypesInfo, is.Cond) {
					return true
				}
				for _, st := range is.Body.List {
					if as, ok := st.(*ast.AssignStmt); ok && len(as.Lhs) == 2 && len(as.Rhs) == 2 &&
						types.ExprString(as.Lhs[0]) == types.ExprString(as.Rhs[1]) && types.ExprString(as.Lhs[1]) == types.ExprString(as.Rhs[0]) {
						l0 := strings.ToLower(types.ExprString(as.Lhs[0]))
						l1 := strings.ToLower(types.ExprString(as.Lhs[1]))
						if strings.Contains(l0+l1, "min") && strings.Contains(l0+l1, "max") {
							found = is.Pos()
						}
					}
				}
				return true
			})
		}
		if found == token.NoPos {
			c.Fail("C16-B1", name, fn.Pos(), "key bounds are published without swapping first/last when the pool order is descending; the pruner compares against min/max assuming ascending terms at both granularities (object and seek-index entry)")
		} else {
			c.OK("C16-B1", name, found, "min/max swapped when sortKey.Order == order.Desc")
		}
	}
}

func isOrderDescTest(info *types.Info, e ast.Expr) bool {
	be, ok := ast.Unparen(e).(*ast.BinaryExpr)
	if !ok || be.Op != token.EQL {
		return false
	}
	isDesc := func(x ast.Expr) bool {
		var id *ast.Ident
		switch y := x.(type) {
		case *ast.SelectorExpr:
			id = y.Sel
		case *ast.Ident:
			id = y
		}
		if id == nil {
			return false
		}
		o, ok := info.Uses[id].(*types.Const)
		return ok && o.Name() == "Desc" && o.Pkg() != nil && strings.HasSuffix(o.Pkg().Path(), "/order")
	}
	isOrder := func(x ast.Expr) bool {
		return namedOf(info.TypeOf(x)) == "order.Which"
	}
	return (isDesc(be.Y) && isOrder(be.X)) || (isDesc(be.X) && isOrder(be.Y))
}

// C16-S3: the pruner's field names are the metadata's field names, and
// buildRangePruner only prunes comparisons on the pool key.
func runC16S3(c *Ctx) {
	p := c.P
	pk := p.Pkgs["compiler/optimizer"]
	fn := p.Func("compiler/optimizer.newRangePruner")
	if fn == nil || pk == nil {
		c.Undecided("C16-S3", "optimizer.newRangePruner", "anchor does not resolve")
		return
	}
	d := p.Decl(fn)
	defs := map[string]string{}
	ast.Inspect(d.Body, func(n ast.Node) bool {
		as, ok := n.(*ast.AssignStmt)
		if !ok || len(as.Lhs) != 1 || len(as.Rhs) != 1 {
			return true
		}
		id, ok := as.Lhs[0].(*ast.Ident)
		if !ok {
			return true
		}
		ast.Inspect(as.Rhs[0], func(m ast.Node) bool {
			if cl, ok := m.(*ast.CompositeLit); ok && namedOf(pk.TypesInfo.TypeOf(cl)) == "pkg/field.Path" && len(cl.Elts) == 1 {
				if s, ok := constString(pk.TypesInfo, cl.Elts[0]); ok {
					defs[id.Name] = s
				}
			}
			return true
		})
		return true
	})
	okArgs := false
	ast.Inspect(d.Body, func(n ast.Node) bool {
		call, ok := n.(*ast.CallExpr)
		if !ok || len(call.Args) != 4 {
			return true
		}
		if f := calleeObj(pk.TypesInfo, call); f == nil || f.Name() != "buildRangePruner" {
			return true
		}
		a, ok1 := call.Args[2].(*ast.Ident)
		b, ok2 := call.Args[3].(*ast.Ident)
		if ok1 && ok2 && defs[a.Name] == "min" && defs[b.Name] == "max" {
			okArgs = true
		}
		return true
	})
	if okArgs {
		c.OK("C16-S3", "optimizer.newRangePruner min/max paths", d.Pos(), "buildRangePruner(pred, key, this.min, this.max)")
	} else {
		c.Fail("C16-S3", "optimizer.newRangePruner min/max paths", d.Pos(), "the lower/upper bound arguments of buildRangePruner are not this.min / this.max in that order")
	}
	// metadata field tags
	for _, tn := range [][2]string{{"lake/data", "Object"}, {"lake/seekindex", "Entry"}} {
		t := p.Type(tn[0], tn[1])
		construct := tn[0] + "." + tn[1] + " min/max tags"
		st, _ := t.Underlying().(*types.Struct)
		if st == nil {
			c.Undecided("C16-S3", construct, "type does not resolve")
			continue
		}
		got := map[string]string{}
		for i := 0; i < st.NumFields(); i++ {
			tag := st.Tag(i)
			for _, want := range []string{"min", "max"} {
				if strings.Contains(tag, `zed:"`+want+`"`) {
					got[want] = st.Field(i).Name()
				}
			}
		}
		if got["min"] == "Min" && got["max"] == "Max" {
			c.OK("C16-S3", construct, token.NoPos, "Min↔\"min\", Max↔\"max\"")
		} else {
			c.Fail("C16-S3", construct, token.NoPos, "the metadata fields the pruner reads as this.min/this.max are not the Min/Max fields")
		}
	}
	// key guard in buildRangePruner
	bf := p.Func("compiler/optimizer.buildRangePruner")
	if bf == nil {
		c.Undecided("C16-S3", "buildRangePruner key guard", "anchor does not resolve")
		return
	}
	for _, ci := range callsTo(bf, "compiler/optimizer.rangePrunerPred") {
		guarded := false
		for _, eq := range allCalls(bf) {
			if calleeName(eq.Common()) != "(pkg/field.Path).Equal" {
				continue
			}
			ev, ok := eq.(*ssa.Call)
			if !ok {
				continue
			}
			// one operand must be the fld parameter
			usesFld := false
			for _, a := range ev.Call.Args {
				if prm, ok := stripConv(a).(*ssa.Parameter); ok && prm == bf.Params[1] {
					usesFld = true
				}
			}
			if usesFld && trueEdgeDominates(ev, ci.(ssa.Instruction).Block()) {
				guarded = true
			}
		}
		if guarded {
			c.OK("C16-S3", "buildRangePruner key guard", ci.Pos(), "rangePrunerPred is reached only when the compared field equals the pool key")
		} else {
			c.Fail("C16-S3", "buildRangePruner key guard", ci.Pos(), "rangePrunerPred is reachable for a comparison on a field that is not (checked to be) the pool key")
		}
	}
}
