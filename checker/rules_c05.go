package main

import (
	"strings"

	"golang.org/x/tools/go/ssa"
)

var ctxLockSpecs = []*LockSpec{
	{Type: "super.Context", Mu: "mu", Guarded: []string{"byID", "toType", "toValue", "typedefs"}},
	{Type: "super.Mapper", Mu: "mu", Guarded: []string{"types"}},
}

func runC05(c *Ctx, tier string) {
	c.Rule("C05-L1", "lock discipline: Context.byID/toType/toValue/typedefs and Mapper.types are only touched with mu held (write lock for writes); requires-held helpers are only called with it held")
	c.Rule("C05-L2", "no call is made while a deferred mu.Unlock() is pending on a released mutex (a panic there is a fatal double unlock)")
	c.Rule("C05-L4", "no method re-acquires mu of the same receiver while it is held")
	for _, s := range ctxLockSpecs {
		checkLockSpec(c, "C05", s)
	}
	runC05Rest(c)
	c.Floor("C05-L1", 40)
	runTypeOrderSeparatesNamed(c, "C05-T1")
	runTypeMemberListsReadOnly(c, "C05-I1")
	runEncoderWritesTypeIDs(c, "C05-W2")
}

func init() {
	register(&PropertyDef{ID: "C05", Run: runC05,
		Explanation:  "Decides structural necessary conditions of type canonicity in zed.Context/Mapper for all paths: lock discipline on the type tables (L1/L2/L4), miss-and-insert in one critical section (L3), ownership and no-overwrite of the canonical type value (W1), canonical union order (P1), tvPool typestate (P2), and encoder/decoder type-value tag agreement (K1). Does NOT decide structural-equality <=> pointer-equality, CompareTypes being a total order, or name rebinding races between concurrent decoders.",
		Assumptions: []string{"one receiver per method (the mutex instance is the receiver's)", "closures run synchronously under the state at their creation unless started with go"}})
}

func runC05Rest(c *Ctx) {
	p := c.P
	c.Rule("C05-L3", "miss-and-insert atomicity: every call that enters a new type (enterWithLock) is dominated by a lookup of toType with no unlock of mu on any path in between, and the new type's ID is taken in the same section")
	c.Rule("C05-W1", "one canonical, owned type value per type: toValue is written only (a) by enterWithLock with a tvPool buffer for a type constructed in that function, or (b) with a cloned slice under a failed presence test; never with a caller's slice and never overwriting")
	c.Rule("C05-P1", "canonical union order: in LookupTypeUnion a sort by CompareTypes dominates AppendTypeValue")
	c.Rule("C05-P2", "tvPool typestate: on no path is a buffer both returned to tvPool and entered into the type tables")
	c.Rule("C05-K1", "type-value tag agreement: the TypeValue* constants appendTypeValue emits are exactly those DecodeTypeValue decodes")
	runTypeValueOneTable(c, "C05-P3")
	runContextResetComplete(c, "C05-R1")
	enter := p.Func("(*super.Context).enterWithLock")
	if enter == nil {
		c.Undecided("C05-L3", "(*super.Context).enterWithLock", "anchor does not resolve")
		return
	}
	isUnlock := func(in ssa.Instruction) bool {
		ci, ok := in.(*ssa.Call)
		if !ok {
			return false
		}
		op, ok := lockOpKind(ci.Common(), ctxLockSpecs[0])
		return ok && (op == "Unlock" || op == "RUnlock")
	}
	nEnter := 0
	for _, fn := range p.FuncsIn("") {
		for _, ci := range callsTo(fn, "(*super.Context).enterWithLock") {
			nEnter++
			name := fnName(fn)
			in := ci.(ssa.Instruction)
			// L3: dominating lookup of toType, no unlock in between
			var lk ssa.Instruction
			for _, b := range fn.Blocks {
				for _, x := range b.Instrs {
					l, ok := x.(*ssa.Lookup)
					if !ok || !isFieldLoad(l.X, "toType") {
						continue
					}
					if dominates(l, in) {
						lk = l
					}
				}
			}
			construct := name + " enters a new type"
			if lk == nil {
				c.Fail("C05-L3", construct, ci.Pos(), "enterWithLock is not preceded on every path by a lookup of toType (a second structurally equal type could be created)")
			} else if u := reachAvoiding(fn, lk, func(x ssa.Instruction) bool { return x == in }, isUnlock); u != nil {
				c.Fail("C05-L3", construct, ci.Pos(), "mu is released at "+p.Pos(u.Pos())+" between the toType miss and enterWithLock: two goroutines can both miss and create distinct pointers for one type")
			} else {
				// ID taken in the same section
				okID := true
				for _, idc := range callsTo(fn, "(*super.Context).nextIDWithLock") {
					if u := reachAvoiding(fn, idc.(ssa.Instruction), func(x ssa.Instruction) bool { return x == in }, isUnlock); u != nil {
						okID = false
					}
				}
				if okID {
					c.OK("C05-L3", construct, ci.Pos(), "lookup miss, ID allocation and insert in one critical section")
				} else {
					c.Fail("C05-L3", construct, ci.Pos(), "mu is released between nextIDWithLock and enterWithLock: type IDs can collide")
				}
			}
			// W1(a): the tv argument is a tvPool buffer, the type is fresh
			args := ci.Common().Args
			tvArg, typArg := stripConv(args[1]), stripConv(args[2])
			c1 := name + " -> enterWithLock(tv, typ)"
			if !fromTvPool(tvArg) && !isCloneCall(tvArg) {
				c.Fail("C05-W1", c1, ci.Pos(), "the type value stored by enterWithLock is neither a tvPool buffer owned by this call nor a clone: the context would retain bytes it does not own")
			} else if tc, ok := typArg.(*ssa.Call); !ok || !strings.HasPrefix(calleeBare(tc.Common()), "NewType") {
				c.Fail("C05-W1", c1, ci.Pos(), "the type entered is not constructed in this function (NewTypeX): an existing type's canonical value could be overwritten")
			} else {
				c.OK("C05-W1", c1, ci.Pos(), "pool-owned bytes for a freshly constructed type")
			}
			// P2
			c2 := name + " tvPool buffer"
			bad := false
			for _, put := range allCalls(fn) {
				if calleeName(put.Common()) != "(*sync.Pool).Put" {
					continue
				}
				if _, isDefer := put.(*ssa.Defer); isDefer {
					bad = true
					c.Fail("C05-P2", c2, put.Pos(), "deferred tvPool.Put in a function that also enters the buffer into the type tables: the map would alias a recycled buffer")
					continue
				}
				pi := put.(ssa.Instruction)
				none := func(ssa.Instruction) bool { return false }
				if r := reachAvoiding(fn, pi, none, func(x ssa.Instruction) bool { return x == in }); r != nil {
					bad = true
					c.Fail("C05-P2", c2, put.Pos(), "a path returns the buffer to tvPool and then enters it into the type tables")
				}
				if r := reachAvoiding(fn, in, none, func(x ssa.Instruction) bool { return x == pi }); r != nil {
					bad = true
					c.Fail("C05-P2", c2, put.Pos(), "a path enters the buffer into the type tables and then returns it to tvPool")
				}
			}
			if !bad {
				c.OK("C05-P2", c2, ci.Pos(), "Put and enterWithLock are mutually exclusive on every path")
			}
		}
	}
	if nEnter < 8 {
		c.Undecided("C05-L3", "enterWithLock call sites", "fewer than the 8 known LookupTypeX call sites were found")
	}
	// W1(b): every other write of toValue
	for _, fn := range p.FuncsIn("") {
		for _, b := range fn.Blocks {
			for _, x := range b.Instrs {
				mu, ok := x.(*ssa.MapUpdate)
				if !ok || !isFieldLoad(mu.Map, "toValue") {
					continue
				}
				if fn == enter {
					continue
				}
				construct := fnName(fn) + " writes toValue"
				val := stripConv(mu.Value)
				if !isCloneCall(val) {
					c.Fail("C05-W1", construct, mu.Pos(), "toValue is assigned a slice that is not a fresh clone (a caller's slice may alias a recycled buffer)")
					continue
				}
				// guarded by a failed presence test on toValue
				guarded := false
				for _, bb := range fn.Blocks {
					for _, y := range bb.Instrs {
						l, ok := y.(*ssa.Lookup)
						if !ok || !l.CommaOk || !isFieldLoad(l.X, "toValue") || !sameValue(l.Index, mu.Key) {
							continue
						}
						for _, r := range *l.Referrers() {
							if ex, ok := r.(*ssa.Extract); ok && ex.Index == 1 && falseEdgeDominates(ex, mu.Block()) {
								guarded = true
							}
						}
					}
				}
				if guarded {
					c.OK("C05-W1", construct, mu.Pos(), "clone stored only when the type has no entry")
				} else {
					c.Fail("C05-W1", construct, mu.Pos(), "toValue entry may be overwritten: the canonical type value of a type would become history dependent")
				}
			}
		}
	}
	// P1
	if fn := p.Func("(*super.Context).LookupTypeUnion"); fn == nil {
		c.Undecided("C05-P1", "(*super.Context).LookupTypeUnion", "anchor does not resolve")
	} else {
		var sortCall ssa.Instruction
		usesCompareTypes := false
		for _, ci := range allCalls(fn) {
			n := calleeName(ci.Common())
			if n == "sort.SliceStable" || n == "sort.Slice" || n == "slices.SortFunc" || n == "slices.SortStableFunc" || n == "sort.Sort" || n == "sort.Stable" {
				sortCall = ci.(ssa.Instruction)
			}
		}
		for _, an := range fn.AnonFuncs {
			if len(callsTo(an, "super.CompareTypes")) > 0 {
				usesCompareTypes = true
			}
		}
		atv := callsTo(fn, "super.AppendTypeValue")
		switch {
		case sortCall == nil || !usesCompareTypes:
			c.Fail("C05-P1", "(*super.Context).LookupTypeUnion", fn.Pos(), "the member types are not sorted by CompareTypes before the type value is computed: a union's identity would depend on member order")
		case len(atv) == 0:
			c.Undecided("C05-P1", "(*super.Context).LookupTypeUnion", "AppendTypeValue call not found")
		default:
			ok := true
			for _, a := range atv {
				if !dominates(sortCall, a.(ssa.Instruction)) {
					ok = false
				}
			}
			if ok {
				c.OK("C05-P1", "(*super.Context).LookupTypeUnion", sortCall.Pos(), "sort by CompareTypes dominates AppendTypeValue")
			} else {
				c.Fail("C05-P1", "(*super.Context).LookupTypeUnion", sortCall.Pos(), "the type value is computed on a path that has not sorted the member types")
			}
		}
	}
	// K1
	runTypeValueTags(c, "C05-K1")
}

func runTypeValueTags(c *Ctx, rule string) {
	p := c.P
	enc, dec := p.Func("super.appendTypeValue"), p.Func("(*super.Context).DecodeTypeValue")
	if enc == nil || dec == nil {
		c.Undecided(rule, "appendTypeValue/DecodeTypeValue", "anchors do not resolve")
		return
	}
	info := p.Pkgs[""].TypesInfo
	e := constsUsedIn(info, p.Decl(enc).Body, "TypeValue")
	d := caseConsts(info, p.Decl(dec).Body, "TypeValue")
	delete(e, "TypeValueMax")
	if len(e) < 9 {
		c.Undecided(rule, "appendTypeValue", "fewer than the 9 known type-value tags found in the encoder")
	}
	for _, k := range setDiff(e, nil) {
		if d[k] {
			c.OK(rule, "tag "+k, dec.Pos(), "emitted by appendTypeValue and decoded by DecodeTypeValue")
		} else {
			c.Fail(rule, "tag "+k, dec.Pos(), "appendTypeValue emits "+k+" but DecodeTypeValue has no case for it: such types cannot be translated between contexts")
		}
	}
	for _, k := range setDiff(d, e) {
		c.Fail(rule, "tag "+k, dec.Pos(), "DecodeTypeValue decodes "+k+" which appendTypeValue never emits")
	}
}

func isFieldLoad(v ssa.Value, field string) bool {
	u, ok := stripConv(v).(*ssa.UnOp)
	if !ok {
		return false
	}
	fa, ok := u.X.(*ssa.FieldAddr)
	return ok && fieldName(fa.X.Type(), fa.Field) == field
}

// fromTvPool: v is *tv where tv = tvPool.Get().(*[]byte).
func fromTvPool(v ssa.Value) bool {
	u, ok := v.(*ssa.UnOp)
	if !ok {
		return false
	}
	ta, ok := stripConv(u.X).(*ssa.TypeAssert)
	if !ok {
		return false
	}
	call, ok := ta.X.(*ssa.Call)
	return ok && calleeName(call.Common()) == "(*sync.Pool).Get"
}

// isCloneCall: v is a freshly allocated slice owned by the caller.
func isCloneCall(v ssa.Value) bool {
	if sl, ok := v.(*ssa.Slice); ok {
		v = sl.X
	}
	call, ok := v.(*ssa.Call)
	if !ok {
		return false
	}
	switch calleeName(call.Common()) {
	case "slices.Clone", "bytes.Clone", "super.EncodeTypeValue":
		return true
	case "super.AppendTypeValue":
		return isNilConst(call.Call.Args[0])
	}
	return false
}
