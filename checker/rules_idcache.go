package main

import (
	"go/token"

	"golang.org/x/tools/go/ssa"
)

// Caches keyed by *local* (per-stream) type IDs must not outlive the stream / frame they
// were filled for: after an end-of-stream the same numeric IDs denote other types.

// inCycle: instruction can reach itself.
func inCycle(fn *ssa.Function, in ssa.Instruction) bool {
	return reachAvoiding(fn, in, func(ssa.Instruction) bool { return false }, func(x ssa.Instruction) bool { return x == in }) != nil
}

func runIDCaches(c *Ctx, ruleMapper, ruleFinder string) {
	p := c.P
	if ruleMapper != "" {
		c.Rule(ruleMapper, "ID-keyed caches do not outlive their stream: MapperLookupCache.Reset really forgets its entries (clear or fresh slice, not a bare truncation that Lookup's re-extension would resurrect) and scanBatch resets the cache for each frame before decoding values")
		rs := p.Func("(*super.MapperLookupCache).Reset")
		if rs == nil {
			c.Undecided(ruleMapper, "(*super.MapperLookupCache).Reset", "anchor does not resolve")
		} else {
			cleared := false
			for _, ci := range allCalls(rs) {
				if bi, ok := ci.Common().Value.(*ssa.Builtin); ok && bi.Name() == "clear" && isFieldLoad(ci.Common().Args[0], "cache") {
					cleared = true
				}
			}
			for _, fs := range fieldStores(p, "cache") {
				if fs.fn != rs {
					continue
				}
				v := stripConv(fs.store.Val)
				if isNilConst(v) {
					cleared = true
				}
				if _, ok := v.(*ssa.MakeSlice); ok {
					cleared = true
				}
			}
			if cleared {
				c.OK(ruleMapper, "(*super.MapperLookupCache).Reset", rs.Pos(), "entries are cleared (or the slice replaced)")
			} else {
				c.Fail(ruleMapper, "(*super.MapperLookupCache).Reset", rs.Pos(), "Reset only truncates the cache: Lookup re-extends the same backing array (slices.Grow(cache[:0], id+1)[:id+1]) and finds the previous stream's types under the new stream's IDs, so values are handed out with the wrong type")
			}
		}
		sb := p.Func("(*zio/zngio.worker).scanBatch")
		if sb == nil {
			c.Undecided(ruleMapper, "(*zio/zngio.worker).scanBatch", "anchor does not resolve")
		} else {
			resets := callsTo(sb, "(*super.MapperLookupCache).Reset")
			decs := callsTo(sb, "(*zio/zngio.worker).decodeVal")
			ok := len(resets) == 1 && len(decs) >= 1
			if ok {
				for _, d := range decs {
					if !dominates(resets[0].(ssa.Instruction), d.(ssa.Instruction)) {
						ok = false
					}
				}
				// the reset is given this frame's mapper
				if ok && !dependsOn(resets[0].Common().Args[1], func(v ssa.Value) bool {
					prm, isP := v.(*ssa.Parameter)
					return isP && prm == sb.Params[2]
				}) {
					ok = false
				}
			}
			if ok {
				c.OK(ruleMapper, "(*zio/zngio.worker).scanBatch cache reset", sb.Pos(), "mapper cache reset with this frame's mapper before any value is decoded")
			} else {
				c.Fail(ruleMapper, "(*zio/zngio.worker).scanBatch cache reset", sb.Pos(), "values of a frame can be decoded through a type-ID cache that was filled for another frame's (stream's) mapper")
			}
		}
	}
	if ruleFinder != "" {
		c.Rule(ruleFinder, "the field-name finder's per-type-ID memo is per call: Find clears checkedIDs before it looks at the first value, because type IDs are only meaningful within the frame's local context")
		fn := p.Func("(*runtime/sam/expr.FieldNameFinder).Find")
		if fn == nil {
			c.Undecided(ruleFinder, "(*runtime/sam/expr.FieldNameFinder).Find", "anchor does not resolve")
			return
		}
		var reset ssa.Instruction
		var uses []ssa.Instruction
		for _, ci := range allCalls(fn) {
			cc := ci.Common()
			if cc.StaticCallee() == nil || len(cc.Args) == 0 {
				continue
			}
			onMemo := false
			if fa, ok := cc.Args[0].(*ssa.FieldAddr); ok && fieldName(fa.X.Type(), fa.Field) == "checkedIDs" {
				onMemo = true
			}
			if !onMemo {
				continue
			}
			switch calleeBare(cc) {
			case "SetInt64", "SetUint64", "SetBits":
				if k, ok := cc.Args[1].(*ssa.Const); ok && k.Value != nil && k.Int64() == 0 && !inCycle(fn, ci.(ssa.Instruction)) {
					reset = ci.(ssa.Instruction)
				}
			case "Bit", "SetBit":
				uses = append(uses, ci.(ssa.Instruction))
			}
		}
		switch {
		case len(uses) == 0:
			c.OK(ruleFinder, "(*runtime/sam/expr.FieldNameFinder).Find memo", fn.Pos(), "no per-ID memo is kept")
		case reset == nil:
			c.Fail(ruleFinder, "(*runtime/sam/expr.FieldNameFinder).Find memo", fn.Pos(), "the memo of already examined type IDs is not cleared at the start of Find: after an end-of-stream (or in another worker's frame) the same IDs denote other types, so a frame whose record type matches by field name is skipped — ZNG input with several streams drops matches that ZSON input returns")
		default:
			ok := true
			for _, u := range uses {
				if !dominates(reset, u) {
					ok = false
				}
			}
			if ok {
				c.OK(ruleFinder, "(*runtime/sam/expr.FieldNameFinder).Find memo", reset.Pos(), "checkedIDs cleared before the first lookup of every call")
			} else {
				c.Fail(ruleFinder, "(*runtime/sam/expr.FieldNameFinder).Find memo", reset.Pos(), "the per-ID memo is consulted on a path that has not cleared it for this call")
			}
		}
	}
	_ = token.NoPos
}
