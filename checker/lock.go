package main

import (
	"fmt"
	"go/token"
	"go/types"
	"strings"

	"golang.org/x/tools/go/ssa"
)

// LockSpec: fields of Type guarded by its mutex field Mu.
type LockSpec struct {
	Type    string // "super.Context"
	Mu      string
	Guarded []string
	// ReadOnlyAfterInit: fields written only by constructors (not checked).
}

type lockState struct {
	held     int8 // 0 none, 1 read, 2 write
	deferred bool // a deferred unlock is pending
	valid    bool
}

func meet(a, b lockState) lockState {
	if !a.valid {
		return b
	}
	if !b.valid {
		return a
	}
	h := a.held
	if b.held < h {
		h = b.held
	}
	return lockState{h, a.deferred || b.deferred, true}
}

type lockAccess struct {
	in    ssa.Instruction
	field string
	write bool
	state lockState
}

type lockCall struct {
	in     ssa.CallInstruction
	callee *ssa.Function
	state  lockState
	sameRecv bool
}

type lockSummary struct {
	fn        *ssa.Function
	hasLockOp bool
	acquires  bool // takes the lock when entered without it
	accesses  []lockAccess
	calls     []lockCall
	anyCalls  []lockCall // every call instruction with its state (for L2)
	closures  map[*ssa.Function]lockState
	unlocks   []ssa.Instruction
}

func lockOpKind(cc *ssa.CallCommon, spec *LockSpec) (op string, ok bool) {
	f := cc.StaticCallee()
	if f == nil || f.Pkg == nil || f.Pkg.Pkg.Path() != "sync" || len(cc.Args) == 0 {
		return "", false
	}
	switch f.Name() {
	case "Lock", "Unlock", "RLock", "RUnlock":
	default:
		return "", false
	}
	fa, ok2 := cc.Args[0].(*ssa.FieldAddr)
	if !ok2 || fieldName(fa.X.Type(), fa.Field) != spec.Mu || namedOf(fa.X.Type()) != spec.Type {
		return "", false
	}
	return f.Name(), true
}

// analyseLock runs the lock-state dataflow for spec over fn with the given entry state.
func analyseLock(fn *ssa.Function, spec *LockSpec, entry lockState) *lockSummary {
	sum := &lockSummary{fn: fn, closures: map[*ssa.Function]lockState{}}
	guarded := map[string]bool{}
	for _, g := range spec.Guarded {
		guarded[g] = true
	}
	in := make([]lockState, len(fn.Blocks))
	entry.valid = true
	in[0] = entry
	work := []*ssa.BasicBlock{fn.Blocks[0]}
	queued := map[*ssa.BasicBlock]bool{fn.Blocks[0]: true}
	transfer := func(b *ssa.BasicBlock, record bool) lockState {
		st := in[b.Index]
		for _, instr := range b.Instrs {
			switch x := instr.(type) {
			case *ssa.Defer:
				if op, ok := lockOpKind(&x.Call, spec); ok && (op == "Unlock" || op == "RUnlock") {
					st.deferred = true
					if record {
						sum.hasLockOp = true
					}
					continue
				}
				if record {
					sum.noteCall(x, st, spec)
				}
			case *ssa.Call:
				if op, ok := lockOpKind(&x.Call, spec); ok {
					if record {
						sum.hasLockOp = true
						if (op == "Lock" || op == "RLock") && st.held == 0 {
							sum.acquires = true
						}
						if op == "Unlock" || op == "RUnlock" {
							sum.unlocks = append(sum.unlocks, x)
						}
					}
					switch op {
					case "Lock":
						st.held = 2
					case "RLock":
						st.held = 1
					case "Unlock", "RUnlock":
						st.held = 0
					}
					continue
				}
				if record {
					sum.noteCall(x, st, spec)
				}
			case *ssa.Go:
				// a goroutine does not inherit the lock
			case *ssa.MakeClosure:
				if g, ok := x.Fn.(*ssa.Function); ok && record {
					cs := st
					// a closure handed to `go` or `defer` does not run under the current state
					for _, r := range *x.Referrers() {
						if _, isGo := r.(*ssa.Go); isGo {
							cs = lockState{valid: true}
						}
					}
					sum.closures[g] = cs
				}
			case *ssa.FieldAddr:
				if !record || !guarded[fieldName(x.X.Type(), x.Field)] || namedOf(x.X.Type()) != spec.Type {
					continue
				}
				if _, fresh := x.X.(*ssa.Alloc); fresh {
					continue // object under construction, not yet shared
				}
				sum.accesses = append(sum.accesses, lockAccess{x, fieldName(x.X.Type(), x.Field), fieldAddrWritten(x), st})
			}
		}
		return st
	}
	for len(work) > 0 {
		b := work[0]
		work = work[1:]
		queued[b] = false
		out := transfer(b, false)
		for _, s := range b.Succs {
			n := meet(in[s.Index], out)
			if n != in[s.Index] {
				in[s.Index] = n
				if !queued[s] {
					queued[s] = true
					work = append(work, s)
				}
			}
		}
	}
	for _, b := range fn.Blocks {
		if in[b.Index].valid {
			transfer(b, true)
		}
	}
	return sum
}

func (s *lockSummary) noteCall(ci ssa.CallInstruction, st lockState, spec *LockSpec) {
	lc := lockCall{in: ci, state: st}
	if g := ci.Common().StaticCallee(); g != nil {
		lc.callee = g
		if g.Signature.Recv() != nil && namedOf(g.Signature.Recv().Type()) == spec.Type && len(s.fn.Params) > 0 && len(ci.Common().Args) > 0 {
			lc.sameRecv = stripConv(ci.Common().Args[0]) == ssa.Value(s.fn.Params[0])
		}
		s.calls = append(s.calls, lc)
	}
	s.anyCalls = append(s.anyCalls, lc)
}

// fieldAddrWritten: the field (or the map/slice it holds) is modified through this address.
func fieldAddrWritten(fa *ssa.FieldAddr) bool {
	for _, r := range *fa.Referrers() {
		switch x := r.(type) {
		case *ssa.Store:
			if x.Addr == fa {
				return true
			}
		case *ssa.UnOp:
			if x.Op != token.MUL {
				continue
			}
			for _, lr := range *x.Referrers() {
				switch y := lr.(type) {
				case *ssa.MapUpdate:
					if y.Map == x {
						return true
					}
				case *ssa.IndexAddr:
					for _, ir := range *y.Referrers() {
						if st, ok := ir.(*ssa.Store); ok && st.Addr == y {
							return true
						}
					}
				case *ssa.Call:
					if b, ok := y.Call.Value.(*ssa.Builtin); ok && (b.Name() == "delete" || b.Name() == "clear") {
						return true
					}
				}
			}
		}
	}
	return false
}

// checkLockSpec applies rules L1 (guarded accesses under the lock, requires-held
// helpers called with the lock), L2 (no call while a deferred unlock is pending
// on a released mutex), L4 (no re-acquisition of the same mutex on the same
// receiver while it is held).
func checkLockSpec(c *Ctx, prefix string, spec *LockSpec) {
	p := c.P
	pkgPath := spec.Type[:strings.LastIndex(spec.Type, ".")]
	if pkgPath == "super" {
		pkgPath = ""
	}
	tname := spec.Type[strings.LastIndex(spec.Type, ".")+1:]
	t := p.Type(pkgPath, tname)
	if t == nil {
		c.Undecided(prefix+"-L1", spec.Type, "guarded type does not resolve")
		return
	}
	st, _ := t.Underlying().(*types.Struct)
	have := map[string]bool{}
	if st != nil {
		for i := 0; i < st.NumFields(); i++ {
			have[st.Field(i).Name()] = true
		}
	}
	for _, f := range append([]string{spec.Mu}, spec.Guarded...) {
		if !have[f] {
			c.Undecided(prefix+"-L1", spec.Type+"."+f, "field named in the lock table does not exist")
			return
		}
	}
	fns := p.FuncsIn(pkgPath)
	sums := map[*ssa.Function]*lockSummary{}
	entry := map[*ssa.Function]lockState{}
	// closures inherit the state at their creation point; iterate parents first
	var order []*ssa.Function
	for _, f := range fns {
		if f.Parent() == nil {
			order = append(order, f)
		}
	}
	for i := 0; i < len(order); i++ {
		f := order[i]
		s := analyseLock(f, spec, entry[f])
		sums[f] = s
		for g, cs := range s.closures {
			entry[g] = cs
			order = append(order, g)
		}
	}
	// requires-held fixpoint
	need := map[*ssa.Function]int8{}
	for changed := true; changed; {
		changed = false
		for _, f := range order {
			s := sums[f]
			var n int8
			for _, a := range s.accesses {
				req := int8(1)
				if a.write {
					req = 2
				}
				if a.state.held < req && !s.hasLockOp && a.state.held == entry[f].held {
					if req > n {
						n = req
					}
				}
			}
			for _, cl := range s.calls {
				if r := need[cl.callee]; r > 0 && cl.state.held < r && !s.hasLockOp {
					if r > n {
						n = r
					}
				}
			}
			if f.Parent() != nil && entry[f].held >= n {
				n = 0
			}
			if n > need[f] {
				need[f] = n
				changed = true
			}
		}
	}
	lvl := func(n int8) string {
		if n == 2 {
			return "write-locked"
		}
		return "locked"
	}
	for _, f := range order {
		s := sums[f]
		name := constructName(f)
		// L1: direct accesses
		for _, a := range s.accesses {
			req := int8(1)
			if a.write {
				req = 2
			}
			construct := name + " " + map[bool]string{true: "writes", false: "reads"}[a.write] + " " + spec.Type + "." + a.field
			switch {
			case a.state.held >= req:
				c.OK(prefix+"-L1", construct, a.in.Pos(), "with "+spec.Mu+" "+lvl(a.state.held))
			case need[f] >= req && !s.hasLockOp:
				// requires-held helper: obligation moves to its callers
				c.OK(prefix+"-L1", construct, a.in.Pos(), "in a requires-held helper; every caller is checked")
			default:
				c.Fail(prefix+"-L1", construct, a.in.Pos(), fmt.Sprintf("%s.%s is %s without %s %s on some path", spec.Type, a.field, map[bool]string{true: "written", false: "read"}[a.write], spec.Mu, lvl(req)))
			}
		}
		// L1: calls of requires-held helpers
		for _, cl := range s.calls {
			r := need[cl.callee]
			if r == 0 {
				continue
			}
			construct := name + " -> " + fnName(cl.callee) + " (requires " + spec.Mu + ")"
			if cl.state.held >= r || (need[f] >= r && !s.hasLockOp) {
				c.OK(prefix+"-L1", construct, cl.in.Pos(), "called with "+spec.Mu+" held")
			} else {
				c.Fail(prefix+"-L1", construct, cl.in.Pos(), fnName(cl.callee)+" touches guarded state of "+spec.Type+" and is called without "+spec.Mu+" "+lvl(r)+" on some path")
			}
		}
		// exported requires-held function: callers outside cannot hold an unexported mutex
		if need[f] > 0 && f.Parent() == nil && f.Object() != nil && f.Object().Exported() && !strings.HasSuffix(f.Name(), "WithLock") && !strings.HasSuffix(f.Name(), "Locked") {
			c.Fail(prefix+"-L1", name+" (exported, takes no lock)", f.Pos(), "exported function touches guarded state of "+spec.Type+" without acquiring "+spec.Mu)
		}
		// L2
		for _, cl := range s.anyCalls {
			if cl.state.deferred && cl.state.held == 0 {
				construct := name + " calls " + calleeOrDyn(cl.in) + " with a deferred unlock pending on a released mutex"
				c.Fail(prefix+"-L2", construct, cl.in.Pos(), "a panic in this call unwinds through the deferred "+spec.Mu+".Unlock() while "+spec.Mu+" is not held: fatal 'unlock of unlocked mutex', which no recover can contain")
			}
		}
		if s.hasLockOp {
			dl := false
			for _, cl := range s.anyCalls {
				if cl.state.deferred && cl.state.held == 0 {
					dl = true
				}
			}
			if !dl {
				c.OK(prefix+"-L2", name+" deferred-unlock discipline", f.Pos(), "no call is made while a deferred unlock is pending on a released mutex")
			}
		}
		// L4
		for _, cl := range s.calls {
			if cl.sameRecv && cl.state.held > 0 && sums[cl.callee] != nil && sums[cl.callee].acquires {
				c.Fail(prefix+"-L4", name+" -> "+fnName(cl.callee)+" (self-deadlock)", cl.in.Pos(), fnName(cl.callee)+" acquires "+spec.Mu+" of the same receiver while "+name+" already holds it: sync mutexes are not reentrant, the call blocks forever")
			}
		}
	}
}

func calleeOrDyn(ci ssa.CallInstruction) string {
	if n := calleeName(ci.Common()); n != "" {
		return n
	}
	return "a function value"
}
