package main

import (
	"fmt"
	"go/ast"
	"go/parser"
	"go/token"
	"go/types"
	"os"
	"sort"
	"strings"

	"golang.org/x/tools/go/packages"
	"golang.org/x/tools/go/ssa"
	"golang.org/x/tools/go/ssa/ssautil"
)

const modPath = "github.com/brimdata/super"

// Prog is the resolved program: every package of the module type-checked from
// the files currently on disk (dependencies from export data), plus SSA for the
// module's packages.
type Prog struct {
	Root    string
	Fset    *token.FileSet
	Pkgs    map[string]*packages.Package // by import path relative to module ("" = root)
	SSA     *ssa.Program
	SSAPkgs map[string]*ssa.Package
	Funcs   []*ssa.Function          // all module functions (declared, methods, anonymous)
	byName  map[string]*ssa.Function // short name -> function
	decls   map[*types.Func]*ast.FuncDecl
	NPkgs   int
}

func rel(path string) string {
	if path == modPath {
		return ""
	}
	return strings.TrimPrefix(path, modPath+"/")
}

// short strips the module path from a qualified name.
func short(s string) string {
	s = strings.ReplaceAll(s, modPath+"/", "")
	s = strings.ReplaceAll(s, "github.com/brimdata/", "")
	return s
}

func Load(root string, overlay map[string][]byte) (*Prog, error) {
	env := append(os.Environ(), "GOFLAGS=-mod=mod", "GOPROXY=off", "GOWORK=off", "GOSUMDB=off", "GOTOOLCHAIN=local")
	cfg := &packages.Config{
		Mode:    packages.LoadSyntax | packages.NeedModule,
		Dir:     root,
		Env:     env,
	}
	if len(overlay) > 0 {
		// Self-test mutants: substitute the file's content at parse time.  (A
		// go/packages Overlay would make `go list -export` recompile every
		// dependent package; the mutants never change imports, so replacing the
		// source seen by the parser is equivalent and costs nothing.)
		cfg.ParseFile = func(fset *token.FileSet, filename string, src []byte) (*ast.File, error) {
			if o, ok := overlay[filename]; ok {
				src = o
			}
			return parser.ParseFile(fset, filename, src, parser.AllErrors|parser.ParseComments)
		}
	}
	pkgs, err := packages.Load(cfg, "./...")
	if err != nil {
		return nil, err
	}
	collect := func() []string {
		var errs []string
		for _, p := range pkgs {
			for _, e := range p.Errors {
				errs = append(errs, e.Error())
			}
		}
		return errs
	}
	errs := collect()
	if len(overlay) > 0 && len(errs) > 0 && strings.Contains(strings.Join(errs, ";"), "no metadata for") {
		// The mutant adds an import its package did not have: only a real
		// go/packages Overlay makes `go list` see the new dependency.
		cfg.ParseFile = nil
		cfg.Overlay = overlay
		if pkgs, err = packages.Load(cfg, "./..."); err != nil {
			return nil, err
		}
		errs = collect()
	}
	if len(errs) > 0 {
		if len(errs) > 10 {
			errs = errs[:10]
		}
		return nil, fmt.Errorf("type-check/load errors: %s", strings.Join(errs, "; "))
	}
	if len(pkgs) < 150 {
		return nil, fmt.Errorf("only %d packages loaded (floor 150)", len(pkgs))
	}
	p := &Prog{Root: root, Pkgs: map[string]*packages.Package{}, SSAPkgs: map[string]*ssa.Package{},
		byName: map[string]*ssa.Function{}, decls: map[*types.Func]*ast.FuncDecl{}, NPkgs: len(pkgs)}
	p.Fset = pkgs[0].Fset
	prog, spkgs := ssautil.Packages(pkgs, ssa.InstantiateGenerics|ssa.GlobalDebug)
	prog.Build()
	p.SSA = prog
	for i, pk := range pkgs {
		p.Pkgs[rel(pk.PkgPath)] = pk
		if spkgs[i] == nil {
			return nil, fmt.Errorf("no SSA for %s", pk.PkgPath)
		}
		p.SSAPkgs[rel(pk.PkgPath)] = spkgs[i]
		for _, f := range pk.Syntax {
			for _, d := range f.Decls {
				if fd, ok := d.(*ast.FuncDecl); ok {
					if obj, ok := pk.TypesInfo.Defs[fd.Name].(*types.Func); ok {
						p.decls[obj] = fd
					}
				}
			}
		}
	}
	for fn := range ssautil.AllFunctions(prog) {
		if fn.Pkg == nil && fn.Parent() == nil && fn.Origin() == nil {
			continue
		}
		pk := fn.Pkg
		if pk == nil && fn.Origin() != nil {
			pk = fn.Origin().Pkg
		}
		if pk == nil {
			for q := fn; q != nil; q = q.Parent() {
				if q.Pkg != nil {
					pk = q.Pkg
					break
				}
			}
		}
		if pk == nil || !strings.HasPrefix(pk.Pkg.Path(), modPath) {
			continue
		}
		if fn.Blocks == nil {
			continue
		}
		if fn.Synthetic != "" && !strings.HasPrefix(fn.Synthetic, "instance of") {
			continue // wrappers, thunks, bound methods
		}
		p.Funcs = append(p.Funcs, fn)
		p.byName[short(fn.String())] = fn
	}
	sort.Slice(p.Funcs, func(i, j int) bool { return p.Funcs[i].String() < p.Funcs[j].String() })
	return p, nil
}

// Func returns the function with the given short name, e.g.
// "(*zio/zngio.Writer).flush", "zio/zngio.NewWriter", "(*super.Context).LookupByValue".
func (p *Prog) Func(name string) *ssa.Function { return p.byName[name] }

func (p *Prog) Decl(fn *ssa.Function) *ast.FuncDecl {
	if obj, ok := fn.Object().(*types.Func); ok {
		return p.decls[obj]
	}
	return nil
}

// FuncsIn returns module functions (incl. anonymous) whose package is one of paths.
func (p *Prog) FuncsIn(paths ...string) []*ssa.Function {
	set := map[string]bool{}
	for _, s := range paths {
		set[s] = true
	}
	var out []*ssa.Function
	for _, fn := range p.Funcs {
		if set[p.PkgOf(fn)] {
			out = append(out, fn)
		}
	}
	return out
}

func (p *Prog) PkgOf(fn *ssa.Function) string {
	for q := fn; q != nil; q = q.Parent() {
		if q.Pkg != nil {
			return rel(q.Pkg.Pkg.Path())
		}
		if q.Origin() != nil && q.Origin().Pkg != nil {
			return rel(q.Origin().Pkg.Pkg.Path())
		}
	}
	return "?"
}

func (p *Prog) Pos(pos token.Pos) string {
	if !pos.IsValid() {
		return "-"
	}
	ps := p.Fset.Position(pos)
	f := strings.TrimPrefix(ps.Filename, p.Root+"/")
	return fmt.Sprintf("%s:%d", f, ps.Line)
}

// Type looks up a named type "pkg.Name" (pkg relative to module; "" root => "super.Name").
func (p *Prog) Type(pkg, name string) types.Type {
	pk := p.Pkgs[pkg]
	if pk == nil {
		return nil
	}
	o := pk.Types.Scope().Lookup(name)
	if o == nil {
		return nil
	}
	return o.Type()
}
