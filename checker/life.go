package main

import (
	"go/token"
	"go/types"
	"strings"

	"golang.org/x/tools/go/ssa"
)

// E-life: the zio.Reader ownership contract.  "Implementations retain
// ownership of val and val.Bytes: a subsequent Read may overwrite them."
// A value obtained from Read/Peek must not be used after the next Read on the
// same reader, nor escape (stored, returned, sent), unless it was copied.

type lifeReport struct {
	in  ssa.Instruction
	why string
}

func isReaderSource(cc *ssa.CallCommon) bool {
	n := calleeBare(cc)
	if n != "Read" && n != "Peek" {
		return false
	}
	res := cc.Signature().Results()
	if res.Len() < 1 {
		return false
	}
	p, ok := res.At(0).Type().(*types.Pointer)
	return ok && namedOf(p.Elem()) == "super.Value"
}

func recvExpr(cc *ssa.CallCommon) string {
	var r ssa.Value
	if cc.IsInvoke() {
		r = cc.Value
	} else if len(cc.Args) > 0 {
		r = cc.Args[0]
	}
	if r == nil {
		return "?"
	}
	if p := fieldPath(stripConv(r)); p != "" {
		return p
	}
	return r.Name()
}

// readerLifetime checks every Read/Peek result in fn.
func readerLifetime(p *Prog, fn *ssa.Function) (sources int, reports []lifeReport) {
	for _, ci := range allCalls(fn) {
		cc := ci.Common()
		if !isReaderSource(cc) {
			continue
		}
		call, ok := ci.(*ssa.Call)
		if !ok {
			continue
		}
		var src ssa.Value = call
		if cc.Signature().Results().Len() > 1 {
			src = nil
			for _, r := range *call.Referrers() {
				if ex, ok := r.(*ssa.Extract); ok && ex.Index == 0 {
					src = ex
				}
			}
		}
		if src == nil {
			continue
		}
		sources++
		recv := recvExpr(cc)
		// invalidators: Read on the same reader expression
		var invs []ssa.Instruction
		for _, cj := range allCalls(fn) {
			cj2 := cj.Common()
			if calleeBare(cj2) == "Read" && isReaderSource(cj2) && recvExpr(cj2) == recv {
				invs = append(invs, cj.(ssa.Instruction))
			}
		}
		// derived (uncopied) values and whether they are loop-carried past the source
		derived := map[ssa.Value]bool{} // value -> carried
		var visit func(v ssa.Value, carried bool)
		escape := func(in ssa.Instruction, why string) {
			reports = append(reports, lifeReport{in, why})
		}
		visit = func(v ssa.Value, carried bool) {
			if c0, ok := derived[v]; ok && (c0 || !carried) {
				return
			}
			derived[v] = carried
			refs := v.Referrers()
			if refs == nil {
				return
			}
			for _, r := range *refs {
				switch x := r.(type) {
				case *ssa.DebugRef:
				case *ssa.Phi:
					if phiOnlyNil(x, v) {
						continue
					}
					cr := carried || x.Block().Dominates(call.Block()) && x.Block() != call.Block() || (x.Block() == call.Block())
					visit(x, cr)
				case *ssa.UnOp:
					if x.Op == token.MUL && (ownTracked(x.Type())) {
						visit(x, carried)
					}
				case *ssa.Field, *ssa.FieldAddr, *ssa.Slice, *ssa.ChangeType, *ssa.MakeInterface, *ssa.IndexAddr, *ssa.Index, *ssa.Extract:
					if val := r.(ssa.Value); ownTracked(val.Type()) || isAddrOfTracked(val) {
						visit(val, carried)
					}
				case *ssa.Return:
					if isReaderLike(fn) {
						continue // a reader adapter hands the value on under the same contract
					}
					escape(x, "returned to the caller without a copy")
				case *ssa.Send:
					if x.X == v {
						escape(x, "sent on a channel without a copy")
					}
				case *ssa.MapUpdate:
					if x.Value == v {
						escape(x, "stored in a map without a copy")
					}
				case *ssa.Store:
					if x.Val != v {
						continue
					}
					k, root := addrRoot(fn, x.Addr)
					if k == "retained" && sameRoot(root, cc) {
						continue // an adapter caching the reader-owned value next to the reader it came from; its own Read/Peek methods are checked
					}
					if k == "retained" {
						escape(x, "stored in state that outlives the next Read ("+describeAddr(x.Addr)+") without a copy")
					} else if k == "local" && root != nil {
						if holdsReader(root, cc) {
							continue // constructing an adapter that keeps the value next to its reader
						}
						visit(root, carried)
					}
				case ssa.CallInstruction:
					cc2 := x.Common()
					name := calleeName(cc2)
					if ownSanitizers[name] {
						continue
					}
					if bi, ok := cc2.Value.(*ssa.Builtin); ok {
						if bi.Name() == "append" {
							if c2, ok := x.(*ssa.Call); ok {
								if len(cc2.Args) == 2 && cc2.Args[1] == v && isByteSlice(c2.Type()) {
									continue
								}
								visit(c2, carried)
							}
						}
						continue
					}
					// a same-package callee must not retain the reader-owned value
					if g := cc2.StaticCallee(); g != nil && g.Blocks != nil && p.PkgOf(g) == p.PkgOf(fn) {
						for i, a := range cc2.Args {
							if a == v && i < len(g.Params) {
								oe := newOwnEngine(p)
								oe.run(g, []ssa.Value{g.Params[i]}, nil, 1)
								for _, rep := range oe.reports {
									reports = append(reports, lifeReport{rep.in, rep.why + " in " + fnName(g) + " without a copy"})
								}
							}
						}
					}
					if c2, ok := x.(*ssa.Call); ok && ownTracked(c2.Type()) && (isDeriver(cc2, name) || name == "zbuf.NewArray" || name == "zbuf.NewBatch") {
						visit(c2, carried)
					}
				}
			}
		}
		visit(src, false)
		// use after invalidation
		none := func(ssa.Instruction) bool { return false }
		for d, carried := range derived {
			refs := d.Referrers()
			if refs == nil {
				continue
			}
			for _, u := range *refs {
				if _, isDbg := u.(*ssa.DebugRef); isDbg {
					continue
				}
				if _, isPhi := u.(*ssa.Phi); isPhi {
					continue
				}
				for _, inv := range invs {
					if inv == ssa.Instruction(call) && !carried {
						continue
					}
					// inv must be reachable from the source
					if inv != ssa.Instruction(call) && reachAvoiding(fn, call, none, func(x ssa.Instruction) bool { return x == inv }) == nil {
						continue
					}
					avoid := none
					if !carried {
						avoid = func(x ssa.Instruction) bool { return x == ssa.Instruction(call) }
					}
					if reachAvoiding(fn, inv, avoid, func(x ssa.Instruction) bool { return x == u }) != nil {
						reports = append(reports, lifeReport{u, "used after the next " + recv + ".Read() (at " + p.Pos(inv.Pos()) + ") without a copy: the reader may have overwritten it"})
					}
				}
			}
		}
	}
	return
}

func runReaderLifetime(c *Ctx, rule string, pkgs ...string) {
	p := c.P
	total := 0
	for _, fn := range p.FuncsIn(pkgs...) {
		n, reps := readerLifetime(p, fn)
		if n == 0 {
			continue
		}
		total += n
		construct := constructName(fn) + " values obtained from a Reader"
		if len(reps) == 0 {
			c.OK(rule, construct, fn.Pos(), sprint(n)+" Read/Peek results: copied before they escape or before the next Read")
			continue
		}
		seen := map[string]bool{}
		for _, r := range reps {
			k := p.Pos(r.in.Pos()) + r.why
			if seen[k] {
				continue
			}
			seen[k] = true
			c.Fail(rule, construct, r.in.Pos(), "a value handed out by a zio.Reader (which keeps ownership) is "+r.why)
		}
	}
	if total < 8 {
		c.Undecided(rule, "reader consumers", "fewer than 8 Read/Peek call sites found in "+strings.Join(pkgs, ","))
	}
}

// isReaderLike: fn itself returns a *zed.Value first (Read/Peek/next helpers and constructors of peeking adapters).
func isReaderLike(fn *ssa.Function) bool {
	res := fn.Signature.Results()
	if res.Len() == 0 {
		return false
	}
	if p, ok := res.At(0).Type().(*types.Pointer); ok && namedOf(p.Elem()) == "super.Value" {
		return true
	}
	return false
}

// sameRoot: the store goes into the object that also holds the reader the value came from.
func sameRoot(storeRoot ssa.Value, src *ssa.CallCommon) bool {
	var r ssa.Value
	if src.IsInvoke() {
		r = src.Value
	} else if len(src.Args) > 0 {
		r = src.Args[0]
	}
	if r == nil {
		return false
	}
	_, rr := addrRoot(nil, stripConv(r))
	return rr == storeRoot
}

// holdsReader: the local object also has the source's reader stored into it.
func holdsReader(obj ssa.Value, src *ssa.CallCommon) bool {
	var r ssa.Value
	if src.IsInvoke() {
		r = src.Value
	} else if len(src.Args) > 0 {
		r = src.Args[0]
	}
	r = stripConv(r)
	refs := obj.Referrers()
	if refs == nil || r == nil {
		return false
	}
	for _, u := range *refs {
		fa, ok := u.(*ssa.FieldAddr)
		if !ok {
			continue
		}
		for _, s := range *fa.Referrers() {
			if st, ok := s.(*ssa.Store); ok {
				sv := stripConv(st.Val)
				if sv == r {
					return true
				}
				// the reader is a (promoted) field of the stored object
				x := r
				for i := 0; i < 10; i++ {
					switch y := x.(type) {
					case *ssa.UnOp:
						x = y.X
						continue
					case *ssa.FieldAddr:
						x = y.X
						if x == sv {
							return true
						}
						continue
					}
					break
				}
			}
		}
	}
	return false
}
