package main

func init() {
	addMutants(
		Mutant{"C20", "c20-no-mixin", "runtime/sam/op/fuse/fuser.go", "Fuser.Write",
			"f.uberSchema.Mixin(rec.Type())\n", "", "C20-M1", "Fuser).Write"},
		Mutant{"C20", "c20-mixin-only-when-in-memory", "runtime/sam/op/fuse/fuser.go", "Fuser.Write",
			"if _, ok := f.types[rec.Type()]; !ok {\n\t\tf.types[rec.Type()] = struct{}{}\n\t\tf.uberSchema.Mixin(rec.Type())\n\t}\n\tif f.spiller != nil {\n\t\treturn f.spiller.Write(rec)\n\t}", "if f.spiller != nil {\n\t\treturn f.spiller.Write(rec)\n\t}\n\tif _, ok := f.types[rec.Type()]; !ok {\n\t\tf.types[rec.Type()] = struct{}{}\n\t\tf.uberSchema.Mixin(rec.Type())\n\t}", "C20-M1", "Fuser).Write"},
		Mutant{"C20", "c20-stash-nocopy", "runtime/sam/op/fuse/fuser.go", "Fuser.stash",
			"f.vals = append(f.vals, rec.Copy())", "f.vals = append(f.vals, rec)", "C20-W2", "Fuser).Write"},
		Mutant{"C20", "c20-current-first", "runtime/sam/op/fuse/fuser.go", "Fuser.stash",
			"for _, rec := range f.vals {\n\t\t\tif err := f.spiller.Write(rec); err != nil {\n\t\t\t\treturn err\n\t\t\t}\n\t\t}\n\t\tf.vals = nil\n\t\treturn f.spiller.Write(rec)", "if err := f.spiller.Write(rec); err != nil {\n\t\t\treturn err\n\t\t}\n\t\tfor _, rec := range f.vals {\n\t\t\tif err := f.spiller.Write(rec); err != nil {\n\t\t\t\treturn err\n\t\t\t}\n\t\t}\n\t\tf.vals = nil\n\t\treturn nil", "C20-O1", "Fuser).stash"},
		Mutant{"C20", "c20-stash-after-spill", "runtime/sam/op/fuse/fuser.go", "Fuser.Write",
			"if f.spiller != nil {\n\t\treturn f.spiller.Write(rec)\n\t}\n\treturn f.stash(rec)", "if f.spiller != nil && f.nbytes >= f.memMaxBytes {\n\t\treturn f.spiller.Write(rec)\n\t}\n\treturn f.stash(rec)", "C20-O1", "routes to the spill file"},
		Mutant{"C20", "c20-no-fill", "runtime/sam/op/fuse/fuser.go", "Fuser.Read",
			"expr.Cast|expr.Fill|expr.Order", "expr.Cast|expr.Order", "C20-R1", "shaper flags"},
	)
}
