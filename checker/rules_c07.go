package main

import (
	"go/ast"
	"go/token"
	"go/types"
	"sort"
	"strings"

	"golang.org/x/tools/go/ssa"
)

// typeSwitchOn returns the type switches in fn's declaration whose tag has the named interface type.
func typeSwitchOn(p *Prog, fn *ssa.Function, iface string) []*typeSwitchInfo {
	d := p.Decl(fn)
	pk := p.pkgOfFunc(fn)
	if d == nil || pk == nil {
		return nil
	}
	var out []*typeSwitchInfo
	for _, ts := range typeSwitches(pk.TypesInfo, d.Body) {
		if namedOf(ts.tagType) == iface {
			out = append(out, ts)
		}
	}
	return out
}

// clauseOf returns the case clause of ts that lists type name (pkg.Name), or nil.
func clauseOf(info *types.Info, ts *typeSwitchInfo, name string) *ast.CaseClause {
	for _, s := range ts.stmt.Body.List {
		cc := s.(*ast.CaseClause)
		for _, l := range cc.List {
			if namedOf(info.TypeOf(l)) == name {
				return cc
			}
		}
	}
	return nil
}

func isCallTo(info *types.Info, e ast.Expr, pkgSuffix, name string) bool {
	call, ok := ast.Unparen(e).(*ast.CallExpr)
	if !ok {
		return false
	}
	f := calleeObj(info, call)
	return f != nil && f.Name() == name && f.Pkg() != nil && strings.HasSuffix(f.Pkg().Path(), pkgSuffix)
}

func runC07(c *Ctx, tier string) {
	p := c.P
	c.Rule("C07-D1", "unknown => conservative: the default arms of the optimizer's type switches over dag.Op / dag.Expr yield demand.All() (field demand) and unknown order (sort keys)")
	c.Rule("C07-D2", "parallel legs get copies: every op placed into more than one path is a fresh copyOp/copyOps made inside the per-leg loop")
	c.Rule("C07-D3", "partials pairing: PartialsOut on the per-leg copies and PartialsIn on the tail are set on the same paths, guarded against re-splitting")
	c.Rule("C07-D4", "adjacent filters are and-ed in order: mergeFilters builds NewBinaryExpr(\"and\", first.Expr, second.Expr)")
	c.Rule("C07-D5", "frozen operator tables: only order-preserving operators pass the input sort key through; the set of operators lifted into parallel legs and the set that ends a concurrent path are the confirmed ones")
	pk := p.Pkgs["compiler/optimizer"]
	if pk == nil {
		c.Undecided("C07-D1", "compiler/optimizer", "package not loaded")
		return
	}
	info := pk.TypesInfo

	// D1
	for _, spec := range []struct{ fn, iface string }{
		{"compiler/optimizer.inferDemandSeqOutWith", "compiler/ast/dag.Op"},
		{"compiler/optimizer.inferDemandExprIn", "compiler/ast/dag.Expr"},
	} {
		fn := p.Func(spec.fn)
		if fn == nil {
			c.Undecided("C07-D1", spec.fn, "anchor does not resolve")
			continue
		}
		tss := typeSwitchOn(p, fn, spec.iface)
		if len(tss) == 0 {
			c.Undecided("C07-D1", spec.fn, "type switch over "+spec.iface+" not found")
			continue
		}
		ts := tss[0]
		construct := spec.fn + " default arm"
		ok := false
		if ts.hasDefault {
			for _, st := range ts.defBody {
				switch x := st.(type) {
				case *ast.AssignStmt:
					if len(x.Rhs) == 1 && isCallTo(info, x.Rhs[0], "optimizer/demand", "All") {
						ok = true
					}
				case *ast.ReturnStmt:
					if len(x.Results) == 1 && isCallTo(info, x.Results[0], "optimizer/demand", "All") {
						ok = true
					}
				}
			}
		}
		if ok {
			c.OK("C07-D1", construct, ts.stmt.Pos(), "an operator/expression without an explicit case demands its entire input")
		} else {
			c.Fail("C07-D1", construct, ts.stmt.Pos(), "an operator/expression without an explicit case does not conservatively demand all fields: the scanner drops fields a newly added or unlisted operator still reads, so the optimized plan computes on truncated records")
		}
	}
	if fn := p.Func("(*compiler/optimizer.Optimizer).analyzeSortKeys"); fn == nil {
		c.Undecided("C07-D1", "Optimizer.analyzeSortKeys", "anchor does not resolve")
	} else {
		tss := typeSwitchOn(p, fn, "compiler/ast/dag.Op")
		if len(tss) < 2 {
			c.Undecided("C07-D1", "Optimizer.analyzeSortKeys", "expected two type switches over dag.Op")
		} else {
			ts := tss[len(tss)-1]
			ok := false
			if ts.hasDefault {
				for _, st := range ts.defBody {
					if r, isRet := st.(*ast.ReturnStmt); isRet && len(r.Results) == 2 && types.ExprString(r.Results[0]) == "nil" {
						ok = true
					}
				}
			}
			if ok {
				c.OK("C07-D1", "Optimizer.analyzeSortKeys default arm", ts.stmt.Pos(), "an operator without an explicit case makes the order unknown")
			} else {
				c.Fail("C07-D1", "Optimizer.analyzeSortKeys default arm", ts.stmt.Pos(), "an operator without an explicit case is assumed to preserve the sort order: downstream merges, streaming group-bys and skipped sorts then rely on an order the data does not have")
			}
			// D5: arms that pass `in` through
			allowed := setOf("compiler/ast/dag.Filter", "compiler/ast/dag.Head", "compiler/ast/dag.Pass", "compiler/ast/dag.Uniq", "compiler/ast/dag.Tail", "compiler/ast/dag.Fuse", "compiler/ast/dag.Output")
			for _, s := range ts.stmt.Body.List {
				cc := s.(*ast.CaseClause)
				if len(cc.Body) != 1 {
					continue
				}
				r, isRet := cc.Body[0].(*ast.ReturnStmt)
				if !isRet || len(r.Results) != 2 {
					continue
				}
				id, isId := r.Results[0].(*ast.Ident)
				if !isId || len(fnParams(p, fn)) < 2 || id.Name != fnParams(p, fn)[1] {
					continue
				}
				for _, l := range cc.List {
					n := namedOf(info.TypeOf(l))
					construct := "analyzeSortKeys passes order through " + strings.TrimPrefix(n, "compiler/ast/")
					if allowed[n] {
						c.OK("C07-D5", construct, l.Pos(), "order-preserving operator (confirmed)")
					} else {
						c.Fail("C07-D5", construct, l.Pos(), "this operator is declared order-preserving but is not in the confirmed table (filter, head, pass, uniq, tail, fuse, output): if it reorders or rewrites the key, merges and streaming group-bys downstream become wrong")
					}
				}
			}
		}
	}

	// D5: concurrentPath stop set and lift set
	if fn := p.Func("(*compiler/optimizer.Optimizer).concurrentPath"); fn == nil {
		c.Undecided("C07-D5", "Optimizer.concurrentPath", "anchor does not resolve")
	} else if tss := typeSwitchOn(p, fn, "compiler/ast/dag.Op"); len(tss) == 0 {
		c.Undecided("C07-D5", "Optimizer.concurrentPath", "type switch not found")
	} else {
		ts := tss[0]
		mustStop := []string{"Summarize", "Sort", "Load", "Fork", "Scatter", "Mirror", "Head", "Tail", "Uniq", "Fuse", "Join", "Output"}
		for _, op := range mustStop {
			n := "compiler/ast/dag." + op
			cc := clauseOf(info, ts, n)
			construct := "concurrentPath ends the concurrent path at dag." + op
			stops := false
			if cc != nil && len(cc.Body) > 0 {
				// the arm must end the path on every branch: its last statement is a return
				if r, ok := cc.Body[len(cc.Body)-1].(*ast.ReturnStmt); ok && len(r.Results) == 5 {
					stops = true
				}
			}
			if stops {
				c.OK("C07-D5", construct, ts.stmt.Pos(), "explicit case returning the path length")
			} else {
				c.Fail("C07-D5", construct, ts.stmt.Pos(), "dag."+op+" no longer ends the concurrent path: it would be replicated into every scan leg, where it sees only part of the data (per-leg head/uniq/join/sort/aggregate is not the operator applied to the whole stream)")
			}
		}
	}
	if fn := p.Func("(*compiler/optimizer.Optimizer).liftIntoParPaths"); fn == nil {
		c.Undecided("C07-D5", "Optimizer.liftIntoParPaths", "anchor does not resolve")
	} else if tss := typeSwitchOn(p, fn, "compiler/ast/dag.Op"); len(tss) < 2 {
		c.Undecided("C07-D5", "Optimizer.liftIntoParPaths", "type switches not found")
	} else {
		ts := tss[len(tss)-1]
		liftable := setOf("compiler/ast/dag.Summarize", "compiler/ast/dag.Sort", "compiler/ast/dag.Head", "compiler/ast/dag.Tail", "compiler/ast/dag.Cut", "compiler/ast/dag.Drop", "compiler/ast/dag.Put", "compiler/ast/dag.Rename", "compiler/ast/dag.Filter")
		var names []string
		for n := range ts.cases {
			names = append(names, n)
		}
		sort.Strings(names)
		for _, n := range names {
			construct := "liftIntoParPaths lifts " + strings.TrimPrefix(n, "compiler/ast/")
			if liftable[n] {
				c.OK("C07-D5", construct, ts.stmt.Pos(), "confirmed liftable (with its guard)")
			} else {
				c.Fail("C07-D5", construct, ts.stmt.Pos(), "an operator outside the confirmed table is copied into the parallel legs: per-leg application must commute with the merge/combine of the legs, which has only been confirmed for summarize (as partials), sort (on the merge key), head, tail, cut, drop, put, rename and filter")
			}
		}
	}

	// D6
	runSummarizeSiblingGuards(c, "C07-D6")
	runDemandCoverage(c, "C07-D7")
	runFilterPushdownKept(c, "C07-D8")
	runSortFieldPairing(c, "C07-D9", "C07-N2")
	runStatefulNotParallel(c, "C07-X1")
	runSortKeyOverlap(c, "C07-K2")
	runMergeOrderNeedsSortedParents(c, "C07-M1")
	runCutOrderFromCopies(c, "C07-K3")
	c.Rule("C07-F1", "a predicate pushed into a scan becomes a prefilter that over-approximates it (= C04-F1): the and/or composition of CompileBufferFilter keeps a one-sided sub-filter only under `and`")
	c.borrow(func(t *Ctx) { runC04F1(t) }, map[string]string{"C04-F1": "C07-F1"})
	runFilterInstancesArePrivate(c, "C07-F3")
	// D2
	runLegsGetCopies(c, "C07-D2")
	// D3
	runPartialsPairing(c, "C07-D3")

	// D4
	if fn := p.Func("compiler/optimizer.mergeFilters"); fn == nil {
		c.Undecided("C07-D4", "compiler/optimizer.mergeFilters", "anchor does not resolve")
	} else {
		found := false
		fns := append([]*ssa.Function{fn}, fn.AnonFuncs...)
		for _, g := range fns {
			for _, ci := range callsTo(g, "compiler/ast/dag.NewBinaryExpr") {
				found = true
				args := ci.Common().Args
				op, isK := args[0].(*ssa.Const)
				first := dependsOn(args[1], func(v ssa.Value) bool {
					ia, ok := v.(*ssa.IndexAddr)
					if !ok {
						return false
					}
					_, isAdd := ia.Index.(*ssa.BinOp)
					return !isAdd
				}) && !dependsOn(args[1], func(v ssa.Value) bool {
					ia, ok := v.(*ssa.IndexAddr)
					if !ok {
						return false
					}
					b, isAdd := ia.Index.(*ssa.BinOp)
					return isAdd && b.Op == token.ADD
				})
				second := dependsOn(args[2], func(v ssa.Value) bool {
					ia, ok := v.(*ssa.IndexAddr)
					if !ok {
						return false
					}
					b, isAdd := ia.Index.(*ssa.BinOp)
					return isAdd && b.Op == token.ADD
				})
				switch {
				case !isK || op.Value == nil || op.Value.ExactString() != `"and"`:
					c.Fail("C07-D4", "mergeFilters combinator", ci.Pos(), "adjacent filters are not combined with `and`")
				case !first || !second:
					c.Fail("C07-D4", "mergeFilters operand order", ci.Pos(), "the merged predicate is not (first filter) and (second filter): short-circuit order is observable through errors and through what the second filter is evaluated on")
				default:
					c.OK("C07-D4", "mergeFilters", ci.Pos(), "NewBinaryExpr(\"and\", seq[i].Expr, seq[i+1].Expr)")
				}
			}
		}
		if !found {
			c.Fail("C07-D4", "mergeFilters", fn.Pos(), "mergeFilters no longer builds a binary `and` of the two predicates")
		}
	}
	runNullsFirstSortNotPropagated(c, "C07-N3")
	runJoinSidesSwapTogether(c, "C07-J1")
	runOnlyLeadingFilterPushed(c, "C07-F2")
	runMultiParentSortKeyOnlyForMerge(c, "C07-M2")
}

func fnParams(p *Prog, fn *ssa.Function) []string {
	d := p.Decl(fn)
	if d == nil {
		return nil
	}
	return paramNames(d)
}

// runLegsGetCopies: D2.
func runLegsGetCopies(c *Ctx, rule string) {
	p := c.P
	isCopy := func(v ssa.Value) bool {
		call, ok := v.(*ssa.Call)
		if !ok {
			return false
		}
		n := calleeName(call.Common())
		return n == "compiler/optimizer.copyOp" || n == "compiler/optimizer.copyOps"
	}
	inLoop := func(fn *ssa.Function, in ssa.Instruction) bool {
		return reachAvoiding(fn, in, func(ssa.Instruction) bool { return false }, func(x ssa.Instruction) bool { return x == in }) != nil
	}
	n := 0
	for _, name := range []string{"(*compiler/optimizer.Optimizer).liftIntoParPaths", "(*compiler/optimizer.Optimizer).parallelizeSeqScan", "(*compiler/optimizer.Optimizer).OptimizeDeleter"} {
		fn := p.Func(name)
		if fn == nil {
			c.Undecided(rule, name, "anchor does not resolve")
			continue
		}
		for _, b := range fn.Blocks {
			for _, in := range b.Instrs {
				var v ssa.Value
				what := ""
				switch x := in.(type) {
				case *ssa.Call:
					cn := calleeName(x.Common())
					if cn == "(*compiler/ast/dag.Seq).Append" && inLoop(fn, x) {
						v, what = x.Call.Args[1], "Seq.Append"
					}
					if bi, ok := x.Call.Value.(*ssa.Builtin); ok && bi.Name() == "append" && inLoop(fn, x) && len(x.Call.Args) == 2 {
						if s, ok := x.Type().Underlying().(*types.Slice); ok && namedOf(s.Elem()) == "compiler/ast/dag.Seq" {
							v, what = x.Call.Args[1], "append(Paths, …)"
						}
					}
				case *ssa.Store:
					if ia, ok := x.Addr.(*ssa.IndexAddr); ok && namedOf(x.Val.Type()) == "compiler/ast/dag.Seq" && inLoop(fn, x) {
						_ = ia
						v, what = x.Val, "Paths[k] ="
					}
				}
				if v == nil {
					continue
				}
				n++
				construct := fnName(fn) + " " + what + " #" + sprint(n)
				copied := dependsOn(v, func(w ssa.Value) bool {
					if !isCopy(w) {
						return false
					}
					return inLoop(fn, w.(*ssa.Call))
				})
				if copied {
					c.OK(rule, construct, in.Pos(), "each leg receives its own copy")
				} else {
					c.Fail(rule, construct, in.Pos(), "the same dag.Op value is placed into several parallel paths: a later in-place edit (PartialsOut, demand fields, pushed-down filters) of one leg changes all legs and the tail")
				}
			}
		}
	}
	if n < 5 {
		c.Undecided(rule, "per-leg placements", "fewer than 5 per-leg placements found")
	}
}

// runPartialsPairing: D3.
func runPartialsPairing(c *Ctx, rule string) {
	p := c.P
	fn := p.Func("(*compiler/optimizer.Optimizer).liftIntoParPaths")
	if fn == nil {
		c.Undecided(rule, "Optimizer.liftIntoParPaths", "anchor does not resolve")
		return
	}
	var sOut, sIn *ssa.Store
	for _, fs := range fieldStores(p, "PartialsOut") {
		if fs.fn == fn {
			sOut = fs.store
		}
	}
	for _, fs := range fieldStores(p, "PartialsIn") {
		if fs.fn == fn {
			sIn = fs.store
		}
	}
	isTrue := func(st *ssa.Store) bool {
		k, ok := st.Val.(*ssa.Const)
		return ok && k.Value != nil && k.Value.String() == "true"
	}
	none := func(ssa.Instruction) bool { return false }
	isRet := func(x ssa.Instruction) bool { _, ok := x.(*ssa.Return); return ok }
	switch {
	case sOut == nil || sIn == nil || !isTrue(sOut) || !isTrue(sIn):
		c.Fail(rule, "liftIntoParPaths summarize split", fn.Pos(), "the summarize split no longer sets both PartialsOut=true on the legs and PartialsIn=true on the tail")
	case reachAvoiding(fn, sOut, func(x ssa.Instruction) bool { return x == ssa.Instruction(sIn) }, isRet) != nil:
		c.Fail(rule, "liftIntoParPaths summarize split", sOut.Pos(), "a path emits partial results from the legs (PartialsOut) without the tail consuming partials (PartialsIn): the tail would aggregate partial records as if they were input values")
	case reachAvoiding(fn, nil, func(x ssa.Instruction) bool { return x == ssa.Instruction(sOut) }, func(x ssa.Instruction) bool { return x == ssa.Instruction(sIn) }) != nil && !loopMayBeEmpty(fn, sOut, sIn):
		c.Fail(rule, "liftIntoParPaths summarize split", sIn.Pos(), "the tail is switched to PartialsIn on a path where no leg was given a PartialsOut summarize")
	default:
		// guard against re-splitting
		guard := false
		for _, b := range fn.Blocks {
			for _, in := range b.Instrs {
				if u, ok := in.(*ssa.UnOp); ok && (isFieldLoad(u, "PartialsIn") || isFieldLoad(u, "PartialsOut")) {
					for _, r := range *u.Referrers() {
						if iff, ok := r.(*ssa.If); ok && iff.Block().Dominates(sIn.Block()) {
							guard = true
						}
					}
				}
			}
		}
		if guard {
			c.OK(rule, "liftIntoParPaths summarize split", sIn.Pos(), "PartialsOut on every leg copy and PartialsIn on the tail, on the same paths, guarded against re-splitting")
		} else {
			c.Fail(rule, "liftIntoParPaths summarize split", sIn.Pos(), "a summarize that already consumes or produces partials can be split again")
		}
	}
	_ = none
}

// loopMayBeEmpty: sOut is inside a range loop that dominates sIn (zero legs cannot occur for a Scatter/Fork).
func loopMayBeEmpty(fn *ssa.Function, sOut, sIn *ssa.Store) bool {
	// accept when the loop header (a block dominating sOut's block that is reachable from it) dominates sIn
	for _, b := range fn.Blocks {
		if b.Dominates(sOut.Block()) && b.Dominates(sIn.Block()) {
			// b is a loop header if sOut's block can reach b
			for _, in := range b.Instrs {
				if reachAvoiding(fn, sOut, func(ssa.Instruction) bool { return false }, func(x ssa.Instruction) bool { return x == in }) != nil {
					return true
				}
				break
			}
		}
	}
	return false
}

var meta08LockSpecs = []*LockSpec{
	{Type: "runtime/sam/op/meta.Lister", Mu: "mu", Guarded: []string{"objects", "err"}},
	{Type: "runtime/sam/op/meta.Slicer", Mu: "mu", Guarded: []string{"objects", "min", "max"}},
}

func runC08(c *Ctx, tier string) {
	p := c.P
	runSlicerBounds(c, "C08-S2")
	c.Rule("C08-L1", "the lister and slicer shared by the scatter legs are only touched with their mutex held (helpers are requires-held and called with it)")
	c.Rule("C08-L2", "no call with a deferred unlock pending on a released mutex")
	c.Rule("C08-L4", "no reentrant acquisition")
	c.Rule("C08-D2", "parallel legs get copies (= C07-D2)")
	c.Rule("C08-D3", "partials pairing (= C07-D3)")
	c.Rule("C08-D5", "operators that end a concurrent path / may be lifted into legs are the confirmed ones (= C07-D5)")
	c.Rule("C08-M1", "merge key = scan key: the Merge built by parallelizeSeqScan uses the sort key returned by concurrentPath for this path, and Combine is used only when no merge is needed")
	for _, s := range meta08LockSpecs {
		checkLockSpec(c, "C08", s)
	}
	// L3: pulling the next object from the lister and stashing it is one critical section
	c.Rule("C08-L3", "the slicer pulls from its (shared) parent and stashes the result in one critical section: the mutex is held at the call to s.parent.Pull, otherwise two scatter legs can stash objects out of lister order and a leg receives a smaller key range after a larger one")
	if sp := p.Func("(*runtime/sam/op/meta.Slicer).Pull"); sp == nil {
		c.Undecided("C08-L3", "(*runtime/sam/op/meta.Slicer).Pull", "anchor does not resolve")
	} else {
		n := 0
		for _, fn := range p.FuncsIn("runtime/sam/op/meta") {
			if fn.Signature.Recv() == nil || namedOf(fn.Signature.Recv().Type()) != "runtime/sam/op/meta.Slicer" {
				continue
			}
			sum := analyseLock(fn, meta08LockSpecs[1], lockState{})
			for _, cl := range sum.anyCalls {
				cc := cl.in.Common()
				if !cc.IsInvoke() || cc.Method.Name() != "Pull" || !isFieldLoad(cc.Value, "parent") {
					continue
				}
				if k, ok := cc.Args[0].(*ssa.Const); ok && k.Value != nil && k.Value.String() == "true" {
					continue // Pull(done=true): shutting down
				}
				n++
				construct := fnName(fn) + " pulls from the shared parent"
				if cl.state.held == 2 {
					// and stays locked until the object is stashed
					c.OK("C08-L3", construct, cl.in.Pos(), "with the slicer's mutex held")
				} else {
					c.Fail("C08-L3", construct, cl.in.Pos(), "the slicer's mutex is not held while it pulls the next object from its parent: with several scatter legs, object N+1 can be stashed before object N, a partition is closed early and a leg is later handed a key range below one it already emitted — the merged result differs from parallelism 1")
				}
			}
		}
		if n == 0 {
			c.Undecided("C08-L3", "(*runtime/sam/op/meta.Slicer).Pull", "no pull from the parent found")
		}
	}
	runLegsGetCopies(c, "C08-D2")
	runPartialsPairing(c, "C08-D3")
	c.borrow(func(t *Ctx) { runC07(t, "quick") }, map[string]string{"C07-D5": "C08-D5", "C07-N2": "C08-N2", "C07-D9": "C08-D9", "C07-K2": "C08-K2", "C07-K3": "C08-K3"})
	runSplitSummarizeTailKeys(c, "C08-D4")
	runPartialOutputForm(c, "C08-P4")
	runLiftedSortSingleKey(c, "C08-M2")
	runStatefulNotParallel(c, "C08-X1")
	c.Rule("C08-N1", "the merge that recombines scan legs orders nulls like the lake does (= C16-N1: comparators on the lake path are built with nullsMax = true)")
	checkNullsMax(c, "C08-N1")
	c.Rule("C08-N2", "a sort is split into per-leg sorts and a merge only after its null placement was consulted (= C07-N2)")
	c.Rule("C08-D9", "the merge that replaces a lifted sort runs in the sort's effective direction (= C07-D9)")
	c.Rule("C08-K2", "drop/put/rename keep the scan order only if the rewritten field does not overlap the sort key (= C07-K2)")
	c.Rule("C08-K3", "after a cut only a copy of the sort key is ordered (= C07-K3)")
	// M1
	fn := p.Func("(*compiler/optimizer.Optimizer).parallelizeSeqScan")
	if fn == nil {
		c.Undecided("C08-M1", "Optimizer.parallelizeSeqScan", "anchor does not resolve")
		return
	}
	var cp *ssa.Call
	for _, ci := range callsTo(fn, "(*compiler/optimizer.Optimizer).concurrentPath") {
		cp, _ = ci.(*ssa.Call)
	}
	if cp == nil {
		c.Undecided("C08-M1", "Optimizer.parallelizeSeqScan", "concurrentPath call not found")
		return
	}
	fromCP := func(idx int) func(ssa.Value) bool {
		return func(v ssa.Value) bool {
			ex, ok := v.(*ssa.Extract)
			return ok && ex.Tuple == ssa.Value(cp) && ex.Index == idx
		}
	}
	var needMerge ssa.Value
	for _, r := range *cp.Referrers() {
		if ex, ok := r.(*ssa.Extract); ok && ex.Index == 3 {
			needMerge = ex
		}
	}
	nMerge := 0
	for _, b := range fn.Blocks {
		for _, in := range b.Instrs {
			a, ok := in.(*ssa.Alloc)
			if !ok {
				continue
			}
			switch namedOf(a.Type()) {
			case "compiler/ast/dag.Merge":
				nMerge++
				okKey, okOrder := false, false
				for _, r := range *a.Referrers() {
					fa, ok := r.(*ssa.FieldAddr)
					if !ok {
						continue
					}
					for _, s := range *fa.Referrers() {
						st, ok := s.(*ssa.Store)
						if !ok {
							continue
						}
						switch fieldName(fa.X.Type(), fa.Field) {
						case "Expr":
							okKey = dependsOn(st.Val, fromCP(1))
						case "Order":
							okOrder = dependsOn(st.Val, fromCP(1))
						}
					}
				}
				guarded := needMerge != nil && trueEdgeDominatesOrSelf(needMerge, a.Block())
				switch {
				case !okKey || !okOrder:
					c.Fail("C08-M1", "parallelizeSeqScan merge key", a.Pos(), "the Merge that recombines the scan legs is not keyed on the sort key concurrentPath reports at the end of the lifted path (e.g. the source's key although the path re-sorts): the legs are interleaved on the wrong key and the result order differs from parallelism 1")
				case !guarded:
					c.Fail("C08-M1", "parallelizeSeqScan merge key", a.Pos(), "the Merge is not built under needMerge")
				default:
					c.OK("C08-M1", "parallelizeSeqScan merge key", a.Pos(), "keyed on outputKeys.Primary() of this path, under needMerge")
				}
			case "compiler/ast/dag.Combine":
				if needMerge != nil && falseEdgeDominatesOrSelf(needMerge, a.Block()) {
					c.OK("C08-M1", "parallelizeSeqScan combine", a.Pos(), "Combine only when no order has to be preserved")
				} else {
					c.Fail("C08-M1", "parallelizeSeqScan combine", a.Pos(), "an order-destroying Combine can be used although the path's order is needed downstream")
				}
			}
		}
	}
	if nMerge == 0 {
		c.Fail("C08-M1", "parallelizeSeqScan merge key", fn.Pos(), "parallelizeSeqScan never builds a Merge")
	}
	runMergeHeapRootOnly(c, "C08-M3")
	runElementIndependence(c, "C08-P5", "runtime/sam/expr/agg")
}

func init() {
	register(&PropertyDef{ID: "C07", Run: runC07,
		Explanation: "Decides structural conditions of optimizer soundness: conservative defaults for unknown operators/expressions (D1), per-leg copies (D2), partials pairing (D3), filter merging operator and operand order (D4), and frozen, confirmed operator tables for order preservation, path termination and lifting (D5). Does NOT decide semantic equivalence of optimized and unoptimized plans (a relation between two executions).",
		Assumptions: []string{"the operator tables in rules_c07.go were confirmed by reading the current optimizer; a deliberate change of those tables requires re-confirmation"}})
	register(&PropertyDef{ID: "C08", Run: runC08,
		Explanation: "Decides structural conditions of parallelism independence: lock discipline of the lister/slicer shared by scatter legs (L1/L2/L4), per-leg copies (D2), partials pairing (D3), confirmed operator tables (D5), merge key = path's output key and Combine only without order (M1). Does NOT decide equality of results across parallelism or correctness of partial aggregates.",
		Assumptions: []string{"one receiver per method for lock identity"}})
}

// runSummarizeSiblingGuards: C07-D6.  Two places decide that a group-by can rely on its input order:
// isKeyOfSummarize (used by concurrentPath to keep the scan ordered: slicer, ordered merge) and the
// Summarize arm of propagateSortKeyOp (which sets Summarize.InputSortDir so the operator releases
// groups as soon as the key advances).  They must apply the same predicate, otherwise the operator
// streams over an input the planner did not keep ordered.
func runSummarizeSiblingGuards(c *Ctx, rule string) {
	p := c.P
	c.Rule(rule, "sibling agreement on `input order is usable by this summarize`: both isKeyOfSummarize's `return true` and the store to Summarize.InputSortDir are reachable only when a group-by key is *named* as the sort key (Equal(fieldOf(LHS), key)) and its expression is the key or an order-preserving call (Equal(fieldOf(RHS), key) or orderPreservingCall)")
	type site struct {
		fn     *ssa.Function
		target ssa.Instruction
		name   string
	}
	var sites []site
	if fn := p.Func("compiler/optimizer.isKeyOfSummarize"); fn != nil {
		for _, b := range fn.Blocks {
			for _, in := range b.Instrs {
				if r, ok := in.(*ssa.Return); ok {
					if k, ok := r.Results[0].(*ssa.Const); ok && k.Value != nil && k.Value.String() == "true" {
						sites = append(sites, site{fn, r, "isKeyOfSummarize returns true"})
					}
				}
			}
		}
	}
	for _, fs := range fieldStores(p, "InputSortDir") {
		if p.PkgOf(fs.fn) == "compiler/optimizer" && fs.strukt == "compiler/ast/dag.Summarize" {
			if k, ok := fs.store.Val.(*ssa.Const); ok && k.Value != nil && k.Int64() == 0 {
				continue
			}
			sites = append(sites, site{fs.fn, fs.store, fnName(fs.fn) + " sets Summarize.InputSortDir"})
		}
	}
	if len(sites) < 2 {
		c.Undecided(rule, "summarize order guards", "fewer than the 2 known decision sites found")
		return
	}
	fromField := func(v ssa.Value, f string) bool {
		return dependsOn(v, func(w ssa.Value) bool {
			call, ok := w.(*ssa.Call)
			if !ok || calleeName(call.Common()) != "compiler/optimizer.fieldOf" {
				return false
			}
			return dependsOn(call.Call.Args[0], func(x ssa.Value) bool { return isFieldOf(x, "compiler/ast/dag.Assignment", f) })
		})
	}
	for _, s := range sites {
		var lhsEq, rhsAlt []*ssa.Call
		for _, ci := range allCalls(s.fn) {
			call, ok := ci.(*ssa.Call)
			if !ok {
				continue
			}
			switch calleeName(ci.Common()) {
			case "(pkg/field.Path).Equal":
				if fromField(call.Call.Args[0], "LHS") || fromField(call.Call.Args[1], "LHS") {
					if !(fromField(call.Call.Args[0], "RHS") || fromField(call.Call.Args[1], "RHS")) {
						lhsEq = append(lhsEq, call)
					}
				}
				if fromField(call.Call.Args[0], "RHS") || fromField(call.Call.Args[1], "RHS") {
					rhsAlt = append(rhsAlt, call)
				}
			case "compiler/optimizer.orderPreservingCall":
				rhsAlt = append(rhsAlt, call)
			}
		}
		named := false
		for _, l := range lhsEq {
			if trueEdgeDominatesOrSelf(l, s.target.Block()) {
				named = true
			}
		}
		// without the true edges of the RHS alternatives the target must be unreachable
		isAlt := func(v ssa.Value) bool {
			for _, a := range rhsAlt {
				if ssa.Value(a) == v {
					return true
				}
			}
			return false
		}
		exprOK := len(rhsAlt) > 0 && reachAvoidingEdges(s.fn, nil, func(ssa.Instruction) bool { return false }, func(x ssa.Instruction) bool { return x == s.target },
			func(a, b *ssa.BasicBlock) bool {
				if iff, ok := a.Instrs[len(a.Instrs)-1].(*ssa.If); ok && isAlt(iff.Cond) && b == a.Succs[0] {
					return false
				}
				return true
			}) == nil
		switch {
		case !named:
			c.Fail(rule, s.name, s.target.Pos(), "this decision no longer requires that the group-by key is assigned to the sort key's own name (Equal(fieldOf(k.LHS), key)), while its sibling does: e.g. `count() by k:=ts` is planned as order-not-required (no slicer, unordered combine) yet the summarize is told its input is sorted and releases groups early — the same group is emitted several times with partial counts")
		case !exprOK:
			c.Fail(rule, s.name, s.target.Pos(), "this decision can be reached without the key expression being the sort key or an order-preserving call of it")
		default:
			c.OK(rule, s.name, s.target.Pos(), "requires LHS named as the sort key and RHS = key or order-preserving call")
		}
	}
}
