package main

func init() {
	addMutants(
		Mutant{"C17", "c17-removepool-name-error-ignored", "lake/root.go", "Root.RemovePool",
			"if err := r.pools.Remove(ctx, *config); err != nil {\n\t\treturn err\n\t}", "r.pools.Remove(ctx, *config)", "C17-E1", "(*lake.Root).RemovePool -> (*lake/pools.Store).Remove"},
		Mutant{"C17", "c17-commitat-entry-close-ignored", "lake/journal/queue.go", "Queue.CommitAt",
			"if err := w.Close(); err != nil {\n\t\t\treturn err\n\t\t}", "w.Close()", "C17-E1", "(*lake/journal.Queue).CommitAt -> "},
		Mutant{"C17", "c17-writehead-error-ignored", "lake/journal/queue.go", "Queue.CommitAt",
			"return q.writeHead(ctx, at+1)", "q.writeHead(ctx, at+1)\n\treturn nil", "C17-E1", "(*lake/journal.Queue).CommitAt -> (*lake/journal.Queue).writeHead"},
		Mutant{"C14", "c14-removepool-name-error-ignored", "lake/root.go", "Root.RemovePool",
			"if err := r.pools.Remove(ctx, *config); err != nil {\n\t\treturn err\n\t}", "r.pools.Remove(ctx, *config)", "C14-E1", "(*lake.Root).RemovePool -> (*lake/pools.Store).Remove"},
		Mutant{"C12", "c12-writehead-error-ignored", "lake/journal/queue.go", "Queue.CommitAt",
			"return q.writeHead(ctx, at+1)", "q.writeHead(ctx, at+1)\n\treturn nil", "C12-E1", "(*lake/journal.Queue).CommitAt -> (*lake/journal.Queue).writeHead"},
		Mutant{"C11", "c11-validate-net-size-unchecked", "value.go", "checkPrimitiveSize",
			"\tcase TypeNet:\n\t\tok = n == 8 || n == 32\n", "", "C11-V4", "super.DecodeNet"},
		Mutant{"C11", "c11-validate-leaf-sizes-unchecked", "value.go", "Value.Validate",
			"return checkPrimitiveSize(typ, body)", "return nil", "C11-V4", "super.DecodeFloat64"},
		Mutant{"C19", "c19-poolpost-error-dead-on-a-path", "service/handlers.go", "handlePoolPost",
			"meta, err := pool.Main(r.Context())\n\tif err != nil {", "meta, err := pool.Main(r.Context())\n\tif req.Thresh == 0 && err != nil {", "C19-E1", "handlePoolPost"},
		Mutant{"C18", "c18-nulls-emit-error-dead-on-a-path", "vng/nulls.go", "NullsEncoder.Emit",
			"if err := n.values.Emit(w); err != nil {\n\t\treturn err\n\t}", "if err := n.values.Emit(w); n.count == 0 && err != nil {\n\t\treturn err\n\t}", "C18-E1", "NullsEncoder).Emit"},
		Mutant{"C20", "c20-build-forgets-cast-to-union", "runtime/sam/expr/shaper.go", "step.build",
			"\tcase castToUnion:\n\t\tzed.BuildUnion(b, s.toTag, in)\n\t\treturn s.toType\n", "", "C20-K1", "castToUnion"},
	)
}
