package main

import (
	"strings"
	"flag"
	"fmt"
	"os"
	"path/filepath"
	"sort"
	"strconv"
	"time"
)

type PropertyDef struct {
	ID          string
	Run         func(c *Ctx, tier string)
	Explanation string
	Assumptions []string
}

var registry = map[string]*PropertyDef{}

func register(p *PropertyDef) { registry[p.ID] = p }

func main() {
	prop := flag.String("property", "", "property id (C01..C20) or 'all'")
	tier := flag.String("tier", "quick", "quick|thorough")
	repo := flag.String("repo", "/repo", "repository root to analyse")
	verif := flag.String("verif", "", "verif dir (default: parent of the executable's dir)")
	mutant := flag.String("mutant", "", "internal: apply the named self-test mutant as an overlay and print findings")
	listMut := flag.Bool("list-mutants", false, "list self-test mutants")
	verbose := flag.Bool("v", false, "print every obligation")
	xref := flag.String("xref", "", "development aid: run a cross-reference sweep (used-after-error) over the comma-separated packages and print candidates")
	flag.Parse()
	if *verif == "" {
		exe, _ := os.Executable()
		*verif = filepath.Dir(filepath.Dir(exe))
	}
	if *listMut {
		for _, m := range mutants {
			fmt.Println(m.Property, m.Name, m.ExpectRule)
		}
		return
	}
	if *xref != "" {
		p, err := Load(*repo, nil)
		if err != nil {
			fmt.Println("load:", err)
			os.Exit(4)
		}
		if *xref == "nil-index" {
			var all []string
			for k := range p.Pkgs {
				all = append(all, k)
			}
			cx := NewCtx(p, "XREF")
			runNilSliceIndex(cx, "XREF-nil-index", all...)
			for _, f := range cx.Findings {
				fmt.Println(f.Pos, f.Construct)
			}
			fmt.Println(len(cx.Findings), "candidates")
			return
		}
		if *xref == "type-coverage" {
			xrefTypeCoverage(p)
			return
		}
		if *xref == "const-index" {
			xrefConstIndex(p)
			return
		}
		if *xref == "read-deref" {
			cx := NewCtx(p, "XREF")
			runReadResultsNilTested(cx, "XREF-read-deref")
			for _, f := range cx.Findings {
				fmt.Println(f.Pos, f.Construct)
			}
			fmt.Println(len(cx.Findings), "candidates")
			return
		}
		if *xref == "same-args" {
			xrefSameArgs(p)
			return
		}
		xrefUsedAfterError(p, strings.Split(*xref, ","))
		return
	}
	seed, _ := strconv.Atoi(os.Getenv("VERIF_SEED"))
	if t := os.Getenv("VERIF_TIER"); t != "" && !isFlagSet("tier") {
		*tier = t
	}
	var ids []string
	if *prop == "all" {
		for id := range registry {
			ids = append(ids, id)
		}
		sort.Strings(ids)
	} else if registry[*prop] != nil {
		ids = []string{*prop}
	} else {
		fmt.Fprintf(os.Stderr, "unknown property %q\n", *prop)
		os.Exit(2)
	}
	t0 := time.Now()
	var overlay map[string][]byte
	if *mutant != "" {
		var err error
		overlay, err = mutantOverlay(*repo, *mutant)
		if err != nil {
			fmt.Println("MUTANT-NOT-APPLICABLE:", err)
			os.Exit(3)
		}
	}
	prog, err := Load(*repo, overlay)
	if err != nil && *mutant != "" {
		fmt.Println("MUTANT-LOAD-ERROR:", err)
		os.Exit(4)
	}
	if err != nil {
		// fail closed: the program could not be resolved.
		for _, id := range ids {
			failClosed(*verif, id, *tier, seed, t0, err)
		}
		os.Exit(1)
	}
	code := 0
	for _, id := range ids {
		def := registry[id]
		c := NewCtx(prog, id)
		t1 := time.Now()
		func() {
			defer func() {
				if r := recover(); r != nil {
					c.Undecided(id+"-INTERNAL", "checker", fmt.Sprintf("checker panic: %v", r))
					if *verbose {
						panic(r)
					}
				}
			}()
			def.Run(c, *tier)
		}()
		if *verbose {
			for _, o := range c.Obls {
				fmt.Printf("  %-9s %-8s %s  %s  %s\n", o.Rule, o.Verdict, o.Construct, o.Pos, o.Detail)
			}
		}
		if *mutant != "" {
			for _, f := range c.Findings {
				fmt.Printf("MUTANT-FINDING rule=%s construct=%s msg=%s\n", f.Rule, f.Construct, f.Msg)
			}
			continue
		}
		extra := map[string]interface{}{"load_s": t1.Sub(t0).Seconds()}
		if *tier == "thorough" {
			fired, total, notes, bad := runSelfTest(*repo, id)
			extra["mutants_fired"] = fired
			extra["mutants_total"] = total
			extra["mutant_results"] = notes
			for _, b := range bad {
				c.Undecided(id+"-SELFTEST", b, "self-test mutant did not make its rule fire: the rule has gone blind for this instance")
			}
		}
		if rc := c.finish(*verif, *tier, seed, t1, extra, def.Assumptions, def.Explanation); rc > code {
			code = rc
		}
	}
	os.Exit(code)
}

func isFlagSet(name string) bool {
	set := false
	flag.Visit(func(f *flag.Flag) {
		if f.Name == name {
			set = true
		}
	})
	return set
}

func failClosed(verif, id, tier string, seed int, t0 time.Time, err error) {
	c := NewCtx(&Prog{}, id)
	c.Undecided(id+"-LOAD", "program", "cannot load/type-check /repo: "+err.Error())
	c.finish(verif, tier, seed, t0, nil, nil, "the program could not be loaded; nothing was decided")
}
