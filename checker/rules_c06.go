package main

import (
	"go/token"
	"go/types"
	"sort"
	"strings"

	"golang.org/x/tools/go/ssa"
)

func isValueCompareSig(sig *types.Signature) bool {
	if sig.Params().Len() != 2 || sig.Results().Len() != 1 {
		return false
	}
	if b, ok := sig.Results().At(0).Type().Underlying().(*types.Basic); !ok || b.Kind() != types.Int {
		return false
	}
	return namedOf(sig.Params().At(0).Type()) == "super.Value" && namedOf(sig.Params().At(1).Type()) == "super.Value"
}

func runC06(c *Ctx, tier string) {
	p := c.P
	c.Rule("C06-S1", "stability is structural: every sort of values / objects on the query path uses a stable algorithm; the spill merge breaks comparator ties by run ordinal")
	c.Rule("C06-S2", "one comparison routine: every function that orders two zed.Values (signature func(zed.Value, zed.Value) int) in the runtime bottoms out in expr.compareValues / Comparator.Compare")
	c.Rule("C06-S3", "spill reader copy: spill.peeker.read copies nextRecord before advancing the file (= C10-S3)")
	// S1: all sort calls in the value-ordering packages
	pkgs := []string{"runtime/sam/expr", "runtime/sam/op/sort", "runtime/sam/op/groupby", "runtime/sam/op/spill", "runtime/sam/op/merge", "runtime/sam/op/meta", "runtime/sam/op/top", "runtime/sam/op/join", "lake", "zbuf"}
	stable := map[string]bool{"sort.SliceStable": true, "sort.Stable": true, "slices.SortStableFunc": true}
	unstable := map[string]bool{"sort.Slice": true, "sort.Sort": true, "slices.SortFunc": true, "slices.Sort": true}
	// sorts of things that are not query values (field names of a type, dictionary entries) are exempt by reason
	exemptFns := map[string]string{
		"(*runtime/sam/expr.ConstShaper).Eval": "orders the field list of a record *type* while shaping, not values",
		"runtime/sam/expr.shaperFields":        "orders the field list of a record *type* while shaping, not values",
	}
	n := 0
	for _, fn := range p.FuncsIn(pkgs...) {
		for _, ci := range allCalls(fn) {
			name := calleeName(ci.Common())
			if !stable[name] && !unstable[name] {
				continue
			}
			n++
			construct := constructName(fn) + " -> " + name
			if why, ok := exemptFns[topName(fn)]; ok {
				c.OK("C06-S1", construct, ci.Pos(), "exempt: "+why)
				continue
			}
			if stable[name] {
				c.OK("C06-S1", construct, ci.Pos(), "stable sort")
			} else {
				// is it sorting values/objects?  look at the element type of the slice argument
				c.Fail("C06-S1", construct, ci.Pos(), "an unstable sort on the value-ordering path: equal keys come out in an order that depends on input size and pivot choices, so sort is not stable and results differ between in-memory and spilled runs")
			}
		}
	}
	if n < 3 {
		c.Undecided("C06-S1", "sort call sites", "fewer than the 3 known sort call sites found")
	}
	// merge tie-break
	if fn := p.Func("(*runtime/sam/op/spill.MergeSort).Less"); fn == nil {
		c.Undecided("C06-S1", "(*runtime/sam/op/spill.MergeSort).Less", "anchor does not resolve")
	} else {
		ok := false
		for _, ci := range callsTo(fn, "(*runtime/sam/expr.Comparator).Compare") {
			call, isCall := ci.(*ssa.Call)
			if !isCall {
				continue
			}
			for _, r := range *call.Referrers() {
				cmp, isCmp := r.(*ssa.BinOp)
				if !isCmp || cmp.Op != token.NEQ {
					continue
				}
				if k, isK := cmp.Y.(*ssa.Const); !isK || k.Value == nil || k.Int64() != 0 {
					continue
				}
				for _, u := range *cmp.Referrers() {
					iff, isIf := u.(*ssa.If)
					if !isIf {
						continue
					}
					for _, in := range iff.Block().Succs[1].Instrs {
						if ret, isRet := in.(*ssa.Return); isRet {
							if b, isB := ret.Results[0].(*ssa.BinOp); isB && b.Op == token.LSS &&
								dependsOn(b.X, func(v ssa.Value) bool { return isFieldOf(v, "runtime/sam/op/spill.peeker", "ordinal") }) &&
								dependsOn(b.Y, func(v ssa.Value) bool { return isFieldOf(v, "runtime/sam/op/spill.peeker", "ordinal") }) {
								ok = true
							}
						}
					}
				}
			}
		}
		if ok {
			c.OK("C06-S1", "(*runtime/sam/op/spill.MergeSort).Less", fn.Pos(), "comparator ties are broken by run ordinal (earlier run first)")
		} else {
			c.Fail("C06-S1", "(*runtime/sam/op/spill.MergeSort).Less", fn.Pos(), "when the comparator returns 0 the merge does not fall back to `ordinal <`: equal keys from different spill runs are interleaved arbitrarily, so a spilled sort is not stable and differs from the in-memory result")
		}
	}
	// S2
	var cmpFns []*ssa.Function
	for _, fn := range p.Funcs {
		pk := p.PkgOf(fn)
		if !(strings.HasPrefix(pk, "runtime/") || pk == "lake" || pk == "zbuf" || strings.HasPrefix(pk, "lake/")) || strings.HasPrefix(pk, "runtime/vam") {
			continue
		}
		if isValueCompareSig(fn.Signature) && fn.Signature.Recv() == nil || (fn.Signature.Recv() != nil && fn.Signature.Params().Len() == 2 && isValueCompareSig(types.NewSignatureType(nil, nil, nil, fn.Signature.Params(), fn.Signature.Results(), false))) {
			cmpFns = append(cmpFns, fn)
		}
	}
	sort.Slice(cmpFns, func(i, j int) bool { return cmpFns[i].String() < cmpFns[j].String() })
	base := map[string]bool{"runtime/sam/expr.compareValues": true, "(*runtime/sam/expr.Comparator).Compare": true}
	for _, fn := range cmpFns {
		name := constructName(fn)
		if base[fnName(fn)] {
			c.OK("C06-S2", name, fn.Pos(), "the comparison routine itself")
			continue
		}
		reaches := false
		for g := range reachableStatic([]*ssa.Function{fn}, func(f *ssa.Function) bool { return strings.HasPrefix(pkgPathOf(f), modPath) }) {
			if base[fnName(g)] {
				reaches = true
			}
			// calling a CompareFn value (field/param of type expr.CompareFn) also counts
			for _, ci := range allCalls(g) {
				if v := ci.Common().Value; v != nil && !ci.Common().IsInvoke() && namedOf(v.Type()) == "runtime/sam/expr.CompareFn" {
					reaches = true
				}
			}
		}
		if reaches {
			c.OK("C06-S2", name, fn.Pos(), "orders values through compareValues / Comparator.Compare")
		} else {
			c.Fail("C06-S2", name, fn.Pos(), "a second ordering of values that does not go through expr.compareValues: sort, merge, compare() and the lake would disagree on some pairs (numeric cross-type, nulls, containers)")
		}
	}
	if len(cmpFns) < 2 {
		c.Undecided("C06-S2", "value comparison functions", "fewer than 2 functions with signature func(zed.Value, zed.Value) int found")
	}
	// who constructs CompareFn values: conversions / closures assigned to CompareFn-typed things must be such functions
	// F1
	runSortSentinels(c, "C06-F1")
	runSortKeyOperandsInvariant(c, "C06-F2")
	runMergeHeapRootOnly(c, "C06-M1")
	// S3
	spillPeekerCopy(c, "C06-S3")
	runNumericOrderExact(c, "C06-T1")
	runOrderFloatToIntInRange(c, "C06-T2")
	runSpillMergeAlwaysFixes(c, "C06-H1")
	runSortComparatorBuiltOnce(c, "C06-R1")
}

func init() {
	register(&PropertyDef{ID: "C06", Run: runC06,
		Explanation: "Decides structural conditions of sort/merge correctness: every sort on the value-ordering path is stable and the spill merge breaks ties by run ordinal (S1), every value-ordering function bottoms out in the single comparison routine (S2), the spill reader copies before advancing (S3). Does NOT decide that compareValues is a total preorder, fast-path agreement, or spill-invariance of output as such.",
		Assumptions: []string{"value-ordering functions are recognised by signature func(zed.Value, zed.Value) int"}})
}
