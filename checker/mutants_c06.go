package main

func init() {
	addMutants(
		Mutant{"C06", "c06-unstable-index-sort", "runtime/sam/expr/sort.go", "Comparator.sortStableIndices",
			"sort.SliceStable(indices,", "sort.Slice(indices,", "C06-S1", "sortStableIndices"},
		Mutant{"C06", "c06-merge-no-tiebreak", "runtime/sam/op/spill/merge.go", "MergeSort.Less",
			"return r.runs[i].ordinal < r.runs[j].ordinal", "return false", "C06-S1", "MergeSort).Less"},
		Mutant{"C06", "c06-merge-tiebreak-reversed-field", "runtime/sam/op/spill/merge.go", "MergeSort.Less",
			"if v := r.comparator.Compare(*r.runs[i].nextRecord, *r.runs[j].nextRecord); v != 0 {\n\t\treturn v < 0\n\t}", "if v := r.comparator.Compare(*r.runs[i].nextRecord, *r.runs[j].nextRecord); v < 0 {\n\t\treturn true\n\t}", "C06-S1", "MergeSort).Less"},
		Mutant{"C06", "c06-groupby-unstable", "runtime/sam/op/groupby/groupby.go", "Op.run",
			"slices.SortStableFunc(res.Values(), o.agg.keyCompare)", "slices.SortFunc(res.Values(), o.agg.keyCompare)", "C06-S1", "groupby.Op).run"},
		Mutant{"C06", "c06-bytes-compare-order", "runtime/sam/op/groupby/groupby.go", "NewAggregator",
			"keyCompare = func(a, b zed.Value) int { return rs(b, a) }", "keyCompare = func(a, b zed.Value) int { _ = rs; return len(b.Bytes()) - len(a.Bytes()) }", "C06-S2", "NewAggregator"},
		Mutant{"C06", "c06-peeker-nocopy", "runtime/sam/op/spill/peeker.go", "peeker.read",
			"rec = rec.Copy().Ptr()", "_ = rec.Copy()", "C06-S3", "peeker).read"},
	)
}
