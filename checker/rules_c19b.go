package main

import (
	"go/token"
	"go/types"
	"strings"

	"golang.org/x/tools/go/ssa"
)

// ---- C19-K3: list-valued inputs cross the service boundary whole.
//
// The remote implementation of lake/api.Interface and the service handlers sit between the caller
// and the same lake.Root methods direct access calls.  A list-valued input (a slice parameter of
// an Interface method; a slice field of an api.*Request) that is only ever read at a constant
// index is silently truncated on the way, so the lake sees another request than the one direct
// access would have made (e.g. `create -orderby a,b`: direct access rejects two keys, the service
// creates the pool with the first).

func runListInputsWhole(c *Ctx, rule string) {
	p := c.P
	c.Rule(rule, "list-valued inputs cross the service boundary whole: in lake/api.remote methods (slice parameters) and in the service handlers (slice fields of api.*Request values) a list is forwarded, ranged over or indexed by a variable — never read only at a constant index")
	n := 0
	check := func(fn *ssa.Function, what string, vals []ssa.Value, pos token.Pos) {
		constIdx, whole := 0, 0
		var where token.Pos
		seen := map[ssa.Value]bool{}
		var visit func(v ssa.Value)
		visit = func(v ssa.Value) {
			if seen[v] {
				return
			}
			seen[v] = true
			refs := v.Referrers()
			if refs == nil {
				return
			}
			for _, r := range *refs {
				switch x := r.(type) {
				case *ssa.DebugRef:
				case *ssa.IndexAddr:
					if _, ok := x.Index.(*ssa.Const); ok {
						constIdx++
						where = x.Pos()
					} else {
						whole++
					}
				case *ssa.Index:
					if _, ok := x.Index.(*ssa.Const); ok {
						constIdx++
						where = x.Pos()
					} else {
						whole++
					}
				case *ssa.ChangeType:
					visit(x)
				case *ssa.Convert:
					visit(x)
				case *ssa.Phi:
					visit(x)
				case ssa.CallInstruction:
					cc := x.Common()
					if b, ok := cc.Value.(*ssa.Builtin); ok {
						if b.Name() == "len" || b.Name() == "cap" {
							continue
						}
						whole++
						continue
					}
					if callee := cc.StaticCallee(); callee != nil && callee.Blocks != nil && onlyConstIndexed(callee, cc, v) {
						constIdx++
						where = x.Pos()
						continue
					}
					whole++
				default:
					whole++
				}
			}
		}
		for _, v := range vals {
			visit(v)
		}
		if constIdx == 0 && whole == 0 {
			return // unused here: other rules
		}
		n++
		construct := fnName(fn) + " " + what
		if constIdx > 0 && whole == 0 {
			c.Fail(rule, construct, where, "the list is only ever read at a constant index: additional elements are silently dropped (and an empty list faults) on the way through the service, so the lake does not see the request direct access would make")
		} else {
			c.OK(rule, construct, pos, "forwarded whole / iterated")
		}
	}
	// (a) remote methods
	for _, fn := range p.FuncsIn("lake/api") {
		if fn.Signature.Recv() == nil || namedOf(fn.Signature.Recv().Type()) != "lake/api.remote" || fn.Parent() != nil {
			continue
		}
		for _, prm := range fn.Params[1:] {
			if _, ok := prm.Type().Underlying().(*types.Slice); !ok {
				continue
			}
			check(fn, "parameter "+prm.Name(), []ssa.Value{prm}, prm.Pos())
		}
	}
	// (b) request fields in handlers
	for _, fn := range p.FuncsIn("service") {
		byPath := map[string][]ssa.Value{}
		pos := map[string]token.Pos{}
		for _, b := range fn.Blocks {
			for _, in := range b.Instrs {
				u, ok := in.(*ssa.UnOp)
				if !ok || u.Op != token.MUL {
					continue
				}
				if _, ok := u.Type().Underlying().(*types.Slice); !ok {
					continue
				}
				fa, ok := u.X.(*ssa.FieldAddr)
				if !ok {
					continue
				}
				path, root := reqPath(fa)
				if root == nil {
					continue
				}
				nm := namedOf(root)
				if !strings.HasPrefix(nm, "api.") || !strings.HasSuffix(nm, "Request") {
					continue
				}
				byPath[path] = append(byPath[path], u)
				if _, ok := pos[path]; !ok {
					pos[path] = u.Pos()
				}
			}
		}
		for path, vals := range byPath {
			check(fn, "request field "+path, vals, pos[path])
		}
	}
	if n < 8 {
		c.Undecided(rule, "list-valued inputs", "fewer than 8 list-valued inputs found ("+sprint(n)+")")
	}
}

// reqPath returns the dotted field path of fa and the type of the struct at its root.
func reqPath(fa *ssa.FieldAddr) (string, types.Type) {
	name := fieldName(fa.X.Type(), fa.Field)
	switch x := fa.X.(type) {
	case *ssa.FieldAddr:
		p, root := reqPath(x)
		return p + "." + name, root
	default:
		t := fa.X.Type()
		if pt, ok := t.Underlying().(*types.Pointer); ok {
			t = pt.Elem()
		}
		return namedOf(t) + "." + name, t
	}
}

// onlyConstIndexed reports whether callee reads the parameter that receives v only at constant indices.
func onlyConstIndexed(callee *ssa.Function, cc *ssa.CallCommon, v ssa.Value) bool {
	idx := -1
	for i, a := range cc.Args {
		if a == v {
			idx = i
		}
	}
	if idx < 0 || idx >= len(callee.Params) {
		return false
	}
	prm := callee.Params[idx]
	constIdx, other := 0, 0
	for _, r := range *prm.Referrers() {
		switch x := r.(type) {
		case *ssa.DebugRef:
		case *ssa.IndexAddr:
			if _, ok := x.Index.(*ssa.Const); ok {
				constIdx++
			} else {
				other++
			}
		case *ssa.Index:
			if _, ok := x.Index.(*ssa.Const); ok {
				constIdx++
			} else {
				other++
			}
		default:
			other++
		}
	}
	return constIdx > 0 && other == 0
}

// ---- C19-E4: a late query error takes both delivery routes on every path.
//
// After the 200 header is out, handleQuery has two ways to tell the client that the query failed:
// an in-band QueryError control frame (only formats with control frames carry it, and only when
// the client asked for them) and the record kept for GET /query/status/{id}.  Neither route alone
// reaches every client, so the callback must take both unconditionally.
func runLateErrorRoutes(c *Ctx, rule string) {
	p := c.P
	c.Rule(rule, "the late-error callback of handleQuery writes the in-band error and records it for the status endpoint on every path (neither route alone reaches every client)")
	hq := p.Func("service.handleQuery")
	if hq == nil {
		c.Undecided(rule, "service.handleQuery", "anchor does not resolve")
		return
	}
	n := 0
	for _, an := range hq.AnonFuncs {
		if len(an.Params) != 1 || !isError(an.Params[0].Type()) || an.Signature.Results().Len() != 0 {
			continue
		}
		n++
		for _, want := range []string{"(*service.queryStatus).setError", "(*api/queryio.Writer).WriteError"} {
			is := func(in ssa.Instruction) bool {
				ci, ok := in.(ssa.CallInstruction)
				return ok && calleeName(ci.Common()) == want
			}
			isRet := func(in ssa.Instruction) bool { _, ok := in.(*ssa.Return); return ok }
			construct := "handleQuery late-error callback -> " + want
			entry := an.Blocks[0].Instrs[0]
			if is(entry) {
				c.OK(rule, construct, an.Pos(), "on every path")
				continue
			}
			if hit := reachAvoiding(an, entry, is, isRet); hit != nil {
				pos := hit.Pos()
				if !pos.IsValid() {
					pos = an.Pos()
				}
				c.Fail(rule, construct, pos, "a path through the callback returns without "+want+": a run-time error (missing data object, formatter error) then reaches some clients by neither route — HTTP 200, a truncated body and an empty status, where direct access returns the error")
			} else {
				c.OK(rule, construct, an.Pos(), "on every path")
			}
		}
	}
	if n != 1 {
		c.Undecided(rule, "service.handleQuery", "expected exactly one func(error) callback, found "+sprint(n))
	}
}

// ---- C19-K4: nothing the caller passes is ignored on the way to the service.
func runRemoteParamsUsed(c *Ctx, rule string) {
	p := c.P
	c.Rule(rule, "every named parameter of the remote implementation of lake/api.Interface and of the api/client.Connection request methods is used (flows into the request): a parameter that is accepted and ignored makes the service act on another request than direct access would")
	n := 0
	check := func(fn *ssa.Function) {
		for i, prm := range fn.Params {
			if i == 0 || prm.Name() == "_" || prm.Name() == "" || short(prm.Type().String()) == "context.Context" {
				continue
			}
			n++
			used := false
			for _, r := range *prm.Referrers() {
				if _, ok := r.(*ssa.DebugRef); !ok {
					used = true
				}
			}
			construct := fnName(fn) + " parameter " + prm.Name()
			if used {
				c.OK(rule, construct, prm.Pos(), "used")
			} else {
				c.Fail(rule, construct, prm.Pos(), "the parameter is accepted but never used: what the caller asked for (commit message, object list, flag) does not reach the service")
			}
		}
	}
	for _, fn := range p.FuncsIn("lake/api") {
		if fn.Parent() == nil && fn.Signature.Recv() != nil && namedOf(fn.Signature.Recv().Type()) == "lake/api.remote" {
			check(fn)
		}
	}
	for _, fn := range p.FuncsIn("api/client") {
		if fn.Parent() == nil && fn.Signature.Recv() != nil && namedOf(fn.Signature.Recv().Type()) == "api/client.Connection" && ast_IsExported(fn.Name()) {
			check(fn)
		}
	}
	if n < 60 {
		c.Undecided(rule, "remote / Connection methods", "fewer than 60 parameters found ("+sprint(n)+")")
	}
}

// ---- C19-K5: caller-chosen names are escaped before they become part of a request path.
//
// Branch and pool names are arbitrary strings (`feature/x`, `fix#12`).  Direct access uses them as
// they are; the client puts them into a URL path, where they only address the same branch if every
// such element is percent-escaped.  Forward taint from each string parameter of a Connection
// method: it may reach the path argument of NewRequest only through url.PathEscape / urlPath.
func runClientPathEscaping(c *Ctx, rule string) {
	p := c.P
	c.Rule(rule, "in api/client every string parameter of a Connection method that ends up in the path of a request goes through url.PathEscape (urlPath) first — through helpers as well; a name joined into the path unescaped addresses another (or no) resource on the service")
	sanitizer := map[string]bool{"net/url.PathEscape": true, "api/client.urlPath": true, "net/url.QueryEscape": true}
	type key struct {
		fn  *ssa.Function
		idx int
	}
	memo := map[key]struct{ hitPath, ret bool }{}
	var pathHit token.Pos
	var flow func(fn *ssa.Function, start ssa.Value, depth int) (bool, bool)
	flow = func(fn *ssa.Function, start ssa.Value, depth int) (hitPath bool, reachesReturn bool) {
		seen := map[ssa.Value]bool{}
		var work []ssa.Value
		push := func(v ssa.Value) {
			if v != nil && !seen[v] {
				seen[v] = true
				work = append(work, v)
			}
		}
		push(start)
		for len(work) > 0 {
			v := work[len(work)-1]
			work = work[:len(work)-1]
			refs := v.Referrers()
			if refs == nil {
				continue
			}
			for _, r := range *refs {
				switch x := r.(type) {
				case *ssa.Store:
					if x.Val == v {
						// element of a varargs array / local variable
						switch a := x.Addr.(type) {
						case *ssa.IndexAddr:
							push(a.X)
						case *ssa.Alloc:
							push(a)
						}
					}
				case *ssa.Slice:
					push(x)
				case *ssa.IndexAddr:
					if x.X == v {
						push(x)
					}
				case *ssa.UnOp:
					push(x)
				case *ssa.Phi:
					push(x)
				case *ssa.BinOp:
					if x.Op == token.ADD {
						push(x)
					}
				case *ssa.MakeInterface:
					push(x)
				case *ssa.Convert:
					push(x)
				case *ssa.ChangeType:
					push(x)
				case *ssa.Return:
					reachesReturn = true
				case ssa.CallInstruction:
					cc := x.Common()
					nm := calleeName(cc)
					if sanitizer[nm] {
						continue
					}
					if nm == "(*api/client.Connection).NewRequest" {
						if len(cc.Args) > 3 && cc.Args[3] == v {
							hitPath = true
							pathHit = x.Pos()
						}
						continue
					}
					callee := cc.StaticCallee()
					if callee != nil && callee.Blocks != nil && p.PkgOf(callee) == "api/client" && depth < 3 {
						for i, a := range cc.Args {
							if a != v || i >= len(callee.Params) {
								continue
							}
							k := key{callee, i}
							res, ok := memo[k]
							if !ok {
								memo[k] = struct{ hitPath, ret bool }{}
								h, rt := flow(callee, callee.Params[i], depth+1)
								res = struct{ hitPath, ret bool }{h, rt}
								memo[k] = res
							}
							if res.hitPath {
								hitPath = true
							}
							if res.ret {
								if val, ok := x.(ssa.Value); ok {
									push(val)
								}
							}
						}
						continue
					}
					if b, ok := cc.Value.(*ssa.Builtin); ok && (b.Name() == "append" || b.Name() == "copy") {
						if val, ok := x.(ssa.Value); ok {
							push(val)
						}
						continue
					}
					// joins that keep the raw text: the result carries the taint
					switch nm {
					case "path.Join", "fmt.Sprintf", "strings.Join", "fmt.Sprint", "net/url.JoinPath":
						if val, ok := x.(ssa.Value); ok {
							push(val)
						}
					}
				}
			}
		}
		return
	}
	n := 0
	for _, fn := range p.FuncsIn("api/client") {
		if fn.Parent() != nil || fn.Signature.Recv() == nil || namedOf(fn.Signature.Recv().Type()) != "api/client.Connection" || !ast_IsExported(fn.Name()) || fn.Name() == "NewRequest" {
			continue
		}
		for i, prm := range fn.Params {
			if i == 0 {
				continue
			}
			if b, ok := prm.Type().Underlying().(*types.Basic); !ok || b.Kind() != types.String {
				continue
			}
			n++
			pathHit = token.NoPos
			hit, _ := flow(fn, prm, 0)
			construct := fnName(fn) + " parameter " + prm.Name()
			if hit {
				c.Fail(rule, construct, pathHit, "this caller-chosen string reaches the request path without being percent-escaped: a branch or pool name containing `/`, `#`, `?` or `%` addresses another route on the service, so the operation fails or acts on another branch although direct access succeeds")
			} else {
				c.OK(rule, construct, prm.Pos(), "escaped before it enters the path (or not part of the path)")
			}
		}
	}
	if n < 12 {
		c.Undecided(rule, "api/client.Connection", "fewer than 12 string parameters found ("+sprint(n)+")")
	}
}

// ---- C19-E5: the error that is tested is the error of the call whose results are used.
func runErrorTestedBeforeUse(c *Ctx, rule string) {
	p := c.P
	c.Rule(rule, "in the service handlers, when the non-error results of a call are used, the error result of that same call was compared with nil (testing another error variable lets a failed call's zero results flow on: the client then gets an unrelated failure, or a success, where direct access reports the call's error)")
	n := 0
	for _, fn := range p.FuncsIn("service") {
		for _, ci := range allCalls(fn) {
			call, ok := ci.(*ssa.Call)
			if !ok {
				continue
			}
			var errEx *ssa.Extract
			used := false
			for _, r := range *call.Referrers() {
				ex, ok := r.(*ssa.Extract)
				if !ok {
					continue
				}
				if isError(ex.Type()) {
					errEx = ex
					continue
				}
				for _, rr := range *ex.Referrers() {
					if _, isDbg := rr.(*ssa.DebugRef); !isDbg {
						used = true
					}
				}
			}
			if errEx == nil || !used {
				continue
			}
			n++
			tested, escapes := false, false
			var visit func(v ssa.Value, depth int)
			visit = func(v ssa.Value, depth int) {
				if depth > 4 {
					return
				}
				for _, r := range *v.Referrers() {
					switch x := r.(type) {
					case *ssa.BinOp:
						if isNilConst(x.X) || isNilConst(x.Y) {
							tested = true
						}
					case *ssa.Return:
						escapes = true
					case *ssa.Phi:
						visit(x, depth+1)
					case *ssa.Store:
						// stored into a variable: look at the loads of that variable
						if a, ok := x.Addr.(*ssa.Alloc); ok {
							for _, ar := range *a.Referrers() {
								if u, ok := ar.(*ssa.UnOp); ok {
									visit(u, depth+1)
								}
							}
						} else {
							escapes = true
						}
					}
				}
			}
			visit(errEx, 0)
			if tested || escapes {
				continue
			}
			c.Fail(rule, constructName(fn)+" uses results of "+calleeName(call.Common())+" without testing its error", call.Pos(), "the error result of this call is never compared with nil although its other results are used: if the call fails, the handler carries on with zero values (here: an empty program), and the client sees an unrelated internal error or a success instead of the error direct access returns")
		}
	}
	if n < 40 {
		c.Undecided(rule, "service handlers", "fewer than 40 multi-result calls with an error found ("+sprint(n)+")")
		return
	}
	c.extra("c19_error_tested_calls", n)
	c.OK(rule, "service: calls whose results are used", token.NoPos, sprint(n)+" calls examined")
}

// ---- C19-K6: the server undoes exactly the escaping the client applies to path elements.
func runPathEscapePairing(c *Ctx, rule string) {
	p := c.P
	c.Rule(rule, "path elements are escaped by the client with url.PathEscape and unescaped by the service with url.PathUnescape (QueryUnescape additionally turns `+` into a space, so a branch named a+b would be looked up as `a b`)")
	up := p.Func("api/client.urlPath")
	sp := p.Func("(*service.Request).StringFromPath")
	if up == nil || sp == nil {
		c.Undecided(rule, "client.urlPath / Request.StringFromPath", "anchors do not resolve")
		return
	}
	esc, unesc := "", ""
	for _, ci := range allCalls(up) {
		if nm := calleeName(ci.Common()); strings.HasPrefix(nm, "net/url.") && strings.HasSuffix(nm, "Escape") {
			esc = nm
		}
	}
	for _, ci := range allCalls(sp) {
		if nm := calleeName(ci.Common()); strings.HasPrefix(nm, "net/url.") && strings.HasSuffix(nm, "Unescape") {
			unesc = nm
		}
	}
	want := map[string]string{"net/url.PathEscape": "net/url.PathUnescape", "net/url.QueryEscape": "net/url.QueryUnescape"}
	construct := "client.urlPath / service.Request.StringFromPath"
	switch {
	case esc == "" || unesc == "":
		c.Undecided(rule, construct, "escape or unescape call not found ("+esc+" / "+unesc+")")
	case want[esc] == unesc:
		c.OK(rule, construct, sp.Pos(), esc+" is undone by "+unesc)
	default:
		c.Fail(rule, construct, sp.Pos(), "the client escapes path elements with "+esc+" but the service decodes them with "+unesc+": characters the two treat differently (`+`) change the name, so an operation on a branch or pool with such a name addresses another one through the service")
	}
}

// ---- C19-E6: a handler that panics does not look like a success.
func runPanicMiddlewareStatus(c *Ctx, rule string) {
	p := c.P
	c.Rule(rule, "the panic-catching middleware answers a recovered panic with an error status: on the path where recover() returned non-nil it writes a header (or an error) to the ResponseWriter — otherwise the client sees an empty 200 and decodes it as a zero-valued success")
	var fn *ssa.Function
	for _, f := range p.FuncsIn("service") {
		top := f
		for top.Parent() != nil {
			top = top.Parent()
		}
		if top.Name() != "panicCatchMiddleware" {
			continue
		}
		for _, b := range f.Blocks {
			for _, in := range b.Instrs {
				if call, ok := in.(*ssa.Call); ok {
					if bi, ok := call.Call.Value.(*ssa.Builtin); ok && bi.Name() == "recover" {
						fn = f
					}
				}
			}
		}
	}
	if fn == nil {
		c.Undecided(rule, "service.panicCatchMiddleware", "the deferred recover was not found")
		return
	}
	writes := false
	for _, ci := range allCalls(fn) {
		cc := ci.Common()
		if cc.IsInvoke() && (cc.Method.Name() == "WriteHeader" || cc.Method.Name() == "Write") {
			writes = true
		}
		if nm := calleeName(cc); nm == "net/http.Error" || strings.HasSuffix(nm, "ResponseWriter).Error") {
			writes = true
		}
	}
	if writes {
		c.OK(rule, "service.panicCatchMiddleware", fn.Pos(), "writes a status after recovering")
	} else {
		c.Fail(rule, "service.panicCatchMiddleware", fn.Pos(), "a recovered panic is only logged: nothing is written to the response, so net/http sends 200 with an empty body and the client's doAndUnmarshal returns a zero-valued result without an error — an operation that crashed in the service reports success remotely")
	}
}

// ---- C19-K7: names spliced into query text are quoted as literals.
func runQueryTextQuoting(c *Ctx, rule string) {
	p := c.P
	c.Rule(rule, "the lake/api helpers that look pools and branches up by name through a query build the query text with the name as a properly quoted literal (zson.QuotedString): a name with a quote or backslash otherwise breaks or changes the query, so the remote handle cannot address a pool that direct access opens by the same name")
	n := 0
	for _, fn := range p.FuncsIn("lake/api") {
		if fn.Parent() != nil {
			continue
		}
		for _, ci := range allCalls(fn) {
			if calleeName(ci.Common()) != "fmt.Sprintf" {
				continue
			}
			args := ci.Common().Args
			if len(args) < 2 {
				continue
			}
			// does the formatted text become a query?
			v, ok := ci.(ssa.Value)
			if !ok {
				continue
			}
			isQuery := false
			for _, r := range *v.Referrers() {
				if cc, ok := r.(ssa.CallInstruction); ok && cc.Common().IsInvoke() && cc.Common().Method.Name() == "Query" {
					isQuery = true
				}
			}
			if !isQuery {
				continue
			}
			sl, ok := args[1].(*ssa.Slice)
			if !ok {
				continue
			}
			arr, ok := sl.X.(*ssa.Alloc)
			if !ok {
				continue
			}
			for _, r := range *arr.Referrers() {
				ia, ok := r.(*ssa.IndexAddr)
				if !ok {
					continue
				}
				for _, rr := range *ia.Referrers() {
					st, ok := rr.(*ssa.Store)
					if !ok {
						continue
					}
					mi, ok := st.Val.(*ssa.MakeInterface)
					if !ok {
						continue
					}
					b, isBasic := mi.X.Type().Underlying().(*types.Basic)
					if !isBasic || b.Kind() != types.String {
						continue
					}
					fromParam := dependsOn(mi.X, func(x ssa.Value) bool {
						prm, ok := x.(*ssa.Parameter)
						if !ok {
							return false
						}
						pb, ok := prm.Type().Underlying().(*types.Basic)
						return ok && pb.Kind() == types.String
					})
					if !fromParam {
						continue
					}
					n++
					quoted := false
					if call, ok := mi.X.(*ssa.Call); ok {
						nm := calleeName(&call.Call)
						quoted = nm == "zson.QuotedString" || nm == "zson.QuotedName" || nm == "strconv.Quote"
					}
					construct := fnName(fn) + " splices a name into query text #" + sprint(n)
					if quoted {
						c.OK(rule, construct, st.Pos(), "quoted as a literal")
					} else {
						c.Fail(rule, construct, st.Pos(), "a caller-chosen name is put into the query text between hand-written quotes: a pool named `it's` makes the lookup query a syntax error (or a different query) through the remote handle, while direct access resolves the name")
					}
				}
			}
		}
	}
	if n < 2 {
		c.Undecided(rule, "lake/api lookups by name", "fewer than 2 spliced names found ("+sprint(n)+")")
	}
}
