package main

import (
	"go/token"
	"go/types"
	"strings"

	"golang.org/x/tools/go/ssa"
)

// ---- C19-K3: list-valued inputs cross the service boundary whole.
//
// The remote implementation of lake/api.Interface and the service handlers sit between the caller
// and the same lake.Root methods direct access calls.  A list-valued input (a slice parameter of
// an Interface method; a slice field of an api.*Request) that is only ever read at a constant
// index is silently truncated on the way, so the lake sees another request than the one direct
// access would have made (e.g. `create -orderby a,b`: direct access rejects two keys, the service
// creates the pool with the first).

func runListInputsWhole(c *Ctx, rule string) {
	p := c.P
	c.Rule(rule, "list-valued inputs cross the service boundary whole: in lake/api.remote methods (slice parameters) and in the service handlers (slice fields of api.*Request values) a list is forwarded, ranged over or indexed by a variable — never read only at a constant index")
	n := 0
	check := func(fn *ssa.Function, what string, vals []ssa.Value, pos token.Pos) {
		constIdx, whole := 0, 0
		var where token.Pos
		seen := map[ssa.Value]bool{}
		var visit func(v ssa.Value)
		visit = func(v ssa.Value) {
			if seen[v] {
				return
			}
			seen[v] = true
			refs := v.Referrers()
			if refs == nil {
				return
			}
			for _, r := range *refs {
				switch x := r.(type) {
				case *ssa.DebugRef:
				case *ssa.IndexAddr:
					if _, ok := x.Index.(*ssa.Const); ok {
						constIdx++
						where = x.Pos()
					} else {
						whole++
					}
				case *ssa.Index:
					if _, ok := x.Index.(*ssa.Const); ok {
						constIdx++
						where = x.Pos()
					} else {
						whole++
					}
				case *ssa.ChangeType:
					visit(x)
				case *ssa.Convert:
					visit(x)
				case *ssa.Phi:
					visit(x)
				case ssa.CallInstruction:
					cc := x.Common()
					if b, ok := cc.Value.(*ssa.Builtin); ok {
						if b.Name() == "len" || b.Name() == "cap" {
							continue
						}
						whole++
						continue
					}
					if callee := cc.StaticCallee(); callee != nil && callee.Blocks != nil && onlyConstIndexed(callee, cc, v) {
						constIdx++
						where = x.Pos()
						continue
					}
					whole++
				default:
					whole++
				}
			}
		}
		for _, v := range vals {
			visit(v)
		}
		if constIdx == 0 && whole == 0 {
			return // unused here: other rules
		}
		n++
		construct := fnName(fn) + " " + what
		if constIdx > 0 && whole == 0 {
			c.Fail(rule, construct, where, "the list is only ever read at a constant index: additional elements are silently dropped (and an empty list faults) on the way through the service, so the lake does not see the request direct access would make")
		} else {
			c.OK(rule, construct, pos, "forwarded whole / iterated")
		}
	}
	// (a) remote methods
	for _, fn := range p.FuncsIn("lake/api") {
		if fn.Signature.Recv() == nil || namedOf(fn.Signature.Recv().Type()) != "lake/api.remote" || fn.Parent() != nil {
			continue
		}
		for _, prm := range fn.Params[1:] {
			if _, ok := prm.Type().Underlying().(*types.Slice); !ok {
				continue
			}
			check(fn, "parameter "+prm.Name(), []ssa.Value{prm}, prm.Pos())
		}
	}
	// (b) request fields in handlers
	for _, fn := range p.FuncsIn("service") {
		byPath := map[string][]ssa.Value{}
		pos := map[string]token.Pos{}
		for _, b := range fn.Blocks {
			for _, in := range b.Instrs {
				u, ok := in.(*ssa.UnOp)
				if !ok || u.Op != token.MUL {
					continue
				}
				if _, ok := u.Type().Underlying().(*types.Slice); !ok {
					continue
				}
				fa, ok := u.X.(*ssa.FieldAddr)
				if !ok {
					continue
				}
				path, root := reqPath(fa)
				if root == nil {
					continue
				}
				nm := namedOf(root)
				if !strings.HasPrefix(nm, "api.") || !strings.HasSuffix(nm, "Request") {
					continue
				}
				byPath[path] = append(byPath[path], u)
				if _, ok := pos[path]; !ok {
					pos[path] = u.Pos()
				}
			}
		}
		for path, vals := range byPath {
			check(fn, "request field "+path, vals, pos[path])
		}
	}
	if n < 8 {
		c.Undecided(rule, "list-valued inputs", "fewer than 8 list-valued inputs found ("+sprint(n)+")")
	}
}

// reqPath returns the dotted field path of fa and the type of the struct at its root.
func reqPath(fa *ssa.FieldAddr) (string, types.Type) {
	name := fieldName(fa.X.Type(), fa.Field)
	switch x := fa.X.(type) {
	case *ssa.FieldAddr:
		p, root := reqPath(x)
		return p + "." + name, root
	default:
		t := fa.X.Type()
		if pt, ok := t.Underlying().(*types.Pointer); ok {
			t = pt.Elem()
		}
		return namedOf(t) + "." + name, t
	}
}

// onlyConstIndexed reports whether callee reads the parameter that receives v only at constant indices.
func onlyConstIndexed(callee *ssa.Function, cc *ssa.CallCommon, v ssa.Value) bool {
	idx := -1
	for i, a := range cc.Args {
		if a == v {
			idx = i
		}
	}
	if idx < 0 || idx >= len(callee.Params) {
		return false
	}
	prm := callee.Params[idx]
	constIdx, other := 0, 0
	for _, r := range *prm.Referrers() {
		switch x := r.(type) {
		case *ssa.DebugRef:
		case *ssa.IndexAddr:
			if _, ok := x.Index.(*ssa.Const); ok {
				constIdx++
			} else {
				other++
			}
		case *ssa.Index:
			if _, ok := x.Index.(*ssa.Const); ok {
				constIdx++
			} else {
				other++
			}
		default:
			other++
		}
	}
	return constIdx > 0 && other == 0
}

// ---- C19-E4: a late query error takes both delivery routes on every path.
//
// After the 200 header is out, handleQuery has two ways to tell the client that the query failed:
// an in-band QueryError control frame (only formats with control frames carry it, and only when
// the client asked for them) and the record kept for GET /query/status/{id}.  Neither route alone
// reaches every client, so the callback must take both unconditionally.
func runLateErrorRoutes(c *Ctx, rule string) {
	p := c.P
	c.Rule(rule, "the late-error callback of handleQuery writes the in-band error and records it for the status endpoint on every path (neither route alone reaches every client)")
	hq := p.Func("service.handleQuery")
	if hq == nil {
		c.Undecided(rule, "service.handleQuery", "anchor does not resolve")
		return
	}
	n := 0
	for _, an := range hq.AnonFuncs {
		if len(an.Params) != 1 || !isError(an.Params[0].Type()) || an.Signature.Results().Len() != 0 {
			continue
		}
		n++
		for _, want := range []string{"(*service.queryStatus).setError", "(*api/queryio.Writer).WriteError"} {
			is := func(in ssa.Instruction) bool {
				ci, ok := in.(ssa.CallInstruction)
				return ok && calleeName(ci.Common()) == want
			}
			isRet := func(in ssa.Instruction) bool { _, ok := in.(*ssa.Return); return ok }
			construct := "handleQuery late-error callback -> " + want
			entry := an.Blocks[0].Instrs[0]
			if is(entry) {
				c.OK(rule, construct, an.Pos(), "on every path")
				continue
			}
			if hit := reachAvoiding(an, entry, is, isRet); hit != nil {
				pos := hit.Pos()
				if !pos.IsValid() {
					pos = an.Pos()
				}
				c.Fail(rule, construct, pos, "a path through the callback returns without "+want+": a run-time error (missing data object, formatter error) then reaches some clients by neither route — HTTP 200, a truncated body and an empty status, where direct access returns the error")
			} else {
				c.OK(rule, construct, an.Pos(), "on every path")
			}
		}
	}
	if n != 1 {
		c.Undecided(rule, "service.handleQuery", "expected exactly one func(error) callback, found "+sprint(n))
	}
}

// ---- C19-K4: nothing the caller passes is ignored on the way to the service.
func runRemoteParamsUsed(c *Ctx, rule string) {
	p := c.P
	c.Rule(rule, "every named parameter of the remote implementation of lake/api.Interface and of the api/client.Connection request methods is used (flows into the request): a parameter that is accepted and ignored makes the service act on another request than direct access would")
	n := 0
	check := func(fn *ssa.Function) {
		for i, prm := range fn.Params {
			if i == 0 || prm.Name() == "_" || prm.Name() == "" || short(prm.Type().String()) == "context.Context" {
				continue
			}
			n++
			used := false
			for _, r := range *prm.Referrers() {
				if _, ok := r.(*ssa.DebugRef); !ok {
					used = true
				}
			}
			construct := fnName(fn) + " parameter " + prm.Name()
			if used {
				c.OK(rule, construct, prm.Pos(), "used")
			} else {
				c.Fail(rule, construct, prm.Pos(), "the parameter is accepted but never used: what the caller asked for (commit message, object list, flag) does not reach the service")
			}
		}
	}
	for _, fn := range p.FuncsIn("lake/api") {
		if fn.Parent() == nil && fn.Signature.Recv() != nil && namedOf(fn.Signature.Recv().Type()) == "lake/api.remote" {
			check(fn)
		}
	}
	for _, fn := range p.FuncsIn("api/client") {
		if fn.Parent() == nil && fn.Signature.Recv() != nil && namedOf(fn.Signature.Recv().Type()) == "api/client.Connection" && ast_IsExported(fn.Name()) {
			check(fn)
		}
	}
	if n < 60 {
		c.Undecided(rule, "remote / Connection methods", "fewer than 60 parameters found ("+sprint(n)+")")
	}
}

// ---- C19-K5: caller-chosen names are escaped before they become part of a request path.
//
// Branch and pool names are arbitrary strings (`feature/x`, `fix#12`).  Direct access uses them as
// they are; the client puts them into a URL path, where they only address the same branch if every
// such element is percent-escaped.  Forward taint from each string parameter of a Connection
// method: it may reach the path argument of NewRequest only through url.PathEscape / urlPath.
func runClientPathEscaping(c *Ctx, rule string) {
	p := c.P
	c.Rule(rule, "in api/client every string parameter of a Connection method that ends up in the path of a request goes through url.PathEscape (urlPath) first — through helpers as well; a name joined into the path unescaped addresses another (or no) resource on the service")
	sanitizer := map[string]bool{"net/url.PathEscape": true, "api/client.urlPath": true, "net/url.QueryEscape": true}
	type key struct {
		fn  *ssa.Function
		idx int
	}
	memo := map[key]struct{ hitPath, ret bool }{}
	var pathHit token.Pos
	var flow func(fn *ssa.Function, start ssa.Value, depth int) (bool, bool)
	flow = func(fn *ssa.Function, start ssa.Value, depth int) (hitPath bool, reachesReturn bool) {
		seen := map[ssa.Value]bool{}
		var work []ssa.Value
		push := func(v ssa.Value) {
			if v != nil && !seen[v] {
				seen[v] = true
				work = append(work, v)
			}
		}
		push(start)
		for len(work) > 0 {
			v := work[len(work)-1]
			work = work[:len(work)-1]
			refs := v.Referrers()
			if refs == nil {
				continue
			}
			for _, r := range *refs {
				switch x := r.(type) {
				case *ssa.Store:
					if x.Val == v {
						// element of a varargs array / local variable
						switch a := x.Addr.(type) {
						case *ssa.IndexAddr:
							push(a.X)
						case *ssa.Alloc:
							push(a)
						}
					}
				case *ssa.Slice:
					push(x)
				case *ssa.IndexAddr:
					if x.X == v {
						push(x)
					}
				case *ssa.UnOp:
					push(x)
				case *ssa.Phi:
					push(x)
				case *ssa.BinOp:
					if x.Op == token.ADD {
						push(x)
					}
				case *ssa.MakeInterface:
					push(x)
				case *ssa.Convert:
					push(x)
				case *ssa.ChangeType:
					push(x)
				case *ssa.Return:
					reachesReturn = true
				case ssa.CallInstruction:
					cc := x.Common()
					nm := calleeName(cc)
					if sanitizer[nm] {
						continue
					}
					if nm == "(*api/client.Connection).NewRequest" {
						if len(cc.Args) > 3 && cc.Args[3] == v {
							hitPath = true
							pathHit = x.Pos()
						}
						continue
					}
					callee := cc.StaticCallee()
					if callee != nil && callee.Blocks != nil && p.PkgOf(callee) == "api/client" && depth < 3 {
						for i, a := range cc.Args {
							if a != v || i >= len(callee.Params) {
								continue
							}
							k := key{callee, i}
							res, ok := memo[k]
							if !ok {
								memo[k] = struct{ hitPath, ret bool }{}
								h, rt := flow(callee, callee.Params[i], depth+1)
								res = struct{ hitPath, ret bool }{h, rt}
								memo[k] = res
							}
							if res.hitPath {
								hitPath = true
							}
							if res.ret {
								if val, ok := x.(ssa.Value); ok {
									push(val)
								}
							}
						}
						continue
					}
					if b, ok := cc.Value.(*ssa.Builtin); ok && (b.Name() == "append" || b.Name() == "copy") {
						if val, ok := x.(ssa.Value); ok {
							push(val)
						}
						continue
					}
					// joins that keep the raw text: the result carries the taint
					switch nm {
					case "path.Join", "fmt.Sprintf", "strings.Join", "fmt.Sprint", "net/url.JoinPath":
						if val, ok := x.(ssa.Value); ok {
							push(val)
						}
					}
				}
			}
		}
		return
	}
	n := 0
	for _, fn := range p.FuncsIn("api/client") {
		if fn.Parent() != nil || fn.Signature.Recv() == nil || namedOf(fn.Signature.Recv().Type()) != "api/client.Connection" || !ast_IsExported(fn.Name()) || fn.Name() == "NewRequest" {
			continue
		}
		for i, prm := range fn.Params {
			if i == 0 {
				continue
			}
			if b, ok := prm.Type().Underlying().(*types.Basic); !ok || b.Kind() != types.String {
				continue
			}
			n++
			pathHit = token.NoPos
			hit, _ := flow(fn, prm, 0)
			construct := fnName(fn) + " parameter " + prm.Name()
			if hit {
				c.Fail(rule, construct, pathHit, "this caller-chosen string reaches the request path without being percent-escaped: a branch or pool name containing `/`, `#`, `?` or `%` addresses another route on the service, so the operation fails or acts on another branch although direct access succeeds")
			} else {
				c.OK(rule, construct, prm.Pos(), "escaped before it enters the path (or not part of the path)")
			}
		}
	}
	if n < 12 {
		c.Undecided(rule, "api/client.Connection", "fewer than 12 string parameters found ("+sprint(n)+")")
	}
}
