package main

import (
	"go/types"
	"sort"
	"strings"

	"golang.org/x/tools/go/ssa"
)

// writersNoRetain: the zio.Writer contract ("Implementations must not retain
// val or val.Bytes") for every Write(zed.Value) implementer of the module.
func writersNoRetain(c *Ctx, rule string) {
	p := c.P
	zw := ifaceType(p, "zio", "Writer")
	if zw == nil {
		c.Undecided(rule, "zio.Writer", "anchor interface does not resolve")
		return
	}
	n := 0
	var fns []*ssa.Function
	for _, fn := range p.Funcs {
		if fn.Parent() != nil || fn.Signature.Recv() == nil || fn.Name() != "Write" {
			continue
		}
		if !types.Implements(fn.Signature.Recv().Type(), zw) && !types.Implements(types.NewPointer(fn.Signature.Recv().Type()), zw) {
			continue
		}
		if strings.Contains(p.PkgOf(fn), "ztest") || strings.HasPrefix(p.PkgOf(fn), "cmd/") {
			continue
		}
		fns = append(fns, fn)
	}
	sort.Slice(fns, func(i, j int) bool { return fns[i].String() < fns[j].String() })
	for _, fn := range fns {
		n++
		checkNoRetain(c, rule, fn, 1, "zio.Writer contract: implementations must not retain val or val.Bytes")
	}
	if n < 20 {
		c.Undecided(rule, "zio.Writer implementers", "fewer than 20 Write(zed.Value) implementers found")
	}
}

func checkNoRetain(c *Ctx, rule string, fn *ssa.Function, paramIdx int, contract string) {
	if paramIdx >= len(fn.Params) {
		return
	}
	e := newOwnEngine(c.P)
	e.run(fn, []ssa.Value{fn.Params[paramIdx]}, nil, 0)
	construct := fnName(fn) + " argument " + fn.Params[paramIdx].Name()
	if len(e.reports) == 0 {
		c.OK(rule, construct, fn.Pos(), "not retained (copied, consumed or passed on)")
		return
	}
	for _, r := range e.reports {
		if why, ok := ownExempt[fnName(fn)]; ok {
			c.OK(rule, construct, r.in.Pos(), "exempt: "+why)
			continue
		}
		c.Fail(rule, construct, r.in.Pos(), "borrowed value is "+r.why+" without a copy via "+strings.Join(r.path, " -> ")+"; "+contract+" — it aliases a frame buffer that is recycled once the batch is released")
	}
}

var ownExempt = map[string]string{}

func runC04(c *Ctx, tier string) {
	c.Rule("C04-W2", "writers do not retain their argument: for every Write(zed.Value) implementer the value (and anything derived from it without a copy) is never stored in receiver state, a global or a channel")
	c.Rule("C04-K1", "the buffer filter's field-name traversal covers the evaluator's: every container kind zed.Walk descends is looked at by a function reachable from FieldNameFinder.Find")
	c.Rule("C04-P1", "the exact filter is always applied: scanBatch keeps a slot only on the true arm of wantValue; wantValue is true only without a filter or when check() held; check() is true only for a boolean true")
	c.Rule("C04-W1", "the type context owns the bytes it caches (= C05-W1)")
	c.Rule("C04-B1", "pooled frame buffers released exactly once; peeker bytes copied (= C01-O5, C01-O6)")
	writersNoRetain(c, "C04-W2")
	c.Rule("C04-F1", "the buffer filter is only an over-approximation: CompileBufferFilter's and/or composition (with absent sub-filters), the keyword-search combination and BufferFilter.Eval's operator table are checked exhaustively over the truth table of sound sub-filters")
	runC04K1(c)
	runIDCaches(c, "C04-O8", "C04-K2")
	runCaseFinderFolds(c, "C04-T1")
	c.Rule("C04-O7", "per-stream type scope is immutable once handed to workers (= C01-O7): the buffer filter resolves a frame's type IDs in the context of the frame's own stream")
	c.borrow(func(t *Ctx) { runC01(t, "quick") }, map[string]string{"C01-O7": "C04-O7"})
	runC04P1(c)
	runC04F1(c)
	runFilterInstancesArePrivate(c, "C04-F3")
	c.borrow(func(t *Ctx) { runC05Rest(t) }, map[string]string{"C05-W1": "C04-W1"})
	c.Rule("C04-W3", "an operator that releases a pulled batch keeps none of its values without a copy")
	batchValuesRetention(c, "C04-W3", opPkgs(c.P)...)
	runScanBatchTypestate(c, "C04-B1")
	runPeekerOwnership(c, "C04-B1")
	runReadersNormaliseContainers(c, "C04-N1")
}

func init() {
	register(&PropertyDef{ID: "C04", Run: runC04,
		Explanation: "Decides structural conditions behind encoding independence: the exact filter is always applied to values the buffer filter lets through (P1), the buffer filter's field-name traversal covers every container kind the evaluator's walk descends (K1), the type context owns the bytes it caches (W1), writers/aggregates do not retain borrowed values (W2), pooled buffers are released exactly once and peeker bytes are copied (B1). Does NOT decide equality of results across encodings nor soundness of the buffer filter's patterns.",
		Assumptions: []string{"calls that leave the package do not retain their arguments (each zio.Writer/agg.Function implementer is itself checked)", "evaluator results may alias their input"}})
}

// C04-K1: every container kind zed.Walk descends is handled by the
// field-name finder of the buffer filter.
func runC04K1(c *Ctx) {
	p := c.P
	walk := p.Func("super.Walk")
	find := p.Func("(*runtime/sam/expr.FieldNameFinder).Find")
	if walk == nil || find == nil {
		c.Undecided("C04-K1", "zed.Walk / FieldNameFinder.Find", "anchors do not resolve")
		return
	}
	asserted := func(fns map[*ssa.Function]bool) map[string]bool {
		out := map[string]bool{}
		for f := range fns {
			for _, b := range f.Blocks {
				for _, in := range b.Instrs {
					if ta, ok := in.(*ssa.TypeAssert); ok && namedOf(ta.X.Type()) == "super.Type" {
						if n := namedOf(ta.AssertedType); strings.HasPrefix(n, "super.Type") {
							out[n] = true
						}
					}
				}
			}
		}
		return out
	}
	walkKinds := asserted(map[*ssa.Function]bool{walk: true})
	finderFns := reachableStatic([]*ssa.Function{find}, func(f *ssa.Function) bool {
		pk := p.PkgOf(f)
		return pk == "" || pk == "runtime/sam/expr"
	})
	finderKinds := asserted(finderFns)
	if len(walkKinds) < 7 {
		c.Undecided("C04-K1", "zed.Walk", "fewer than the 7 known container kinds found in zed.Walk's type switch")
	}
	for _, k := range setDiff(walkKinds, nil) {
		construct := "FieldNameFinder handles " + k
		if finderKinds[k] {
			c.OK("C04-K1", construct, find.Pos(), "descended by zed.Walk and handled by the finder's traversal")
		} else {
			c.Fail("C04-K1", construct, find.Pos(), "zed.Walk (used by the search evaluator) descends "+k+" and matches field names of records inside it, but no function reachable from FieldNameFinder.Find looks at "+k+": a ZNG frame holding such a value is dropped by the buffer filter while the same value in ZSON matches")
		}
	}
}

// C04-P1: the exact filter is always applied.
func runC04P1(c *Ctx) {
	p := c.P
	sb := p.Func("(*zio/zngio.worker).scanBatch")
	wv := p.Func("(*zio/zngio.worker).wantValue")
	if sb == nil || wv == nil {
		c.Undecided("C04-P1", "scanBatch / wantValue", "anchors do not resolve")
		return
	}
	wantCalls := callsTo(sb, "(*zio/zngio.worker).wantValue")
	exts := callsTo(sb, "(*zio/zngio.batch).extend")
	if len(wantCalls) != 1 || len(exts) < 2 {
		c.Fail("C04-P1", "(*zio/zngio.worker).scanBatch keeps a value", sb.Pos(), "scanBatch no longer has exactly one wantValue decision guarding the batch slot advance")
	} else {
		wc := wantCalls[0].(*ssa.Call)
		ok := true
		for _, e := range exts {
			ei := e.(ssa.Instruction)
			if dominates(ei, wc) {
				continue // the initial slot
			}
			if !trueEdgeDominates(wc, ei.Block()) {
				ok = false
				c.Fail("C04-P1", "(*zio/zngio.worker).scanBatch keeps a value", e.Pos(), "the batch is extended (a decoded value is kept) on a path where wantValue did not return true: the buffer filter would admit values the exact filter rejects")
			}
		}
		// the decoded value must be the one tested
		if ok {
			c.OK("C04-P1", "(*zio/zngio.worker).scanBatch keeps a value", wc.Pos(), "a slot is kept only on the true arm of wantValue")
		}
	}
	// wantValue returns true only if filter == nil or check() held
	var conds []ssa.Value
	for _, b := range wv.Blocks {
		for _, in := range b.Instrs {
			switch x := in.(type) {
			case *ssa.BinOp:
				if x.Op.String() == "==" && (isNilConst(x.Y) || isNilConst(x.X)) {
					o := x.X
					if isNilConst(o) {
						o = x.Y
					}
					if isFieldLoad(o, "filter") {
						conds = append(conds, x)
					}
				}
			case *ssa.Call:
				if calleeName(x.Common()) == "zio/zngio.check" {
					conds = append(conds, x)
				}
			}
		}
	}
	isCond := func(v ssa.Value) bool {
		for _, k := range conds {
			if k == v {
				return true
			}
		}
		return false
	}
	retTrue := func(in ssa.Instruction) bool {
		r, ok := in.(*ssa.Return)
		if !ok {
			return false
		}
		k, ok := r.Results[0].(*ssa.Const)
		return !ok || (k.Value != nil && k.Value.String() == "true")
	}
	edgeOK := func(a, b *ssa.BasicBlock) bool {
		if iff, ok := a.Instrs[len(a.Instrs)-1].(*ssa.If); ok && isCond(iff.Cond) && b == a.Succs[0] {
			return false
		}
		return true
	}
	if len(conds) < 2 {
		c.Fail("C04-P1", "(*zio/zngio.worker).wantValue", wv.Pos(), "wantValue no longer decides on `w.filter == nil || check(...)`")
	} else if r := reachAvoidingEdges(wv, nil, func(ssa.Instruction) bool { return false }, retTrue, edgeOK); r != nil {
		c.Fail("C04-P1", "(*zio/zngio.worker).wantValue", r.Pos(), "wantValue can return true on a path where a filter is present and check() did not hold")
	} else {
		c.OK("C04-P1", "(*zio/zngio.worker).wantValue", wv.Pos(), "returns true only if there is no filter or check() held")
	}
	// check(): true only for a boolean true result
	if ck := p.Func("zio/zngio.check"); ck == nil {
		c.Undecided("C04-P1", "zio/zngio.check", "anchor does not resolve")
	} else {
		okc := false
		for _, ci := range allCalls(ck) {
			if call, ok := ci.(*ssa.Call); ok && ci.Common().IsInvoke() && ci.Common().Method.Name() == "Eval" {
				if why := prunerResultDiscipline(call); why == "" {
					okc = true
				} else {
					c.Fail("C04-P1", "zio/zngio.check", ci.Pos(), "filter result: "+why)
				}
			}
		}
		if okc {
			c.OK("C04-P1", "zio/zngio.check", ck.Pos(), "a value passes only when the filter's result is the boolean true")
		}
	}
}

// batchValuesRetention: operators that keep a value taken from a batch beyond
// the batch's release must copy it.  Sources: the result of Batch.Values() in
// every function of the operator packages; sinks: receiver state, globals,
// channels.  A function that never releases the batch (no Unref call on it, or
// that stores the batch itself) keeps the frame alive and is exempt.
func batchValuesRetention(c *Ctx, rule string, pkgs ...string) {
	p := c.P
	n := 0
	for _, fn := range p.FuncsIn(pkgs...) {
		var srcs []ssa.Value
		for _, ci := range allCalls(fn) {
			cc := ci.Common()
			if call, ok := ci.(*ssa.Call); ok && cc.IsInvoke() && cc.Method.Name() == "Values" && namedOf(cc.Value.Type()) == "zbuf.Batch" {
				srcs = append(srcs, call)
			}
		}
		if len(srcs) == 0 {
			continue
		}
		// does the function release a batch?
		unrefs := false
		for _, ci := range allCalls(fn) {
			if ci.Common().IsInvoke() && ci.Common().Method.Name() == "Unref" {
				unrefs = true
			}
		}
		// does it keep the batch itself (a reference) next to its values?
		keepsBatch := false
		for _, b := range fn.Blocks {
			for _, in := range b.Instrs {
				if st, ok := in.(*ssa.Store); ok && namedOf(st.Val.Type()) == "zbuf.Batch" {
					if k, _ := addrRoot(fn, st.Addr); k == "retained" {
						keepsBatch = true
					}
				}
			}
		}
		n++
		construct := constructName(fn) + " values of a pulled batch"
		if keepsBatch {
			c.OK(rule, construct, fn.Pos(), "the function keeps the batch itself in its state while it holds the batch's values (released when they are exhausted)")
			continue
		}
		if !unrefs {
			c.OK(rule, construct, fn.Pos(), "the function does not release the batch (ownership passes on with it)")
			continue
		}
		e := newOwnEngine(p)
		e.run(fn, srcs, nil, 0)
		if len(e.reports) == 0 {
			c.OK(rule, construct, fn.Pos(), "no value outlives the batch without a copy")
			continue
		}
		for _, r := range e.reports {
			c.Fail(rule, construct, r.in.Pos(), "a value of a batch that this function releases (Unref) is "+r.why+" without a copy via "+strings.Join(r.path, " -> ")+": once the batch is released its frame buffer is recycled and the retained value changes")
		}
	}
	if n < 5 {
		c.Undecided(rule, "batch consumers", "fewer than 5 functions consuming batch values found")
	}
}

func opPkgs(p *Prog) []string {
	var out []string
	for rp := range p.Pkgs {
		if strings.HasPrefix(rp, "runtime/sam/op") || rp == "zbuf" || rp == "runtime/sam/expr" || rp == "runtime/sam/expr/agg" {
			out = append(out, rp)
		}
	}
	sort.Strings(out)
	return out
}
