package main

import (
	"go/constant"
	"go/token"
	"go/types"
	"strings"

	"golang.org/x/tools/go/ssa"
)

// selectArm returns the block executed when state idx of sel is chosen.
func selectArm(sel *ssa.Select, idx int) *ssa.BasicBlock {
	for _, r := range *sel.Referrers() {
		ex, ok := r.(*ssa.Extract)
		if !ok || ex.Index != 0 {
			continue
		}
		for _, rr := range *ex.Referrers() {
			cmp, ok := rr.(*ssa.BinOp)
			if !ok || cmp.Op != token.EQL {
				continue
			}
			k, ok := cmp.Y.(*ssa.Const)
			if !ok || k.Value == nil || k.Int64() != int64(idx) {
				continue
			}
			for _, u := range *cmp.Referrers() {
				if iff, ok := u.(*ssa.If); ok {
					if arm := iff.Block().Succs[0]; len(arm.Preds) == 1 {
						return arm
					}
					return nil // empty arm merging into a join/loop head: dominates nothing of its own
				}
			}
		}
	}
	return nil
}

// isFieldOf: v is a load/field selection of `field` from a value of named type tname.
func isFieldOf(v ssa.Value, tname, field string) bool {
	switch x := stripConv(v).(type) {
	case *ssa.UnOp:
		if fa, ok := x.X.(*ssa.FieldAddr); ok {
			return namedOf(fa.X.Type()) == tname && fieldName(fa.X.Type(), fa.Field) == field
		}
	case *ssa.Field:
		return namedOf(x.X.Type()) == tname && fieldName(x.X.Type(), x.Field) == field
	}
	return false
}

func isCtxDone(v ssa.Value) bool {
	c, ok := stripConv(v).(*ssa.Call)
	return ok && calleeName(c.Common()) == "(context.Context).Done"
}

func isCloseOf(in ssa.Instruction, pred func(ssa.Value) bool) bool {
	c, ok := in.(*ssa.Call)
	if !ok {
		return false
	}
	b, ok := c.Call.Value.(*ssa.Builtin)
	return ok && b.Name() == "close" && pred(c.Call.Args[0])
}

// returnOperand resolves result i of a return, looking through named results
// spilled for deferred calls.
func returnOperand(ret *ssa.Return, i int) ssa.Value {
	v := ret.Results[i]
	if u, ok := v.(*ssa.UnOp); ok && u.Op == token.MUL {
		if a, ok := u.X.(*ssa.Alloc); ok {
			// last store to a in the blocks leading here: search this block backwards, then unique preds
			b := ret.Block()
			for depth := 0; depth < 4 && b != nil; depth++ {
				for k := len(b.Instrs) - 1; k >= 0; k-- {
					if st, ok := b.Instrs[k].(*ssa.Store); ok && st.Addr == a {
						return st.Val
					}
				}
				if len(b.Preds) == 1 {
					b = b.Preds[0]
				} else {
					b = nil
				}
			}
		}
	}
	return v
}

const zngWork = "zio/zngio.work"

func runC01Channels(c *Ctx, prefix string) {
	p := c.P
	isResultCh := func(v ssa.Value) bool { return isFieldOf(v, zngWork, "resultCh") }
	// O4: worker result protocol
	run := p.Func("(*zio/zngio.worker).run")
	if run == nil {
		c.Undecided(prefix+"-O4", "(*zio/zngio.worker).run", "anchor does not resolve")
	} else {
		var workVal ssa.Instruction
		var sel *ssa.Select
		for _, b := range run.Blocks {
			for _, in := range b.Instrs {
				if ex, ok := in.(*ssa.Extract); ok && namedOf(ex.Type()) == zngWork {
					workVal = ex
					sel, _ = ex.Tuple.(*ssa.Select)
				}
			}
		}
		if workVal == nil || sel == nil {
			c.Undecided(prefix+"-O4", "(*zio/zngio.worker).run", "receive of a work item from a select not found")
		} else {
			signals := func(in ssa.Instruction) bool {
				if s, ok := in.(*ssa.Send); ok && isResultCh(s.Chan) {
					return true
				}
				return isCloseOf(in, isResultCh)
			}
			// start from the first instruction of the arm that received the work
			loopOrExit := func(in ssa.Instruction) bool {
				if _, ok := in.(*ssa.Return); ok {
					return true
				}
				if s, ok := in.(*ssa.Select); ok && s != sel {
					return true // next iteration's first select
				}
				return in == ssa.Instruction(sel)
			}
			if r := reachAvoiding(run, workVal, signals, loopOrExit); r != nil {
				c.Fail(prefix+"-O4", "(*zio/zngio.worker).run result protocol", workVal.Pos(), "a path from receiving a work item reaches "+p.Pos(r.Pos())+" (loop back-edge or return) without a send on, or close of, work.resultCh: the scanner's Pull would block forever on that frame's result channel")
			} else {
				c.OK(prefix+"-O4", "(*zio/zngio.worker).run result protocol", workVal.Pos(), "every path from receiving work to the next iteration/return sends on or closes work.resultCh")
			}
			// at most one send per work item (the channel has capacity 1)
			two := false
			for _, b := range run.Blocks {
				for _, in := range b.Instrs {
					if s, ok := in.(*ssa.Send); ok && isResultCh(s.Chan) {
						if r := reachAvoiding(run, s, loopOrExit, func(x ssa.Instruction) bool {
							s2, ok := x.(*ssa.Send)
							return ok && isResultCh(s2.Chan)
						}); r != nil {
							two = true
							c.Fail(prefix+"-O4", "(*zio/zngio.worker).run single send", s.Pos(), "two sends on work.resultCh for one work item: the second blocks forever on a capacity-1 channel nobody reads twice")
						}
						if r := reachAvoiding(run, nil, func(ssa.Instruction) bool { return false }, func(x ssa.Instruction) bool { return false }); r != nil {
							_ = r
						}
					}
				}
			}
			// no send after close
			for _, b := range run.Blocks {
				for _, in := range b.Instrs {
					if isCloseOf(in, isResultCh) {
						if r := reachAvoiding(run, in, loopOrExit, func(x ssa.Instruction) bool {
							s2, ok := x.(*ssa.Send)
							return ok && isResultCh(s2.Chan)
						}); r != nil {
							two = true
							c.Fail(prefix+"-O4", "(*zio/zngio.worker).run single send", in.Pos(), "send on work.resultCh after it was closed (panics in the worker goroutine)")
						}
					}
				}
			}
			if !two {
				c.OK(prefix+"-O4", "(*zio/zngio.worker).run single send", workVal.Pos(), "at most one send per work item and none after close")
			}
		}
	}
	// resultCh capacity
	nMake := 0
	for _, fs := range fieldStores(p, "resultCh") {
		if fs.strukt != zngWork {
			continue
		}
		nMake++
		mc, ok := stripConv(fs.store.Val).(*ssa.MakeChan)
		construct := constructName(fs.fn) + " makes work.resultCh"
		if !ok {
			c.Fail(prefix+"-O4", construct, fs.store.Pos(), "work.resultCh is not a fresh channel")
			continue
		}
		k, isC := mc.Size.(*ssa.Const)
		if !isC || k.Value == nil || k.Int64() < 1 {
			c.Fail(prefix+"-O4", construct, fs.store.Pos(), "work.resultCh is unbuffered: the worker's plain send blocks until Pull reaches that frame, and blocks forever once the scanner has been cancelled")
		} else {
			c.OK(prefix+"-O4", construct, fs.store.Pos(), "capacity "+k.Value.String())
		}
	}
	if nMake == 0 {
		c.Undecided(prefix+"-O4", "work.resultCh construction", "no construction site of work.resultCh found")
	}
	// every blocking select in the zngio goroutines has a ctx.Done() arm; plain channel ops are only on resultCh
	roots := []*ssa.Function{}
	if st := p.Func("(*zio/zngio.scanner).start"); st != nil {
		for _, gr := range goRoots(st) {
			if gr.root != nil {
				roots = append(roots, gr.root)
			}
		}
		// the parser goroutine closes resultChCh on exit
		closed := false
		for _, r := range roots {
			for _, b := range r.Blocks {
				for _, in := range b.Instrs {
					if d, ok := in.(*ssa.Defer); ok {
						if bi, ok := d.Call.Value.(*ssa.Builtin); ok && bi.Name() == "close" && isFieldOf(d.Call.Args[0], "zio/zngio.scanner", "resultChCh") {
							closed = true
						}
					}
				}
			}
		}
		if closed {
			c.OK(prefix+"-O4", "parser goroutine closes resultChCh", st.Pos(), "deferred close: Pull(done) and the range over resultChCh terminate")
		} else {
			c.Fail(prefix+"-O4", "parser goroutine closes resultChCh", st.Pos(), "the parser goroutine does not close s.resultChCh on every exit: Pull(done=true) ranges over it and would block forever")
		}
	} else {
		c.Undecided(prefix+"-O4", "(*zio/zngio.scanner).start", "anchor does not resolve")
	}
	if len(roots) < 2 {
		c.Undecided(prefix+"-O4", "zngio goroutine roots", "fewer than 2 goroutine roots found in scanner.start")
	}
	reach := reachableStatic(roots, func(f *ssa.Function) bool { return p.PkgOf(f) == "zio/zngio" })
	for f := range reach {
		for _, b := range f.Blocks {
			for _, in := range b.Instrs {
				switch x := in.(type) {
				case *ssa.Select:
					if !x.Blocking {
						continue
					}
					construct := constructName(f) + " select at " + p.Pos(x.Pos())
					construct = constructName(f) + " blocking select #" + sprint(selectOrdinal(f, x))
					has := false
					for _, st := range x.States {
						if st.Dir == types.RecvOnly && isCtxDone(st.Chan) {
							has = true
						}
					}
					if has {
						c.OK(prefix+"-O4", construct, x.Pos(), "has a <-ctx.Done() arm")
					} else {
						c.Fail(prefix+"-O4", construct, x.Pos(), "a blocking select in a reader goroutine has no <-ctx.Done() arm: after cancellation (Pull(done), error, early close) the goroutine is left blocked")
					}
				case *ssa.Send:
					if mc, ok := stripConv(x.Chan).(*ssa.MakeChan); ok {
						if k, isC := mc.Size.(*ssa.Const); isC && k.Value != nil && k.Int64() >= 1 {
							continue // fresh local channel with capacity: the send cannot block
						}
					}
					if !isResultCh(x.Chan) {
						c.Fail(prefix+"-O4", constructName(f)+" plain send", x.Pos(), "a plain (non-select) channel send in a reader goroutine on a channel other than the capacity-1 work.resultCh can block forever after cancellation")
					}
				case *ssa.UnOp:
					if x.Op == token.ARROW {
						c.Fail(prefix+"-O4", constructName(f)+" plain receive", x.Pos(), "a plain (non-select) channel receive in a reader goroutine can block forever after cancellation")
					}
				}
			}
		}
	}
}

func selectOrdinal(f *ssa.Function, s *ssa.Select) int {
	k := 0
	for _, b := range f.Blocks {
		for _, in := range b.Instrs {
			if x, ok := in.(*ssa.Select); ok {
				k++
				if x == s {
					return k
				}
			}
		}
	}
	return 0
}

func runC01(c *Ctx, tier string) {
	p := c.P
	c.Rule("C01-O1", "in-order delivery: in the parser goroutine the send of a work item to a worker happens only in the success arm of the send of that work's resultCh on resultChCh")
	c.Rule("C01-O2", "typedefs before values: in Writer.flush the TypesFrame block is written before the ValuesFrame block, and the typedef buffer is only flushed after both")
	c.Rule("C01-O3", "per-stream type scope: Writer.EndStream resets the type encoder on every successful path; parser.read resets the decoder exactly on the EOS code")
	c.Rule("C01-O4", "worker result protocol: every work item's resultCh gets exactly one send or a close; channels are buffered/cancellable")
	c.Rule("C01-O5", "pooled frame buffer typestate in scanBatch: freed exactly once when no batch is returned, never when the batch that owns it is returned")
	c.Rule("C01-O6", "bytes returned by the peeker never outlive the next read: they reach frames/buffers/control messages only through a copy")
	c.Rule("C01-K1", "codec tables agree: Encoder.encode covers every complex zed.Type; the TypeDef* codes emitted are those Decoder.decode handles; frame-type codes written are those parser.read dispatches")

	// ---- O1
	if st := p.Func("(*zio/zngio.scanner).start"); st == nil {
		c.Undecided("C01-O1", "(*zio/zngio.scanner).start", "anchor does not resolve")
	} else {
		found := false
		for _, gr := range goRoots(st) {
			r := gr.root
			if r == nil {
				continue
			}
			var sendWork, sendRes []*ssa.Select
			widx, ridx := map[*ssa.Select]int{}, map[*ssa.Select]int{}
			for _, b := range r.Blocks {
				for _, in := range b.Instrs {
					sel, ok := in.(*ssa.Select)
					if !ok {
						continue
					}
					for i, s := range sel.States {
						if s.Dir != types.SendOnly {
							continue
						}
						if namedOf(s.Send.Type()) == zngWork {
							sendWork = append(sendWork, sel)
							widx[sel] = i
						}
						if isFieldOf(s.Send, zngWork, "resultCh") && isFieldOf(s.Chan, "zio/zngio.scanner", "resultChCh") {
							sendRes = append(sendRes, sel)
							ridx[sel] = i
						}
					}
				}
			}
			// plain sends of work are not allowed either
			for _, b := range r.Blocks {
				for _, in := range b.Instrs {
					if s, ok := in.(*ssa.Send); ok && namedOf(s.X.Type()) == zngWork {
						found = true
						c.Fail("C01-O1", "parser goroutine dispatches work", s.Pos(), "work is dispatched by a plain send that is not ordered after queuing its resultCh")
					}
				}
			}
			for _, sw := range sendWork {
				found = true
				ok := false
				for _, sr := range sendRes {
					arm := selectArm(sr, ridx[sr])
					if arm != nil && arm.Dominates(sw.Block()) && sameWork(sr.States[ridx[sr]].Send, sw.States[widx[sw]].Send) {
						ok = true
					}
				}
				if ok {
					c.OK("C01-O1", "parser goroutine dispatches work", sw.Pos(), "work is sent to a worker only after its resultCh was queued on resultChCh")
				} else {
					c.Fail("C01-O1", "parser goroutine dispatches work", sw.Pos(), "a work item is handed to a worker on a path where its resultCh has not already been queued on resultChCh: batches can be delivered out of stream order (or never)")
				}
			}
		}
		if !found {
			c.Undecided("C01-O1", "parser goroutine dispatches work", "no send of a work item found in the goroutines of scanner.start")
		}
	}

	// ---- O2
	if fl := p.Func("(*zio/zngio.Writer).flush"); fl == nil {
		c.Undecided("C01-O2", "(*zio/zngio.Writer).flush", "anchor does not resolve")
	} else {
		var tcall, vcall, flushCall ssa.Instruction
		for _, ci := range allCalls(fl) {
			switch calleeName(ci.Common()) {
			case "(*zio/zngio.Writer).writeBlock":
				if k, ok := ci.Common().Args[1].(*ssa.Const); ok && k.Value != nil {
					switch k.Int64() {
					case constInt(p, "zio/zngio", "TypesFrame"):
						tcall = ci.(ssa.Instruction)
					case constInt(p, "zio/zngio", "ValuesFrame"):
						vcall = ci.(ssa.Instruction)
					}
				}
			case "(*zio/zngio.Encoder).Flush":
				flushCall = ci.(ssa.Instruction)
			}
		}
		switch {
		case tcall == nil || vcall == nil:
			c.Fail("C01-O2", "(*zio/zngio.Writer).flush", fl.Pos(), "flush does not write both a TypesFrame and a ValuesFrame block with constant frame types")
		case !dominates(tcall, vcall):
			c.Fail("C01-O2", "(*zio/zngio.Writer).flush", vcall.Pos(), "the values frame can be written before the types frame that defines the types it uses")
		case flushCall == nil || !dominates(vcall, flushCall):
			c.Fail("C01-O2", "(*zio/zngio.Writer).flush", fl.Pos(), "the typedef buffer is cleared on a path that has not written both frames")
		default:
			c.OK("C01-O2", "(*zio/zngio.Writer).flush", tcall.Pos(), "types frame dominates values frame dominates Encoder.Flush")
		}
	}

	// ---- O3
	if es := p.Func("(*zio/zngio.Writer).EndStream"); es == nil {
		c.Undecided("C01-O3", "(*zio/zngio.Writer).EndStream", "anchor does not resolve")
	} else {
		isReset := func(in ssa.Instruction) bool {
			ci, ok := in.(*ssa.Call)
			return ok && calleeName(ci.Common()) == "(*zio/zngio.Encoder).Reset"
		}
		okRet := func(in ssa.Instruction) bool {
			r, ok := in.(*ssa.Return)
			return ok && isNilConst(returnOperand(r, 0))
		}
		if r := reachAvoiding(es, nil, isReset, okRet); r != nil {
			c.Fail("C01-O3", "(*zio/zngio.Writer).EndStream", r.Pos(), "EndStream can return success without resetting the type encoder: the next stream would reference typedefs the reader has forgotten at EOS")
		} else {
			c.OK("C01-O3", "(*zio/zngio.Writer).EndStream", es.Pos(), "every nil return passes types.Reset()")
		}
		// the encoder's Reset clears both the typedef map and its private context
		if rs := p.Func("(*zio/zngio.Encoder).Reset"); rs != nil {
			resetsCtx := len(callsTo(rs, "(*super.Context).Reset")) > 0
			clearsMap := false
			for _, fs := range fieldStores(p, "encoded") {
				if fs.fn == rs {
					clearsMap = true
				}
			}
			if resetsCtx && clearsMap {
				c.OK("C01-O3", "(*zio/zngio.Encoder).Reset", rs.Pos(), "clears the encoded map and resets the private type context (IDs restart)")
			} else {
				c.Fail("C01-O3", "(*zio/zngio.Encoder).Reset", rs.Pos(), "Reset must both forget which types were emitted and restart type IDs (reader does the same at EOS)")
			}
		}
	}
	if rd := p.Func("(*zio/zngio.parser).read"); rd == nil {
		c.Undecided("C01-O3", "(*zio/zngio.parser).read", "anchor does not resolve")
	} else {
		eos := constInt(p, "zio/zngio", "EOS")
		calls := callsTo(rd, "(*zio/zngio.Decoder).reset")
		if len(calls) == 0 {
			c.Fail("C01-O3", "(*zio/zngio.parser).read", rd.Pos(), "the reader never resets its type decoder at end-of-stream")
		}
		for _, ci := range calls {
			ok := false
			for _, b := range rd.Blocks {
				for _, in := range b.Instrs {
					cmp, isCmp := in.(*ssa.BinOp)
					if !isCmp || cmp.Op != token.EQL {
						continue
					}
					if k, isK := cmp.Y.(*ssa.Const); isK && k.Value != nil && k.Value.Kind() == constant.Int && k.Int64() == eos {
						if trueEdgeDominates(cmp, ci.(ssa.Instruction).Block()) {
							ok = true
						}
					}
				}
			}
			if ok {
				c.OK("C01-O3", "(*zio/zngio.parser).read", ci.Pos(), "decoder reset exactly on the EOS code")
			} else {
				c.Fail("C01-O3", "(*zio/zngio.parser).read", ci.Pos(), "the decoder reset is not guarded by code == EOS")
			}
		}
	}

	// ---- O7: the type scope handed to workers is private to a stream
	c.Rule("C01-O7", "per-stream type scope is immutable once handed to workers: a work item carries its localctx by value, and localctx.reset installs fresh context and mapper objects instead of resetting the ones in-flight workers still use")
	if wt := p.Type("zio/zngio", "work"); wt == nil {
		c.Undecided("C01-O7", "zio/zngio.work", "type does not resolve")
	} else if st, ok := wt.Underlying().(*types.Struct); ok {
		for i := 0; i < st.NumFields(); i++ {
			if st.Field(i).Name() == "local" {
				if _, isPtr := st.Field(i).Type().(*types.Pointer); isPtr {
					c.Fail("C01-O7", "zio/zngio.work.local", st.Field(i).Pos(), "work items share the parser's localctx by pointer: a worker decoding a frame from before an EOS maps type IDs through the context of the stream after it")
				} else {
					c.OK("C01-O7", "zio/zngio.work.local", st.Field(i).Pos(), "copied by value into each work item")
				}
			}
		}
	}
	if rs := p.Func("(*zio/zngio.localctx).reset"); rs == nil {
		c.Undecided("C01-O7", "(*zio/zngio.localctx).reset", "anchor does not resolve")
	} else {
		fresh := map[string]bool{}
		inplace := false
		for _, ci := range allCalls(rs) {
			n := calleeName(ci.Common())
			if n == "(*super.Context).Reset" {
				inplace = true
			}
		}
		for _, fs := range fieldStores(p, "zctx") {
			if fs.fn == rs {
				if call, ok := stripConv(fs.store.Val).(*ssa.Call); ok && calleeName(call.Common()) == "super.NewContext" {
					fresh["zctx"] = true
				}
			}
		}
		for _, fs := range fieldStores(p, "mapper") {
			if fs.fn == rs {
				if call, ok := stripConv(fs.store.Val).(*ssa.Call); ok && calleeName(call.Common()) == "super.NewMapper" {
					fresh["mapper"] = true
				}
			}
		}
		if fresh["zctx"] && fresh["mapper"] && !inplace {
			c.OK("C01-O7", "(*zio/zngio.localctx).reset", rs.Pos(), "a new stream gets a new local context and a new mapper")
		} else {
			c.Fail("C01-O7", "(*zio/zngio.localctx).reset", rs.Pos(), "the local type context / mapper is reset in place at end-of-stream: workers still decoding frames of the previous stream look their type IDs up in the emptied (or refilled) tables and produce wrong types or `type ID not in context`")
		}
	}

	// ---- O8: ID-keyed caches
	runIDCaches(c, "C01-O8", "")
	runEncoderKeysByType(c, "C01-X1")
	runValueIDFromEncoder(c, "C01-T1")
	runControlDoesNotEndScan(c, "C01-C1")

	// ---- O4 (shared with C11)
	runC01Channels(c, "C01")

	// ---- O5
	runScanBatchTypestate(c, "C01-O5")

	// ---- O6
	runPeekerOwnership(c, "C01-O6")

	// ---- K1
	runC01K1(c)
	runDecodedStringsOwnBytes(c, "C01-U1")
	runOnlyPooledBuffersFreed(c, "C01-O9")
}

func sameWork(resultChVal, workVal ssa.Value) bool {
	// w.resultCh and w are loads rooted at the same local variable
	root := func(v ssa.Value) ssa.Value {
		v = stripConv(v)
		for {
			switch x := v.(type) {
			case *ssa.UnOp:
				v = x.X
			case *ssa.FieldAddr:
				v = x.X
			case *ssa.Field:
				v = x.X
			default:
				return v
			}
		}
	}
	return root(resultChVal) == root(workVal)
}

func constInt(p *Prog, pkg, name string) int64 {
	pk := p.Pkgs[pkg]
	if pk == nil {
		return -1 << 40
	}
	if cst, ok := pk.Types.Scope().Lookup(name).(*types.Const); ok {
		if v, ok := constant.Int64Val(constant.ToInt(cst.Val())); ok {
			return v
		}
	}
	return -1 << 40
}

// runScanBatchTypestate: O5.
func runScanBatchTypestate(c *Ctx, rule string) {
	p := c.P
	fn := p.Func("(*zio/zngio.worker).scanBatch")
	if fn == nil {
		c.Undecided(rule, "(*zio/zngio.worker).scanBatch", "anchor does not resolve")
		return
	}
	isFree := func(in ssa.Instruction) bool {
		ci, ok := in.(*ssa.Call)
		if !ok {
			return false
		}
		n := calleeName(ci.Common())
		return n == "(*zio/zngio.buffer).free" || n == "(*zio/zngio.batch).Unref"
	}
	none := func(ssa.Instruction) bool { return false }
	bad := false
	var frees []ssa.Instruction
	for _, b := range fn.Blocks {
		for _, in := range b.Instrs {
			if isFree(in) {
				frees = append(frees, in)
			}
			if d, ok := in.(*ssa.Defer); ok {
				n := calleeName(&d.Call)
				if n == "(*zio/zngio.buffer).free" || n == "(*zio/zngio.batch).Unref" {
					bad = true
					c.Fail(rule, "(*zio/zngio.worker).scanBatch", d.Pos(), "deferred free of the frame buffer: it would also be released when the batch that owns it is returned to the caller")
				}
			}
		}
	}
	if len(frees) < 2 {
		c.Undecided(rule, "(*zio/zngio.worker).scanBatch", "fewer than the expected release sites (buf.free / batch.Unref) found")
		return
	}
	for _, f := range frees {
		if r := reachAvoiding(fn, f, none, isFree); r != nil {
			bad = true
			c.Fail(rule, "(*zio/zngio.worker).scanBatch", f.Pos(), "the frame buffer is released twice on a path ("+p.Pos(f.Pos())+" then "+p.Pos(r.Pos())+"): the pool hands the same buffer to two later frames, whose values then alias")
		}
	}
	// returns
	for _, b := range fn.Blocks {
		for _, in := range b.Instrs {
			ret, ok := in.(*ssa.Return)
			if !ok {
				continue
			}
			batchNil := isNilConst(returnOperand(ret, 0))
			// is there a path from entry to this return that avoids every free?
			reachNoFree := reachAvoiding(fn, nil, isFree, func(x ssa.Instruction) bool { return x == in }) != nil
			// is there a path that passes a free and reaches this return?
			reachWithFree := false
			for _, f := range frees {
				if reachAvoiding(fn, f, none, func(x ssa.Instruction) bool { return x == in }) != nil {
					reachWithFree = true
				}
			}
			if batchNil && reachNoFree && !isPanicRecoveryReturn(ret) {
				bad = true
				c.Fail(rule, "(*zio/zngio.worker).scanBatch", ret.Pos(), "returns no batch on a path that never releases the frame buffer (pool leak; the buffer is lost to the pool)")
			}
			if !batchNil && reachWithFree {
				bad = true
				c.Fail(rule, "(*zio/zngio.worker).scanBatch", ret.Pos(), "returns a batch whose frame buffer has already been released on that path: the values alias a buffer that the pool will hand to a later frame")
			}
		}
	}
	if !bad {
		c.OK(rule, "(*zio/zngio.worker).scanBatch", fn.Pos(), "released exactly once iff no batch is returned")
	}
}

// isPanicRecoveryReturn: the synthetic return of the recover block.
func isPanicRecoveryReturn(ret *ssa.Return) bool {
	return ret.Parent().Recover != nil && ret.Block() == ret.Parent().Recover
}

// runPeekerOwnership: O6.
func runPeekerOwnership(c *Ctx, rule string) {
	p := c.P
	srcNames := map[string]bool{"(*pkg/peeker.Reader).Read": true, "(*pkg/peeker.Reader).Peek": true, "(*zio/zngio.parser).readFrame": true}
	copies := map[string]bool{"zio/zngio.newBufferFromBytes": true, "slices.Clone": true, "bytes.Clone": true, "builtin.copy": true, "builtin.append": true, "builtin.len": true}
	n := 0
	for _, fn := range p.FuncsIn("zio/zngio") {
		if fnName(fn) == "(*zio/zngio.parser).readFrame" {
			continue // returns the borrowed slice by contract; its callers are checked
		}
		for _, ci := range allCalls(fn) {
			if !srcNames[calleeName(ci.Common())] {
				continue
			}
			call, ok := ci.(*ssa.Call)
			if !ok {
				continue
			}
			n++
			construct := constructName(fn) + " uses bytes borrowed from " + calleeName(ci.Common())
			var src ssa.Value
			for _, r := range *call.Referrers() {
				if ex, ok := r.(*ssa.Extract); ok && ex.Index == 0 {
					src = ex
				}
			}
			if src == nil {
				c.OK(rule, construct, call.Pos(), "slice unused")
				continue
			}
			if sink := borrowedEscapes(src, copies); sink != nil {
				c.Fail(rule, construct, sink.Pos(), "a slice that points into the peeker's buffer escapes (returned, sent, or stored in a frame/buffer/control message) without a copy: the next read overwrites it")
			} else {
				c.OK(rule, construct, call.Pos(), "only copied or consumed before the next read")
			}
		}
	}
	if n < 4 {
		c.Undecided(rule, "peeker read sites", "fewer than 4 sites reading from the peeker found in zngio")
	}
}

// borrowedEscapes follows a borrowed slice through slicing, local structs and
// pointers to them, and reports the instruction where it escapes.
func borrowedEscapes(src ssa.Value, copies map[string]bool) ssa.Instruction {
	seen := map[ssa.Value]bool{}
	var visit func(v ssa.Value) ssa.Instruction
	visit = func(v ssa.Value) ssa.Instruction {
		if seen[v] {
			return nil
		}
		seen[v] = true
		refs := v.Referrers()
		if refs == nil {
			return nil
		}
		for _, r := range *refs {
			switch x := r.(type) {
			case *ssa.DebugRef, *ssa.Index, *ssa.BinOp, *ssa.If, *ssa.Lookup, *ssa.Range:
			case *ssa.IndexAddr:
				// element access: reading is fine
			case *ssa.Slice:
				if s := visit(x); s != nil {
					return s
				}
			case *ssa.Phi:
				if s := visit(x); s != nil {
					return s
				}
			case *ssa.Convert:
				// string(b) copies
				if _, isStr := x.Type().Underlying().(*types.Basic); isStr {
					continue
				}
				if s := visit(x); s != nil {
					return s
				}
			case *ssa.ChangeType, *ssa.MakeInterface:
				if s := visit(x.(ssa.Value)); s != nil {
					return s
				}
			case *ssa.Return, *ssa.Send, *ssa.MakeClosure, *ssa.MapUpdate:
				return r
			case *ssa.Store:
				if x.Val != v {
					continue
				}
				// stored into a local object: follow the object
				base := x.Addr
				for {
					switch b := base.(type) {
					case *ssa.FieldAddr:
						base = b.X
						continue
					case *ssa.IndexAddr:
						base = b.X
						continue
					}
					break
				}
				if a, ok := base.(*ssa.Alloc); ok {
					if s := visit(a); s != nil {
						return s
					}
				} else {
					return r // stored through a parameter, receiver or global
				}
			case *ssa.UnOp:
				if x.Op == token.MUL { // load of a local object holding the slice
					if s := visit(x); s != nil {
						return s
					}
				}
			case *ssa.FieldAddr, *ssa.Field:
				// selecting from the holder
				if s := visit(x.(ssa.Value)); s != nil {
					return s
				}
			case ssa.CallInstruction:
				n := calleeName(x.Common())
				if copies[n] {
					continue
				}
				if _, isGo := x.(*ssa.Go); isGo {
					return r
				}
				// passed to a synchronous callee: the callee must not retain it; accept
				// the decoder (consumes before the next read), reject constructors
				if strings.Contains(n, ".new") || strings.Contains(n, ".New") {
					return r
				}
			default:
				return r
			}
		}
		return nil
	}
	return visit(src)
}

func runC01K1(c *Ctx) {
	p := c.P
	zt := ifaceType(p, "", "Type")
	enc := p.Func("(*zio/zngio.Encoder).encode")
	dec := p.Func("(*zio/zngio.Decoder).decode")
	if zt == nil || enc == nil || dec == nil {
		c.Undecided("C01-K1", "zngio codec", "anchors (zed.Type, Encoder.encode, Decoder.decode) do not resolve")
		return
	}
	info := p.Pkgs["zio/zngio"].TypesInfo
	// (i) complex types
	var complexTypes []string
	for _, t := range implementersOf(p, zt, "") {
		if !strings.HasPrefix(t, "super.TypeOf") {
			complexTypes = append(complexTypes, t)
		}
	}
	if len(complexTypes) < 8 {
		c.Undecided("C01-K1", "complex zed.Type implementers", "fewer than 8 complex types found")
	}
	tss := typeSwitches(info, p.Decl(enc).Body)
	if len(tss) != 1 {
		c.Undecided("C01-K1", "(*zio/zngio.Encoder).encode", "expected exactly one type switch")
	} else {
		for _, t := range complexTypes {
			if tss[0].cases[t] {
				c.OK("C01-K1", "Encoder.encode case "+t, tss[0].stmt.Pos(), "typedef emitted for this complex type")
			} else {
				c.Fail("C01-K1", "Encoder.encode case "+t, tss[0].stmt.Pos(), "the ZNG type encoder has no case for "+t+": values of that type would be written with a type ID of the writer's input context and no typedef, which the reader cannot resolve")
			}
		}
	}
	// (ii) typedef codes
	emitted := map[string]bool{}
	for _, f := range p.FuncsIn("zio/zngio") {
		if f.Signature.Recv() != nil && namedOf(f.Signature.Recv().Type()) == "zio/zngio.Encoder" && p.Decl(f) != nil {
			for k := range constsUsedIn(info, p.Decl(f).Body, "TypeDef") {
				emitted[k] = true
			}
		}
	}
	decoded := caseConsts(info, p.Decl(dec).Body, "TypeDef")
	if len(emitted) < 8 {
		c.Undecided("C01-K1", "TypeDef codes", "fewer than 8 typedef codes found in the encoder")
	}
	for _, k := range setDiff(emitted, nil) {
		if decoded[k] {
			c.OK("C01-K1", "typedef code "+k, dec.Pos(), "emitted and decoded")
		} else {
			c.Fail("C01-K1", "typedef code "+k, dec.Pos(), "the encoder emits "+k+" but Decoder.decode has no case for it")
		}
	}
	for _, k := range setDiff(decoded, emitted) {
		c.Fail("C01-K1", "typedef code "+k, dec.Pos(), "Decoder.decode handles "+k+" which no encoder method emits")
	}
	// (iii) frame types
	rd := p.Func("(*zio/zngio.parser).read")
	if rd == nil {
		c.Undecided("C01-K1", "(*zio/zngio.parser).read", "anchor does not resolve")
		return
	}
	written := map[string]bool{}
	for _, f := range p.FuncsIn("zio/zngio") {
		if f.Signature.Recv() != nil && namedOf(f.Signature.Recv().Type()) == "zio/zngio.Writer" && p.Decl(f) != nil {
			for k := range constsUsedIn(info, p.Decl(f).Body, "") {
				if strings.HasSuffix(k, "Frame") {
					written[k] = true
				}
			}
		}
	}
	read := caseConsts(info, p.Decl(rd).Body, "")
	for _, k := range setDiff(written, nil) {
		if read[k] {
			c.OK("C01-K1", "frame type "+k, rd.Pos(), "written and dispatched")
		} else {
			c.Fail("C01-K1", "frame type "+k, rd.Pos(), "the writer emits "+k+" frames but parser.read has no case for them")
		}
	}
	if len(written) < 3 {
		c.Undecided("C01-K1", "frame types", "fewer than 3 frame-type constants used by the writer")
	}
}

func init() {
	register(&PropertyDef{ID: "C01", Run: runC01,
		Explanation: "Decides the ordering, pairing, typestate, ownership and table-agreement conditions the ZNG round trip relies on, for every path of the anchored writer/reader functions: in-order result queueing (O1), typedefs before values (O2), per-stream type scope reset on both sides (O3), worker result protocol and cancellable channel operations (O4), pooled frame buffer released exactly once (O5), peeker bytes copied before they escape (O6), encoder/decoder/frame tables agree (K1). Does NOT decide byte-level inverse-ness of encode/decode, LZ4, uvarint tags, null-vs-empty tagging or Mapper translation.",
		Assumptions: []string{"a synchronous callee does not retain a borrowed slice (constructors named new*/New* are treated as retaining)", "channel identity by struct field (work.resultCh, scanner.resultChCh)"}})
}
