package main

import (
	"go/constant"
	"go/token"
	"go/types"
	"sort"
	"strings"

	"golang.org/x/tools/go/ssa"
)

// ---- C11-D1: recursion that is driven by the input has a depth bound.
//
// A Go program cannot recover from stack exhaustion ("fatal error: stack overflow"), so a
// recursive-descent reader whose recursion depth is chosen by the input (three megabytes of
// '[') kills the process.  The rule finds every recursion cycle (SCC of the static call graph,
// closures and function values included) among the functions of the reader packages, keeps the
// cycles in which some member advances an input cursor (a method of one of the lexer types, or
// the PEG parser's read), and requires that the cycle is broken once the functions that bound a
// depth counter are removed from it.
//
// A function bounds a depth counter when every call it makes into the cycle is dominated
//   - by a call to a guard helper (a function returning error that compares an integer field of
//     its receiver with a constant, returns a non-nil error on one side and increments the field)
//     whose error result is tested, the calls being on the nil side; or
//   - by such a comparison-and-increment in the function itself.
//
// Recursion over an in-memory structure (analyzer, builder, formatter, ZJSON type decoder over
// the tree encoding/json produced) does not advance a cursor; its depth is that of a structure
// some bounded parser produced and it is not an obligation of this rule.

var c11CursorTypes = map[string]bool{"zson.Lexer": true, "pkg/jsonlexer.Lexer": true}
var c11CursorFuncs = map[string]bool{"(*compiler/parser.parser).read": true}

func runRecursionDepthBounded(c *Ctx, rule string) {
	p := c.P
	c.Rule(rule, "every recursion cycle of the reader packages (and the query parser) in which a member advances the input cursor passes through a function that bounds a depth counter before recursing: stack exhaustion is fatal in Go and cannot be recovered, so input-chosen recursion depth crashes the process")
	pkgs := append([]string{"compiler/parser", "pkg/jsonlexer"}, c11ReaderPkgs...)
	fns := p.FuncsIn(pkgs...)
	in := map[*ssa.Function]bool{}
	for _, fn := range fns {
		in[fn] = true
	}
	sort.Slice(fns, func(i, j int) bool { return fns[i].String() < fns[j].String() })
	succ := map[*ssa.Function][]*ssa.Function{}
	advances := map[*ssa.Function]bool{}
	for _, fn := range fns {
		seen := map[*ssa.Function]bool{}
		add := func(g *ssa.Function) {
			if g != nil && in[g] && !seen[g] {
				seen[g] = true
				succ[fn] = append(succ[fn], g)
			}
		}
		for _, b := range fn.Blocks {
			for _, ins := range b.Instrs {
				for _, op := range ins.Operands(nil) {
					if op == nil || *op == nil {
						continue
					}
					if g, ok := (*op).(*ssa.Function); ok {
						add(g)
					}
				}
				if ci, ok := ins.(ssa.CallInstruction); ok {
					cc := ci.Common()
					if g := cc.StaticCallee(); g != nil {
						add(g)
						if c11CursorFuncs[calleeName(cc)] {
							advances[fn] = true
						}
						if sig := g.Signature; sig.Recv() != nil && c11CursorTypes[namedOf(sig.Recv().Type())] {
							advances[fn] = true
						}
					}
				}
			}
		}
	}
	// a function advances the cursor if it or anything it calls (in these packages) does
	for changed := true; changed; {
		changed = false
		for _, fn := range fns {
			if advances[fn] {
				continue
			}
			for _, g := range succ[fn] {
				if advances[g] {
					advances[fn] = true
					changed = true
					break
				}
			}
		}
	}
	sccs := tarjanSCC(fns, succ)
	found := map[string]bool{}
	n := 0
	for _, scc := range sccs {
		if len(scc) == 1 {
			self := false
			for _, g := range succ[scc[0]] {
				if g == scc[0] {
					self = true
				}
			}
			if !self {
				continue
			}
		}
		adv := false
		member := map[*ssa.Function]bool{}
		for _, fn := range scc {
			member[fn] = true
			if advances[fn] {
				adv = true
			}
		}
		if !adv {
			continue
		}
		n++
		sort.Slice(scc, func(i, j int) bool { return fnName(scc[i]) < fnName(scc[j]) })
		pkg := p.PkgOf(scc[0])
		found[pkg] = true
		construct := "input-driven recursion in " + pkg + " through " + fnName(scc[0])
		// remove the functions that bound a depth counter; what remains must be acyclic
		guarded := map[*ssa.Function]bool{}
		var gnames []string
		for _, fn := range scc {
			if boundsDepth(fn, member) {
				guarded[fn] = true
				gnames = append(gnames, fnName(fn))
			}
		}
		var rest []*ssa.Function
		for _, fn := range scc {
			if !guarded[fn] {
				rest = append(rest, fn)
			}
		}
		rsucc := map[*ssa.Function][]*ssa.Function{}
		for _, fn := range rest {
			for _, g := range succ[fn] {
				if member[g] && !guarded[g] {
					rsucc[fn] = append(rsucc[fn], g)
				}
			}
		}
		var cyc []*ssa.Function
		for _, s := range tarjanSCC(rest, rsucc) {
			if len(s) > 1 {
				cyc = s
				break
			}
			for _, g := range rsucc[s[0]] {
				if g == s[0] {
					cyc = s
				}
			}
			if cyc != nil {
				break
			}
		}
		if cyc == nil {
			c.OK(rule, construct, scc[0].Pos(), sprint(len(scc))+" functions; every cycle passes through a depth bound ("+strings.Join(gnames, ", ")+")")
			continue
		}
		sort.Slice(cyc, func(i, j int) bool { return fnName(cyc[i]) < fnName(cyc[j]) })
		var names []string
		for i, fn := range cyc {
			if i == 4 {
				names = append(names, "…")
				break
			}
			names = append(names, fnName(fn))
		}
		c.Fail(rule, construct, cyc[0].Pos(), "a recursion cycle of "+sprint(len(cyc))+" functions ("+strings.Join(names, ", ")+") advances the input and recurses without bounding a depth counter: input nested a few million levels deep exhausts the goroutine stack, which is a fatal error no recover can contain - the process dies instead of the reader returning an error")
	}
	for _, pk := range []string{"zson", "zio/jsonio", "compiler/parser"} {
		if !found[pk] {
			c.Undecided(rule, "input-driven recursion in "+pk, "the recursive-descent cycle of this package was not found")
		}
	}
	_ = n
}

// boundsDepth: every call of fn into the cycle is dominated by a tested guard.
func boundsDepth(fn *ssa.Function, member map[*ssa.Function]bool) bool {
	var rec []*ssa.BasicBlock
	for _, b := range fn.Blocks {
		for _, ins := range b.Instrs {
			refs := false
			for _, op := range ins.Operands(nil) {
				if op != nil && *op != nil {
					if g, ok := (*op).(*ssa.Function); ok && member[g] {
						refs = true
					}
				}
			}
			if refs {
				rec = append(rec, b)
			}
		}
	}
	if len(rec) == 0 {
		return false
	}
	inl := depthCompare(fn)
	if inl != nil && !incrementsField(fn, inl.field) {
		inl = nil
	}
	// the tested results of guard helpers
	var tests []*ssa.BinOp
	for _, ci := range allCalls(fn) {
		g := ci.Common().StaticCallee()
		if g == nil || !isDepthGuard(g) {
			continue
		}
		v, isVal := ci.(ssa.Value)
		if !isVal {
			continue
		}
		for _, r := range *v.Referrers() {
			if cmp, ok := r.(*ssa.BinOp); ok && (isNilConst(cmp.X) || isNilConst(cmp.Y)) {
				tests = append(tests, cmp)
			}
		}
	}
	for _, b := range rec {
		ok := inl != nil && b != inl.block && inl.block.Dominates(b)
		for _, cmp := range tests {
			switch cmp.Op {
			case token.NEQ:
				ok = ok || falseEdgeDominatesOrSelf(cmp, b)
			case token.EQL:
				ok = ok || trueEdgeDominatesOrSelf(cmp, b)
			}
		}
		if !ok {
			return false
		}
	}
	return true
}

type depthIf struct {
	block *ssa.BasicBlock
	field int
}

// depthCompare finds `recv.f <relop> const` feeding an If, f an integer field of the receiver.
func depthCompare(fn *ssa.Function) *depthIf {
	if fn.Signature.Recv() == nil || len(fn.Params) == 0 {
		return nil
	}
	for _, b := range fn.Blocks {
		if len(b.Instrs) == 0 {
			continue
		}
		iff, ok := b.Instrs[len(b.Instrs)-1].(*ssa.If)
		if !ok {
			continue
		}
		cmp, ok := iff.Cond.(*ssa.BinOp)
		if !ok {
			continue
		}
		switch cmp.Op {
		case token.GTR, token.GEQ, token.LSS, token.LEQ:
		default:
			continue
		}
		for _, pair := range [][2]ssa.Value{{cmp.X, cmp.Y}, {cmp.Y, cmp.X}} {
			k, ok := pair[1].(*ssa.Const)
			if !ok || k.Value == nil || k.Value.Kind() != constant.Int {
				continue
			}
			if f, ok := recvIntFieldLoad(fn, pair[0]); ok {
				return &depthIf{b, f}
			}
		}
	}
	return nil
}

func recvIntFieldLoad(fn *ssa.Function, v ssa.Value) (int, bool) {
	u, ok := v.(*ssa.UnOp)
	if !ok || u.Op != token.MUL {
		return 0, false
	}
	fa, ok := u.X.(*ssa.FieldAddr)
	if !ok || fa.X != fn.Params[0] {
		return 0, false
	}
	if bt, ok := u.Type().Underlying().(*types.Basic); !ok || bt.Info()&types.IsInteger == 0 {
		return 0, false
	}
	return fa.Field, true
}

func incrementsField(fn *ssa.Function, field int) bool {
	for _, b := range fn.Blocks {
		for _, ins := range b.Instrs {
			st, ok := ins.(*ssa.Store)
			if !ok {
				continue
			}
			fa, ok := st.Addr.(*ssa.FieldAddr)
			if !ok || fa.X != fn.Params[0] || fa.Field != field {
				continue
			}
			if add, ok := st.Val.(*ssa.BinOp); ok && add.Op == token.ADD {
				if f, ok := recvIntFieldLoad(fn, add.X); ok && f == field {
					return true
				}
			}
		}
	}
	return false
}

// isDepthGuard: returns error; compares an integer receiver field with a constant, increments
// that field, and has both a nil and a non-nil error return.
func isDepthGuard(g *ssa.Function) bool {
	if len(g.Blocks) == 0 || errIndex(g.Signature) < 0 {
		return false
	}
	iff := depthCompare(g)
	if iff == nil || !incrementsField(g, iff.field) {
		return false
	}
	ei := errIndex(g.Signature)
	nilRet, errRet := false, false
	for _, b := range g.Blocks {
		if len(b.Instrs) == 0 {
			continue
		}
		ret, ok := b.Instrs[len(b.Instrs)-1].(*ssa.Return)
		if !ok || ei >= len(ret.Results) {
			continue
		}
		if isNilConst(ret.Results[ei]) {
			nilRet = true
		} else {
			errRet = true
		}
	}
	return nilRet && errRet
}

func tarjanSCC(nodes []*ssa.Function, succ map[*ssa.Function][]*ssa.Function) [][]*ssa.Function {
	index := map[*ssa.Function]int{}
	low := map[*ssa.Function]int{}
	on := map[*ssa.Function]bool{}
	var stack []*ssa.Function
	var out [][]*ssa.Function
	next := 0
	// iterative to stay independent of the depth of the analysed call graph
	type frame struct {
		v *ssa.Function
		i int
	}
	for _, root := range nodes {
		if _, ok := index[root]; ok {
			continue
		}
		var work []frame
		push := func(v *ssa.Function) {
			index[v] = next
			low[v] = next
			next++
			stack = append(stack, v)
			on[v] = true
			work = append(work, frame{v, 0})
		}
		push(root)
		for len(work) > 0 {
			f := &work[len(work)-1]
			if f.i < len(succ[f.v]) {
				w := succ[f.v][f.i]
				f.i++
				if _, ok := index[w]; !ok {
					push(w)
				} else if on[w] && index[w] < low[f.v] {
					low[f.v] = index[w]
				}
				continue
			}
			v := f.v
			work = work[:len(work)-1]
			if len(work) > 0 {
				u := work[len(work)-1].v
				if low[v] < low[u] {
					low[u] = low[v]
				}
			}
			if low[v] == index[v] {
				var scc []*ssa.Function
				for {
					w := stack[len(stack)-1]
					stack = stack[:len(stack)-1]
					on[w] = false
					scc = append(scc, w)
					if w == v {
						break
					}
				}
				out = append(out, scc)
			}
		}
	}
	return out
}

// ---- C11-Z1: the Zeek header parser produces only the types the Zeek builder can fill.
//
// builder.appendFields handles one container level: it hands the element type (zed.InnerType)
// straight to appendPrimitive, whose type dispatch ends in panic(typ).  So the parser must never
// produce a container whose element type is itself a container (or a record): the element type of
// every set/array type built in package zeekio comes from a producer that builds no complex type.
func runZeekTypesFillable(c *Ctx, rule string) {
	p := c.P
	c.Rule(rule, "the element type of every set/array type the Zeek header parser builds comes from a function that builds no complex type, as long as the Zeek value builder passes element types straight to a primitive dispatch that panics on anything else: `#types set[vector[string]]` must be rejected with an error, not accepted and then panic on the first data line")
	ap := p.Func("(*zio/zeekio.builder).appendPrimitive")
	af := p.Func("(*zio/zeekio.builder).appendFields")
	if ap == nil || af == nil {
		c.Undecided(rule, "zio/zeekio.builder", "anchors appendPrimitive/appendFields do not resolve")
		return
	}
	panics := false
	for _, b := range ap.Blocks {
		for _, in := range b.Instrs {
			if pn, ok := in.(*ssa.Panic); ok && pn.Pos().IsValid() {
				panics = true
			}
		}
	}
	direct := false
	for _, ci := range allCalls(af) {
		if ci.Common().StaticCallee() != ap {
			continue
		}
		args := ci.Common().Args
		if len(args) >= 2 && dependsOn(args[1], func(v ssa.Value) bool {
			call, ok := v.(*ssa.Call)
			return ok && calleeName(call.Common()) == "super.InnerType"
		}) {
			direct = true
		}
	}
	if !panics || !direct {
		c.OK(rule, "zio/zeekio builder element dispatch", af.Pos(), "the builder no longer hands element types to a panicking primitive dispatch; nothing to require of the parser")
		return
	}
	complexLookups := map[string]bool{
		"(*super.Context).LookupTypeSet": true, "(*super.Context).LookupTypeArray": true, "(*super.Context).LookupTypeRecord": true,
		"(*super.Context).LookupTypeMap": true, "(*super.Context).LookupTypeUnion": true, "(*super.Context).MustLookupTypeRecord": true,
		"(*super.Context).LookupTypeError": true,
	}
	fns := p.FuncsIn("zio/zeekio")
	capable := map[*ssa.Function]bool{}
	for changed := true; changed; {
		changed = false
		for _, fn := range fns {
			if capable[fn] {
				continue
			}
			for _, ci := range allCalls(fn) {
				g := ci.Common().StaticCallee()
				if complexLookups[calleeName(ci.Common())] || (g != nil && capable[g]) {
					capable[fn] = true
					changed = true
					break
				}
			}
		}
	}
	n := 0
	for _, fn := range fns {
		for _, ci := range allCalls(fn) {
			nm := calleeName(ci.Common())
			if nm != "(*super.Context).LookupTypeSet" && nm != "(*super.Context).LookupTypeArray" {
				continue
			}
			n++
			args := ci.Common().Args
			inner := args[len(args)-1]
			var from string
			dependsOn(inner, func(v ssa.Value) bool {
				call, ok := v.(*ssa.Call)
				if !ok {
					return false
				}
				if g := call.Common().StaticCallee(); g != nil && capable[g] {
					from = fnName(g)
					return true
				}
				return false
			})
			construct := "element type of " + strings.TrimPrefix(nm, "(*super.Context).") + " in " + fnName(fn)
			if from != "" {
				c.Fail(rule, construct, ci.Pos(), "the element type comes from "+from+", which can itself build a container type: a header declaring set[vector[string]] is accepted, builder.appendFields hands the inner vector type to appendPrimitive, and its dispatch ends in panic(typ) - the reader panics on the first data line instead of rejecting the header")
			} else {
				c.OK(rule, construct, ci.Pos(), "element type from a producer that builds no complex type")
			}
		}
	}
	if n < 2 {
		c.Undecided(rule, "zio/zeekio container types", "fewer than the two known set/array constructions found ("+sprint(n)+")")
	}
}
