package main

import (
	"go/constant"
	"go/token"
	"go/types"
	"strings"

	"golang.org/x/tools/go/ssa"
)

// E-taint: integers that originate in untrusted input (uvarints, fixed-width
// integers read from the stream, numeric fields of file metadata) must be
// bounded before they size an allocation, and must be range-checked when an
// unsigned 64-bit value is converted to a signed int.

type taintEngine struct {
	p        *Prog
	fns      []*ssa.Function
	inScope  map[*ssa.Function]bool
	srcCalls map[string][]int
	srcField func(t types.Type, field string) bool
	tainted  map[ssa.Value]bool
	retTaint map[*ssa.Function]map[int]bool
}

var taintSrcCalls = map[string][]int{
	"encoding/binary.Uvarint":               {0},
	"encoding/binary.ReadUvarint":           {0},
	"encoding/binary.Varint":                {0},
	"encoding/binary.ReadVarint":            {0},
	"(encoding/binary.littleEndian).Uint64": {0},
	"(encoding/binary.littleEndian).Uint32": {0},
	"(encoding/binary.littleEndian).Uint16": {0},
	"(encoding/binary.bigEndian).Uint64":    {0},
	"(encoding/binary.bigEndian).Uint32":    {0},
	"(encoding/binary.bigEndian).Uint16":    {0},
	"(encoding/binary.ByteOrder).Uint64":    {0},
	"(encoding/binary.ByteOrder).Uint32":    {0},
	"zcode.ReadTag":                         {0},
}

func isIntType(t types.Type) bool {
	b, ok := t.Underlying().(*types.Basic)
	return ok && b.Info()&types.IsInteger != 0
}

func newTaintEngine(p *Prog, pkgs []string, srcField func(t types.Type, field string) bool) *taintEngine {
	e := &taintEngine{p: p, srcCalls: taintSrcCalls, srcField: srcField, tainted: map[ssa.Value]bool{},
		retTaint: map[*ssa.Function]map[int]bool{}, inScope: map[*ssa.Function]bool{}}
	e.fns = p.FuncsIn(pkgs...)
	for _, f := range e.fns {
		e.inScope[f] = true
	}
	e.solve()
	return e
}

func (e *taintEngine) mark(v ssa.Value) bool {
	if e.tainted[v] {
		return false
	}
	e.tainted[v] = true
	return true
}

func (e *taintEngine) solve() {
	for changed := true; changed; {
		changed = false
		for _, fn := range e.fns {
			for _, b := range fn.Blocks {
				for _, in := range b.Instrs {
					switch x := in.(type) {
					case *ssa.Call:
						name := calleeName(x.Common())
						idxs := e.srcCalls[name]
						if g := x.Common().StaticCallee(); g != nil {
							if o := g.Origin(); o != nil {
								g = o
							}
							for i := range e.retTaint[g] {
								idxs = append(idxs, i)
							}
							// parameter taint: tainted, unbounded argument
							if e.inScope[g] {
								for j, a := range x.Common().Args {
									if j < len(g.Params) && e.tainted[a] && isIntType(a.Type()) && !e.bounded(a, x) {
										if e.mark(g.Params[j]) {
											changed = true
										}
									}
								}
							}
						}
						for _, i := range idxs {
							if x.Common().Signature().Results().Len() == 1 {
								if isIntType(x.Type()) && e.mark(x) {
									changed = true
								}
							} else {
								for _, r := range *x.Referrers() {
									if ex, ok := r.(*ssa.Extract); ok && ex.Index == i && isIntType(ex.Type()) && e.mark(ex) {
										changed = true
									}
								}
							}
						}
					case *ssa.UnOp:
						if x.Op == token.MUL && isIntType(x.Type()) {
							if fa, ok := x.X.(*ssa.FieldAddr); ok && e.srcField != nil && e.srcField(fa.X.Type(), fieldName(fa.X.Type(), fa.Field)) {
								if e.mark(x) {
									changed = true
								}
							}
						}
						if x.Op == token.SUB && e.tainted[x.X] && e.mark(x) {
							changed = true
						}
					case *ssa.Field:
						if isIntType(x.Type()) && e.srcField != nil && e.srcField(x.X.Type(), fieldName(x.X.Type(), x.Field)) && e.mark(x) {
							changed = true
						}
					case *ssa.Convert:
						if e.tainted[x.X] && isIntType(x.Type()) && e.mark(x) {
							changed = true
						}
					case *ssa.ChangeType:
						if e.tainted[x.X] && e.mark(x) {
							changed = true
						}
					case *ssa.BinOp:
						switch x.Op {
						case token.ADD, token.SUB, token.MUL, token.SHL, token.OR, token.XOR, token.QUO, token.SHR:
							if (e.tainted[x.X] || e.tainted[x.Y]) && e.mark(x) {
								changed = true
							}
						case token.AND, token.REM:
							// masked / reduced by a constant: bounded
							_, cy := x.Y.(*ssa.Const)
							_, cx := x.X.(*ssa.Const)
							if !cx && !cy && (e.tainted[x.X] || e.tainted[x.Y]) && e.mark(x) {
								changed = true
							}
						}
					case *ssa.Phi:
						for _, ed := range x.Edges {
							if e.tainted[ed] && e.mark(x) {
								changed = true
							}
						}
					case *ssa.Return:
						for i, r := range x.Results {
							if e.tainted[r] && !e.bounded(r, x) {
								f := fn
								if e.retTaint[f] == nil {
									e.retTaint[f] = map[int]bool{}
								}
								if !e.retTaint[f][i] {
									e.retTaint[f][i] = true
									changed = true
								}
							}
						}
					}
				}
			}
		}
	}
}

// chain returns v and the tainted values it is computed from (within the function).
func (e *taintEngine) chain(v ssa.Value) []ssa.Value {
	seen := map[ssa.Value]bool{}
	var out []ssa.Value
	var visit func(v ssa.Value)
	visit = func(v ssa.Value) {
		if v == nil || seen[v] {
			return
		}
		seen[v] = true
		out = append(out, v)
		switch x := v.(type) {
		case *ssa.Convert:
			visit(x.X)
		case *ssa.ChangeType:
			visit(x.X)
		case *ssa.BinOp:
			visit(x.X)
			visit(x.Y)
		case *ssa.Phi:
			for _, ed := range x.Edges {
				visit(ed)
			}
		case *ssa.UnOp:
			if x.Op == token.SUB {
				visit(x.X)
			}
		}
	}
	visit(v)
	return out
}

// bounded: some value in v's derivation chain takes part in a relational
// comparison whose branch dominates `at` (a size/limit check before use),
// or v passes through the builtin min().
func (e *taintEngine) bounded(v ssa.Value, at ssa.Instruction) bool { return e.boundedBy(v, at, true) }

// boundedBy: with sizeBound, a comparison against a constant above 2^32 (such
// as math.MaxInt) does not count: it rules out wrap-around, not a huge allocation.
func (e *taintEngine) boundedBy(v ssa.Value, at ssa.Instruction, sizeBound bool) bool {
	for _, w := range e.chain(v) {
		if _, isConst := w.(*ssa.Const); isConst {
			continue
		}
		if c, ok := w.(*ssa.Call); ok {
			if b, ok := c.Call.Value.(*ssa.Builtin); ok && b.Name() == "min" {
				return true
			}
		}
		refs := w.Referrers()
		if refs == nil {
			continue
		}
		for _, r := range *refs {
			cmp, ok := r.(*ssa.BinOp)
			if !ok {
				continue
			}
			switch cmp.Op {
			case token.LSS, token.LEQ, token.GTR, token.GEQ:
			default:
				continue
			}
			if sizeBound {
				other := cmp.Y
				if other == w {
					other = cmp.X
				}
				if k, ok := other.(*ssa.Const); ok && k.Value != nil {
					if u, exact := constant.Uint64Val(constant.ToInt(k.Value)); !exact || u > 1<<32 {
						continue
					}
				}
			}
			// the edge on which w is bounded from above
			upper := 1
			if cmp.X == w {
				if cmp.Op == token.LSS || cmp.Op == token.LEQ {
					upper = 0
				}
			} else if cmp.Op == token.GTR || cmp.Op == token.GEQ {
				upper = 0
			}
			if edgeDom(cmp, at.Block(), upper) {
				return true
			}
		}
	}
	return false
}

type taintReport struct {
	fn   *ssa.Function
	in   ssa.Instruction
	kind string // "alloc" | "convert"
	what string
}

func (e *taintEngine) sinks() (reports []taintReport, checked int) {
	for _, fn := range e.fns {
		for _, b := range fn.Blocks {
			for _, in := range b.Instrs {
				switch x := in.(type) {
				case *ssa.MakeSlice:
					for _, sz := range []ssa.Value{x.Len, x.Cap} {
						if e.tainted[sz] {
							checked++
							if !e.bounded(sz, x) {
								reports = append(reports, taintReport{fn, x, "alloc", "make(" + short(x.Type().String()) + ", n)"})
							}
							break
						}
					}
				case *ssa.MakeMap:
					if x.Reserve != nil && e.tainted[x.Reserve] {
						checked++
						if !e.bounded(x.Reserve, x) {
							reports = append(reports, taintReport{fn, x, "alloc", "make(map, n)"})
						}
					}
				case *ssa.Call:
					name := calleeName(x.Common())
					argIdx := -1
					switch name {
					case "slices.Grow":
						argIdx = 1
					case "bytes.Repeat", "strings.Repeat":
						argIdx = 1
					}
					if argIdx >= 0 && argIdx < len(x.Call.Args) && e.tainted[x.Call.Args[argIdx]] {
						checked++
						if !e.bounded(x.Call.Args[argIdx], x) {
							reports = append(reports, taintReport{fn, x, "alloc", name + "(…, n)"})
						}
					}
				case *ssa.Convert:
					if !e.tainted[x.X] {
						continue
					}
					from, ok1 := x.X.Type().Underlying().(*types.Basic)
					to, ok2 := x.Type().Underlying().(*types.Basic)
					if !ok1 || !ok2 {
						continue
					}
					wide := from.Kind() == types.Uint64 || from.Kind() == types.Uint || from.Kind() == types.Uintptr
					signed := to.Info()&types.IsInteger != 0 && to.Info()&types.IsUnsigned == 0
					if !wide || !signed {
						continue
					}
					checked++
					if !e.boundedBy(x.X, x, false) && !e.signChecked(x) {
						reports = append(reports, taintReport{fn, x, "convert", short(to.String()) + "(" + short(from.String()) + ")"})
					}
				}
			}
		}
	}
	return
}

// signChecked: the converted value is tested against zero somewhere that dominates its other uses
// (a weak form: any comparison with a constant <= 0 exists on it).
func (e *taintEngine) signChecked(c *ssa.Convert) bool {
	for _, r := range *c.Referrers() {
		if cmp, ok := r.(*ssa.BinOp); ok {
			switch cmp.Op {
			case token.LSS, token.LEQ, token.GTR, token.GEQ:
				if k, ok := cmp.Y.(*ssa.Const); ok && k.Value != nil && k.Int64() <= 0 {
					return true
				}
			}
		}
	}
	return false
}

var _ = strings.Contains
