package main

import (
	"go/token"
	"go/types"
	"sort"
	"strings"

	"golang.org/x/tools/go/ssa"
)

// ---- C17-E1 (also run as C12-E1, C14-E1): no error of a durable effect is dropped in the lake.
//
// Atomicity of a load / delete / merge / pool creation rests on the rule that a failed storage
// operation fails the whole step: the caller sees an error and the commit that would reference
// the missing bytes is never recorded.  A dropped or swallowed error from storage.Engine.Put /
// PutIfNotExists / Delete, from the Close of the writer a Put handed out, or from any module
// function that can return such an error, turns a failed write into an acknowledged one.  The
// rule applies the E-err verdict to every such call in the lake packages; cleanup on a path
// that already returns a non-nil error, deferred closes of *readers*, and Abort() bodies are the
// recognised idioms.
var c17ErrPkgs = []string{
	"lake", "lake/data", "lake/commits", "lake/journal", "lake/branches", "lake/pools",
	"lake/seekindex", "lake/meta", "pkg/storage",
}

// (function -> callee) pairs that are not obligations, one reason each.
var c17ErrExempt = map[string]string{
	"lake/data.NewVectorWriter$closure -> lake/data.DeleteVector": "the closure is the writer's `delete` field, invoked only by VectorWriter.Abort() (void cleanup of a write already reported as failed)",
}

// cache writers: a failed write leaves a cache file that the reader validates
// (end marker) and ignores; their callers may log and go on.
var c17CacheWriters = map[string]string{
	"(*lake/journal.Store).putSnapshot": "journal table cache; getSnapshot accepts it only with its end marker (C17-S2)",
	"(*lake/commits.Store).putSnapshot": "commit snapshot cache; decodeSnapshot requires the Commit marker (C17-S3)",
}

func isDurablePrimitive(cc *ssa.CallCommon) bool {
	if isEngineMethod(cc, "Put", "PutIfNotExists", "Delete", "DeleteByPrefix") {
		return true
	}
	return calleeName(cc) == "pkg/storage.Put"
}

// durableSet: module functions that perform a durable effect, directly or
// through static calls / closures they create, not counting cache writers.
var durableCache = map[*Prog]map[*ssa.Function]bool{}

func durableSet(p *Prog) map[*ssa.Function]bool {
	if d, ok := durableCache[p]; ok {
		return d
	}
	d := map[*ssa.Function]bool{}
	durableCache[p] = d
	for changed := true; changed; {
		changed = false
		for _, f := range p.Funcs {
			if d[f] || f.Blocks == nil || c17CacheWriters[fnName(f)] != "" {
				continue
			}
			hit := false
			for _, ci := range allCalls(f) {
				cc := ci.Common()
				if isDurablePrimitive(cc) {
					hit = true
					break
				}
				if g := cc.StaticCallee(); g != nil {
					if o := g.Origin(); o != nil {
						g = o
					}
					if d[g] {
						hit = true
						break
					}
				}
			}
			if !hit {
				for _, b := range f.Blocks {
					for _, in := range b.Instrs {
						if mc, ok := in.(*ssa.MakeClosure); ok {
							if g, ok := mc.Fn.(*ssa.Function); ok && d[g] {
								hit = true
							}
						}
					}
				}
			}
			if hit {
				d[f] = true
				changed = true
			}
		}
	}
	return d
}

func runLakeErrDiscipline(c *Ctx, rule string) {
	p := c.P
	c.Rule(rule, "no error of a durable effect is dropped: every call of storage.Engine.Put/PutIfNotExists/Delete/DeleteByPrefix, of storage.Put, and of any module function that (through static calls, cache writers excluded) performs one, has its error returned, stored, wrapped or passed on; only cleanup on a path that already returns a non-nil error is exempt")
	d := durableSet(p)
	for name := range c17CacheWriters {
		if p.Func(name) == nil {
			c.Undecided(rule, name, "cache-writer anchor does not resolve")
		}
	}
	fns := append([]*ssa.Function{}, p.Funcs...)
	sort.Slice(fns, func(i, j int) bool { return fns[i].String() < fns[j].String() })
	for _, fn := range fns {
		if fn.Blocks == nil || strings.HasSuffix(p.Pos(fn.Pos()), "_test.go") {
			continue
		}
		name := constructName(fn)
		for _, ci := range allCalls(fn) {
			cc := ci.Common()
			if errIndex(cc.Signature()) < 0 {
				continue
			}
			durable := isDurablePrimitive(cc)
			if g := cc.StaticCallee(); g != nil && !durable {
				if o := g.Origin(); o != nil {
					g = o
				}
				durable = d[g]
			}
			if !durable && onPutResult(cc) {
				durable = true
			}
			if !durable && cc.IsInvoke() && namedOf(cc.Value.Type()) == "lake/api.Interface" {
				for _, g := range p.implementersOfCall(cc) {
					if d[g] {
						durable = true
					}
				}
			}
			if !durable {
				continue
			}
			callee := calleeName(cc)
			if callee == "" {
				callee = "dynamic:" + short(cc.Value.Type().String())
			}
			construct := name + " -> " + callee
			if fn.Name() == "Abort" && fn.Signature.Results().Len() == 0 {
				c.OK(rule, construct, ci.Pos(), "exempt: Abort() has no result; it cleans up after a write that is already reported as failed")
				continue
			}
			if onErrorPathStrict(ci) {
				c.OK(rule, construct, ci.Pos(), "cleanup on a path that already returns a non-nil error")
				continue
			}
			if r, ok := c17ErrExempt[construct]; ok {
				c.OK(rule, construct, ci.Pos(), "exempt: "+r)
				continue
			}
			switch errVerdict(ci) {
			case "propagated":
				c.OK(rule, construct, ci.Pos(), "propagated")
			case "dropped":
				how := "result discarded"
				if _, ok := ci.(*ssa.Defer); ok {
					how = "deferred call discards its error"
				}
				c.Fail(rule, construct, ci.Pos(), "error of "+callee+" is dropped ("+how+"): a failed durable effect would be acknowledged")
			case "swallowed":
				c.Fail(rule, construct, ci.Pos(), "error of "+callee+" is compared with nil and then discarded: a failed durable effect would be acknowledged")
			}
		}
	}
	c.Floor(rule, 40)
}

// onPutResult: a Write/Close/ReadFrom on (or an io.Copy into) the writer that
// storage.Engine.Put returned in this function.
func onPutResult(cc *ssa.CallCommon) bool {
	isPut := func(v ssa.Value) bool {
		v = stripConv(v)
		if e, ok := v.(*ssa.Extract); ok && e.Index == 0 {
			if call, ok := e.Tuple.(*ssa.Call); ok {
				return isEngineMethod(&call.Call, "Put")
			}
		}
		return false
	}
	if cc.IsInvoke() {
		switch cc.Method.Name() {
		case "Write", "Close", "ReadFrom":
			return isPut(cc.Value)
		}
		return false
	}
	if calleeName(cc) == "io.Copy" && len(cc.Args) > 0 {
		return isPut(cc.Args[0])
	}
	return false
}

// isReaderClose: Close() on a value whose static type has no Write method
// (io.ReadCloser, storage.Reader, *zngio.Reader, …).
func isReaderClose(cc *ssa.CallCommon) bool {
	if calleeBare(cc) != "Close" {
		return false
	}
	var t = cc.Value.Type()
	if !cc.IsInvoke() {
		if len(cc.Args) == 0 {
			return false
		}
		t = cc.Args[0].Type()
	}
	ms := methodNamesOf(t)
	if ms["Write"] || ms["WriteString"] || ms["Put"] || ms["Flush"] || ms["ReadFrom"] {
		return false
	}
	return ms["Read"] || ms["ReadAt"] || ms["Pull"]
}

func methodNamesOf(t types.Type) map[string]bool {
	out := map[string]bool{}
	add := func(ms *types.MethodSet) {
		for i := 0; i < ms.Len(); i++ {
			out[ms.At(i).Obj().Name()] = true
		}
	}
	add(types.NewMethodSet(t))
	if _, ok := t.(*types.Pointer); !ok {
		if _, isIface := t.Underlying().(*types.Interface); !isIface {
			add(types.NewMethodSet(types.NewPointer(t)))
		}
	}
	return out
}

// onErrorPathStrict: like onErrorPath, but every return reachable from the call
// must return an error that is *certainly* non-nil there: a value tested
// non-nil on an arm that dominates the return, the result of an error
// constructor, a package-level Err* variable, or a phi of such.  A return of
// another fallible call's result (`return q.writeHead(..)`) can be nil, so the
// call is on a path that can still succeed and its error is an obligation.
func onErrorPathStrict(ci ssa.CallInstruction) bool {
	in := ci.(ssa.Instruction)
	fn := in.Parent()
	idx := errIndex(fn.Signature)
	if idx < 0 {
		return false
	}
	type guard struct {
		v   ssa.Value
		arm *ssa.BasicBlock
	}
	var guards []guard
	for _, blk := range fn.Blocks {
		if len(blk.Instrs) == 0 {
			continue
		}
		iff, ok := blk.Instrs[len(blk.Instrs)-1].(*ssa.If)
		if !ok {
			continue
		}
		cmp, ok := iff.Cond.(*ssa.BinOp)
		if !ok || !(isNilConst(cmp.X) || isNilConst(cmp.Y)) {
			continue
		}
		v := cmp.X
		if isNilConst(v) {
			v = cmp.Y
		}
		if !isError(v.Type()) {
			continue
		}
		var arm *ssa.BasicBlock
		if cmp.Op == token.NEQ {
			arm = blk.Succs[0]
		} else if cmp.Op == token.EQL {
			arm = blk.Succs[1]
		}
		if arm != nil && len(arm.Preds) == 1 {
			guards = append(guards, guard{v, arm})
		}
	}
	b := in.Block()
	dominated := false
	for _, g := range guards {
		if g.arm.Dominates(b) {
			dominated = true
		}
	}
	if !dominated {
		return false
	}
	var nonNil func(v ssa.Value, at *ssa.BasicBlock, depth int) bool
	nonNil = func(v ssa.Value, at *ssa.BasicBlock, depth int) bool {
		if depth > 4 {
			return false
		}
		for _, g := range guards {
			if g.v == v && g.arm.Dominates(at) {
				return true
			}
		}
		switch x := v.(type) {
		case *ssa.MakeInterface:
			return true // a concrete error value boxed here (&T{..}, T{..}); typed-nil pointers are not an idiom of this repository
		case *ssa.Call:
			switch calleeName(&x.Call) {
			case "fmt.Errorf", "errors.New":
				return true
			}
			if f := x.Call.StaticCallee(); f != nil && (strings.HasPrefix(f.Name(), "Err") || strings.HasPrefix(f.Name(), "NewErr") || strings.HasSuffix(f.Name(), "Errorf")) {
				return true
			}
		case *ssa.UnOp:
			if x.Op == token.MUL {
				if g, ok := x.X.(*ssa.Global); ok && strings.HasPrefix(g.Name(), "Err") {
					return true
				}
			}
		case *ssa.Phi:
			for i, e := range x.Edges {
				if !nonNil(e, x.Block().Preds[i], depth+1) {
					return false
				}
			}
			return true
		}
		return false
	}
	bad := reachAvoiding(fn, in, func(ssa.Instruction) bool { return false }, func(x ssa.Instruction) bool {
		r, ok := x.(*ssa.Return)
		return ok && !nonNil(returnOperand(r, idx), r.Block(), 0)
	})
	return bad == nil
}
