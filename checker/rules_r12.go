package main

import (
	"go/constant"
	"go/token"
	"go/types"
	"sort"
	"strings"

	"golang.org/x/tools/go/ssa"
)

// ---- C17-E1 (also run as C12-E1, C14-E1): no error of a durable effect is dropped in the lake.
//
// Atomicity of a load / delete / merge / pool creation rests on the rule that a failed storage
// operation fails the whole step: the caller sees an error and the commit that would reference
// the missing bytes is never recorded.  A dropped or swallowed error from storage.Engine.Put /
// PutIfNotExists / Delete, from the Close of the writer a Put handed out, or from any module
// function that can return such an error, turns a failed write into an acknowledged one.  The
// rule applies the E-err verdict to every such call in the lake packages; cleanup on a path
// that already returns a non-nil error, deferred closes of *readers*, and Abort() bodies are the
// recognised idioms.
var c17ErrPkgs = []string{
	"lake", "lake/data", "lake/commits", "lake/journal", "lake/branches", "lake/pools",
	"lake/seekindex", "lake/meta", "pkg/storage",
}

// (function -> callee) pairs that are not obligations, one reason each.
var c17ErrExempt = map[string]string{
	"lake/data.NewVectorWriter$closure -> lake/data.DeleteVector": "the closure is the writer's `delete` field, invoked only by VectorWriter.Abort() (void cleanup of a write already reported as failed)",
}

// cache writers: a failed write leaves a cache file that the reader validates
// (end marker) and ignores; their callers may log and go on.
var c17CacheWriters = map[string]string{
	"(*lake/journal.Store).putSnapshot": "journal table cache; getSnapshot accepts it only with its end marker (C17-S2)",
	"(*lake/commits.Store).putSnapshot": "commit snapshot cache; decodeSnapshot requires the Commit marker (C17-S3)",
}

func isDurablePrimitive(cc *ssa.CallCommon) bool {
	if isEngineMethod(cc, "Put", "PutIfNotExists", "Delete", "DeleteByPrefix") {
		return true
	}
	return calleeName(cc) == "pkg/storage.Put"
}

// durableSet: module functions that perform a durable effect, directly or
// through static calls / closures they create, not counting cache writers.
var durableCache = map[*Prog]map[*ssa.Function]bool{}

func durableSet(p *Prog) map[*ssa.Function]bool {
	if d, ok := durableCache[p]; ok {
		return d
	}
	d := map[*ssa.Function]bool{}
	durableCache[p] = d
	for changed := true; changed; {
		changed = false
		for _, f := range p.Funcs {
			if d[f] || f.Blocks == nil || c17CacheWriters[fnName(f)] != "" {
				continue
			}
			hit := false
			for _, ci := range allCalls(f) {
				cc := ci.Common()
				if isDurablePrimitive(cc) {
					hit = true
					break
				}
				if g := cc.StaticCallee(); g != nil {
					if o := g.Origin(); o != nil {
						g = o
					}
					if d[g] {
						hit = true
						break
					}
				}
			}
			if !hit {
				for _, b := range f.Blocks {
					for _, in := range b.Instrs {
						if mc, ok := in.(*ssa.MakeClosure); ok {
							if g, ok := mc.Fn.(*ssa.Function); ok && d[g] {
								hit = true
							}
						}
					}
				}
			}
			if hit {
				d[f] = true
				changed = true
			}
		}
	}
	return d
}

func runLakeErrDiscipline(c *Ctx, rule string) {
	p := c.P
	c.Rule(rule, "no error of a durable effect is dropped: every call of storage.Engine.Put/PutIfNotExists/Delete/DeleteByPrefix, of storage.Put, and of any module function that (through static calls, cache writers excluded) performs one, has its error returned, stored, wrapped or passed on; only cleanup on a path that already returns a non-nil error is exempt")
	d := durableSet(p)
	for name := range c17CacheWriters {
		if p.Func(name) == nil {
			c.Undecided(rule, name, "cache-writer anchor does not resolve")
		}
	}
	fns := append([]*ssa.Function{}, p.Funcs...)
	sort.Slice(fns, func(i, j int) bool { return fns[i].String() < fns[j].String() })
	for _, fn := range fns {
		if fn.Blocks == nil || strings.HasSuffix(p.Pos(fn.Pos()), "_test.go") {
			continue
		}
		name := constructName(fn)
		for _, ci := range allCalls(fn) {
			cc := ci.Common()
			if errIndex(cc.Signature()) < 0 {
				continue
			}
			durable := isDurablePrimitive(cc)
			if g := cc.StaticCallee(); g != nil && !durable {
				if o := g.Origin(); o != nil {
					g = o
				}
				durable = d[g]
			}
			if !durable && onPutResult(cc) {
				durable = true
			}
			if !durable && cc.IsInvoke() && namedOf(cc.Value.Type()) == "lake/api.Interface" {
				for _, g := range p.implementersOfCall(cc) {
					if d[g] {
						durable = true
					}
				}
			}
			if !durable {
				continue
			}
			callee := calleeName(cc)
			if callee == "" {
				callee = "dynamic:" + short(cc.Value.Type().String())
			}
			construct := name + " -> " + callee
			if fn.Name() == "Abort" && fn.Signature.Results().Len() == 0 {
				c.OK(rule, construct, ci.Pos(), "exempt: Abort() has no result; it cleans up after a write that is already reported as failed")
				continue
			}
			if onErrorPathStrict(ci) {
				c.OK(rule, construct, ci.Pos(), "cleanup on a path that already returns a non-nil error")
				continue
			}
			if r, ok := c17ErrExempt[construct]; ok {
				c.OK(rule, construct, ci.Pos(), "exempt: "+r)
				continue
			}
			switch errVerdict(ci) {
			case "propagated":
				if ret := errDeadOnSomePath(ci); ret != nil {
					c.Fail(rule, construct, ci.Pos(), "error of "+callee+" is looked at on some paths only: the return at "+p.Pos(ret.Pos())+" is reachable without any test, return or store of it")
				} else {
					c.OK(rule, construct, ci.Pos(), "propagated")
				}
			case "dropped":
				how := "result discarded"
				if _, ok := ci.(*ssa.Defer); ok {
					how = "deferred call discards its error"
				}
				c.Fail(rule, construct, ci.Pos(), "error of "+callee+" is dropped ("+how+"): a failed durable effect would be acknowledged")
			case "swallowed":
				c.Fail(rule, construct, ci.Pos(), "error of "+callee+" is compared with nil and then discarded: a failed durable effect would be acknowledged")
			}
		}
	}
	c.Floor(rule, 40)
}

// onPutResult: a Write/Close/ReadFrom on (or an io.Copy into) the writer that
// storage.Engine.Put returned in this function.
func onPutResult(cc *ssa.CallCommon) bool {
	isPut := func(v ssa.Value) bool {
		v = stripConv(v)
		if e, ok := v.(*ssa.Extract); ok && e.Index == 0 {
			if call, ok := e.Tuple.(*ssa.Call); ok {
				return isEngineMethod(&call.Call, "Put")
			}
		}
		return false
	}
	if cc.IsInvoke() {
		switch cc.Method.Name() {
		case "Write", "Close", "ReadFrom":
			return isPut(cc.Value)
		}
		return false
	}
	if calleeName(cc) == "io.Copy" && len(cc.Args) > 0 {
		return isPut(cc.Args[0])
	}
	return false
}

// isReaderClose: Close() on a value whose static type has no Write method
// (io.ReadCloser, storage.Reader, *zngio.Reader, …).
func isReaderClose(cc *ssa.CallCommon) bool {
	if calleeBare(cc) != "Close" {
		return false
	}
	var t = cc.Value.Type()
	if !cc.IsInvoke() {
		if len(cc.Args) == 0 {
			return false
		}
		t = cc.Args[0].Type()
	}
	ms := methodNamesOf(t)
	if ms["Write"] || ms["WriteString"] || ms["Put"] || ms["Flush"] || ms["ReadFrom"] {
		return false
	}
	return ms["Read"] || ms["ReadAt"] || ms["Pull"]
}

func methodNamesOf(t types.Type) map[string]bool {
	out := map[string]bool{}
	add := func(ms *types.MethodSet) {
		for i := 0; i < ms.Len(); i++ {
			out[ms.At(i).Obj().Name()] = true
		}
	}
	add(types.NewMethodSet(t))
	if _, ok := t.(*types.Pointer); !ok {
		if _, isIface := t.Underlying().(*types.Interface); !isIface {
			add(types.NewMethodSet(types.NewPointer(t)))
		}
	}
	return out
}

// nonNilOracle returns a predicate: the error value v is certainly non-nil in block at
// (tested non-nil on a dominating arm, an error constructor, an Err* variable, a boxed
// concrete error, or a phi of such).
func nonNilOracle(fn *ssa.Function) (func(v ssa.Value, at *ssa.BasicBlock) bool, func(b *ssa.BasicBlock) bool) {
	type guard struct {
		v   ssa.Value
		arm *ssa.BasicBlock
	}
	var guards []guard
	for _, blk := range fn.Blocks {
		if len(blk.Instrs) == 0 {
			continue
		}
		iff, ok := blk.Instrs[len(blk.Instrs)-1].(*ssa.If)
		if !ok {
			continue
		}
		cmp, ok := iff.Cond.(*ssa.BinOp)
		if !ok || !(isNilConst(cmp.X) || isNilConst(cmp.Y)) {
			continue
		}
		v := cmp.X
		if isNilConst(v) {
			v = cmp.Y
		}
		if !isError(v.Type()) {
			continue
		}
		var arm *ssa.BasicBlock
		if cmp.Op == token.NEQ {
			arm = blk.Succs[0]
		} else if cmp.Op == token.EQL {
			arm = blk.Succs[1]
		}
		if arm != nil && len(arm.Preds) == 1 {
			guards = append(guards, guard{v, arm})
		}
	}
	var nonNil func(v ssa.Value, at *ssa.BasicBlock, depth int) bool
	nonNil = func(v ssa.Value, at *ssa.BasicBlock, depth int) bool {
		if depth > 4 {
			return false
		}
		for _, g := range guards {
			if g.v == v && g.arm.Dominates(at) {
				return true
			}
		}
		switch x := v.(type) {
		case *ssa.MakeInterface:
			return true // a concrete error value boxed here (&T{..}, T{..}); typed-nil pointers are not an idiom of this repository
		case *ssa.Call:
			switch calleeName(&x.Call) {
			case "fmt.Errorf", "errors.New":
				return true
			}
			if f := x.Call.StaticCallee(); f != nil && (strings.HasPrefix(f.Name(), "Err") || strings.HasPrefix(f.Name(), "NewErr") || strings.HasSuffix(f.Name(), "Errorf")) {
				return true
			}
		case *ssa.UnOp:
			if x.Op == token.MUL {
				if g, ok := x.X.(*ssa.Global); ok && strings.HasPrefix(g.Name(), "Err") {
					return true
				}
			}
		case *ssa.Phi:
			for i, e := range x.Edges {
				if !nonNil(e, x.Block().Preds[i], depth+1) {
					return false
				}
			}
			return true
		}
		return false
	}
	inGuard := func(b *ssa.BasicBlock) bool {
		for _, g := range guards {
			if g.arm.Dominates(b) {
				return true
			}
		}
		return false
	}
	return func(v ssa.Value, at *ssa.BasicBlock) bool { return nonNil(v, at, 0) }, inGuard
}

// onErrorPathStrict: like onErrorPath, but every return reachable from the call
// must return an error that is *certainly* non-nil there (see nonNilOracle).  A
// return of another fallible call's result (`return q.writeHead(..)`) can be nil,
// so the call is on a path that can still succeed and its error is an obligation.
func onErrorPathStrict(ci ssa.CallInstruction) bool {
	in := ci.(ssa.Instruction)
	fn := in.Parent()
	idx := errIndex(fn.Signature)
	if idx < 0 {
		return false
	}
	nonNil, inGuard := nonNilOracle(fn)
	if !inGuard(in.Block()) {
		return false
	}
	bad := reachAvoiding(fn, in, func(ssa.Instruction) bool { return false }, func(x ssa.Instruction) bool {
		r, ok := x.(*ssa.Return)
		return ok && !nonNil(returnOperand(r, idx), r.Block())
	})
	return bad == nil
}

// ---- E2: a failed durable effect is never turned into success.
//
// For every durable call (the set of E1) whose error is tested against nil: from the non-nil
// edge of that test no return with a constant-nil error is reachable without re-executing the
// call (a retry).  The frozen exceptions are the idempotent deletes (an object that is already
// gone) - each confirmed by reading.
var c17ConvertExempt = map[string]string{}

func runLakeErrNotConverted(c *Ctx, rule string) {
	p := c.P
	c.Rule(rule, "a failed durable effect is never turned into success: from the non-nil edge of the test of a durable call's error no return with a constant-nil error is reachable without re-executing the call; the exceptions (idempotent deletes of objects that are already gone) are a frozen table")
	d := durableSet(p)
	fns := append([]*ssa.Function{}, p.Funcs...)
	sort.Slice(fns, func(i, j int) bool { return fns[i].String() < fns[j].String() })
	for _, fn := range fns {
		if fn.Blocks == nil || strings.HasSuffix(p.Pos(fn.Pos()), "_test.go") {
			continue
		}
		idx := errIndex(fn.Signature)
		if idx < 0 {
			continue
		}
		name := constructName(fn)
		for _, ci := range allCalls(fn) {
			cc := ci.Common()
			if errIndex(cc.Signature()) < 0 {
				continue
			}
			durable := isDurablePrimitive(cc) || onPutResult(cc)
			if g := cc.StaticCallee(); g != nil && !durable {
				if o := g.Origin(); o != nil {
					g = o
				}
				durable = d[g]
			}
			if !durable {
				continue
			}
			v := errValueOf(ci)
			if v == nil {
				continue // E1's business
			}
			callee := calleeName(cc)
			if callee == "" {
				callee = "dynamic:" + short(cc.Value.Type().String())
			}
			construct := name + " -> " + callee
			var bad ssa.Instruction
			edges := nonNilEdges(v)
			if len(edges) == 0 {
				continue
			}
			for _, e := range edges {
				ib, nonNil := e.from, e.to
				if strings.HasPrefix(calleeBare(cc), "Delete") {
					if t, neg := notExistTest(ib); t && ((!neg && nonNil == ib.Succs[0]) || (neg && nonNil == ib.Succs[1])) {
						continue // the idempotent-delete edge itself
					}
				}
				hit := reachAvoidingEdges(fn, ib.Instrs[len(ib.Instrs)-1],
					func(x ssa.Instruction) bool { return x == ci.(ssa.Instruction) },
					func(x ssa.Instruction) bool {
						ret, ok := x.(*ssa.Return)
						return ok && isNilConst(returnOperand(ret, idx))
					},
					func(a, b *ssa.BasicBlock) bool {
						if a == ib {
							return b == nonNil
						}
						// idempotent delete: the edge on which errors.Is(err, fs.ErrNotExist) holds
						if strings.HasPrefix(calleeBare(cc), "Delete") {
							if t, neg := notExistTest(a); t && len(a.Succs) == 2 {
								if (!neg && b == a.Succs[0]) || (neg && b == a.Succs[1]) {
									return false
								}
							}
						}
						return true
					})
				if hit != nil {
					bad = hit
				}
			}
			if bad == nil {
				c.OK(rule, construct, ci.Pos(), "the failing edge reaches no successful return")
				continue
			}
			if r, ok := c17ConvertExempt[construct]; ok {
				c.OK(rule, construct, ci.Pos(), "exempt: "+r)
				continue
			}
			c.Fail(rule, construct, bad.Pos(), "a failure of "+callee+" can end in a nil return ("+p.Pos(bad.Pos())+"): the failed durable effect is acknowledged as done")
		}
	}
	c.Floor(rule, 30)
}

// notExistTest: block a ends in `if errors.Is(e, fs.ErrNotExist)` (neg: `if !errors.Is(..)`).
func notExistTest(a *ssa.BasicBlock) (is, neg bool) {
	if len(a.Instrs) == 0 {
		return
	}
	iff, ok := a.Instrs[len(a.Instrs)-1].(*ssa.If)
	if !ok {
		return
	}
	cond := iff.Cond
	if u, ok := cond.(*ssa.UnOp); ok && u.Op == token.NOT {
		neg = true
		cond = u.X
	}
	call, ok := cond.(*ssa.Call)
	if !ok || calleeName(&call.Call) != "errors.Is" || len(call.Call.Args) != 2 {
		return false, false
	}
	if l, ok := stripConv(call.Call.Args[1]).(*ssa.UnOp); ok && l.Op == token.MUL {
		if g, ok := l.X.(*ssa.Global); ok && g.Name() == "ErrNotExist" && g.Pkg.Pkg.Path() == "io/fs" {
			return true, neg
		}
	}
	return false, false
}

type cfgEdge struct{ from, to *ssa.BasicBlock }

// nonNilEdges: the CFG edges on which the error value v (or a local copy of it) is known to be
// non-nil: the non-nil edge of a nil test, the equal edge of a comparison with a sentinel, the
// true edge of errors.Is / os.IsExist / os.IsNotExist on it.
func nonNilEdges(v ssa.Value) []cfgEdge {
	var out []cfgEdge
	seen := map[ssa.Value]bool{}
	addIf := func(cond ssa.Value, onTrue bool) {
		var walk func(c ssa.Value, onTrue bool)
		walk = func(c ssa.Value, onTrue bool) {
			if c.Referrers() == nil {
				return
			}
			for _, r := range *c.Referrers() {
				switch x := r.(type) {
				case *ssa.If:
					b := x.Block()
					if onTrue {
						out = append(out, cfgEdge{b, b.Succs[0]})
					} else {
						out = append(out, cfgEdge{b, b.Succs[1]})
					}
				case *ssa.UnOp:
					if x.Op == token.NOT {
						walk(x, !onTrue)
					}
				}
			}
		}
		walk(cond, onTrue)
	}
	var visit func(v ssa.Value)
	visit = func(v ssa.Value) {
		if seen[v] || v.Referrers() == nil {
			return
		}
		seen[v] = true
		for _, r := range *v.Referrers() {
			switch x := r.(type) {
			case *ssa.Phi:
				// a phi merges other values: a test of the phi says nothing about v alone
			case *ssa.MakeInterface:
				visit(x)
			case *ssa.ChangeInterface:
				visit(x)
			case *ssa.BinOp:
				if x.Op != token.EQL && x.Op != token.NEQ {
					continue
				}
				if isNilConst(x.X) || isNilConst(x.Y) {
					addIf(x, x.Op == token.NEQ)
				} else {
					addIf(x, x.Op == token.EQL) // equal to a sentinel: non-nil
				}
			case *ssa.Store:
				if a, ok := x.Addr.(*ssa.Alloc); ok && x.Val == v && !allocEscapes(a) {
					// single-assignment local: follow its loads only if this is the only store
					stores := 0
					for _, ar := range *a.Referrers() {
						if _, ok := ar.(*ssa.Store); ok {
							stores++
						}
					}
					if stores == 1 {
						for _, ar := range *a.Referrers() {
							if l, ok := ar.(*ssa.UnOp); ok && l.Op == token.MUL {
								visit(l)
							}
						}
					}
				}
			case *ssa.Call:
				switch calleeName(&x.Call) {
				case "errors.Is", "os.IsExist", "os.IsNotExist":
					if len(x.Call.Args) > 0 && stripConv(x.Call.Args[0]) == stripConv(v) {
						addIf(x, true)
					}
				}
			}
		}
	}
	visit(v)
	return out
}

// ---- C01-X1: the ZNG type encoder identifies an external type by the type, never by its number.
//
// zngio.Encoder translates types of *any* context into the stream's own context.  Type IDs are
// only unique inside one zed.Context (every context numbers its complex types from the same
// base), so a table of the Encoder indexed or keyed by zed.TypeID(t) / t.ID() confuses types of
// different contexts that share a number: the value is written under another type, with no
// typedef.  (Tables indexed by IDs of the Encoder's *own* context would be fine; the rule looks
// only at IDs computed from values that are not produced by the Encoder's context.)
func runEncoderKeysByType(c *Ctx, rule string) {
	p := c.P
	c.Rule(rule, "no table of zngio.Encoder is indexed or keyed by a number obtained from zed.TypeID / Type.ID(): external types are identified by the type value itself (IDs of different contexts collide); witness: Encoder.Lookup reads a map keyed by zed.Type")
	isID := func(v ssa.Value) bool {
		call, ok := v.(*ssa.Call)
		if !ok {
			return false
		}
		cc := call.Common()
		if cc.IsInvoke() {
			return cc.Method.Name() == "ID" && namedOf(cc.Value.Type()) == "super.Type"
		}
		n := calleeName(cc)
		return n == "super.TypeID" || (strings.HasPrefix(n, "(*super.Type") && strings.HasSuffix(n, ").ID"))
	}
	witness := false
	n := 0
	for _, fn := range p.FuncsIn("zio/zngio") {
		top := fn
		for top.Parent() != nil {
			top = top.Parent()
		}
		if top.Signature.Recv() == nil || namedOf(top.Signature.Recv().Type()) != "zio/zngio.Encoder" {
			continue
		}
		for _, b := range fn.Blocks {
			for _, in := range b.Instrs {
				var key ssa.Value
				var what string
				switch x := in.(type) {
				case *ssa.IndexAddr:
					key, what = x.Index, "slice index"
				case *ssa.Index:
					key, what = x.Index, "index"
				case *ssa.Lookup:
					key, what = x.Index, "map key"
					if mt, ok := x.X.Type().Underlying().(*types.Map); ok && namedOf(mt.Key()) == "super.Type" && fn.Name() == "Lookup" {
						witness = true
					}
				case *ssa.MapUpdate:
					key, what = x.Key, "map key"
				default:
					continue
				}
				n++
				if _, isConst := key.(*ssa.Const); isConst {
					continue
				}
				if dependsOn(key, isID) {
					c.Fail(rule, constructName(fn)+" "+what+" from a type ID", in.Pos(), "a table of the Encoder is accessed with a "+what+" computed from zed.TypeID/Type.ID(): type IDs of different contexts collide (each context numbers from the same base), so a value whose type comes from a second context is written under the cached type of the first, without a typedef")
				}
			}
		}
	}
	if !witness {
		c.Undecided(rule, "(*zio/zngio.Encoder).Lookup", "witness not found: Encoder.Lookup no longer reads a map keyed by zed.Type")
	} else {
		c.OK(rule, "tables of zngio.Encoder", token.NoPos, sprint(n)+" table accesses in Encoder methods, none keyed by a type ID; Lookup is keyed by the type")
	}
}

// ---- C06-T2: a float is converted to an integer in the value order only inside the integer's range.
//
// int64(f) / uint64(f) for an f outside the target range is implementation-defined in Go (on
// amd64 it yields MinInt64 / 2^63).  If the value order compares through such a conversion, one
// particular float (2^63, 2^64) is ordered inconsistently with its neighbours and the order is
// not transitive.  float64(math.MaxInt64) is 2^63 - so a guard `f > math.MaxInt64` does not keep
// 2^63 out.  The rule collects, for every float->integer conversion in compareNumbers and the
// same-package functions it calls, the constant bounds on the dominating branch edges and
// requires  lo <= f  and  f < 2^63 (2^64 for unsigned)  to follow from them.
func runOrderFloatToIntInRange(c *Ctx, rule string) {
	p := c.P
	c.Rule(rule, "every float-to-integer conversion in expr.compareNumbers and the same-package functions it calls is dominated by constant range tests that imply the float lies inside the integer type's range (strictly below 2^63 / 2^64: float64(MaxInt64) is 2^63 itself); an out-of-range conversion is implementation-defined and orders that one float inconsistently, which breaks transitivity")
	root := p.Func("runtime/sam/expr.compareNumbers")
	if root == nil {
		c.Undecided(rule, "runtime/sam/expr.compareNumbers", "anchor does not resolve")
		return
	}
	scope := reachableStatic([]*ssa.Function{root}, func(f *ssa.Function) bool {
		return p.PkgOf(f) == "runtime/sam/expr" && f.Origin() == nil
	})
	var fns []*ssa.Function
	for f := range scope {
		fns = append(fns, f)
	}
	sort.Slice(fns, func(i, j int) bool { return fns[i].String() < fns[j].String() })
	n := 0
	for _, fn := range fns {
		for _, b := range fn.Blocks {
			for _, in := range b.Instrs {
				cv, ok := in.(*ssa.Convert)
				if !ok {
					continue
				}
				from, ok1 := cv.X.Type().Underlying().(*types.Basic)
				to, ok2 := cv.Type().Underlying().(*types.Basic)
				if !ok1 || !ok2 || from.Info()&types.IsFloat == 0 || to.Info()&types.IsInteger == 0 {
					continue
				}
				n++
				construct := constructName(fn) + " converts a float to " + to.Name()
				hiLimit, loLimit := 9223372036854775808.0, -9223372036854775808.0
				if to.Info()&types.IsUnsigned != 0 {
					hiLimit, loLimit = 18446744073709551616.0, 0
				}
				if to.Kind() != types.Int64 && to.Kind() != types.Uint64 && to.Kind() != types.Int && to.Kind() != types.Uint && to.Kind() != types.Uintptr {
					c.Fail(rule, construct, cv.Pos(), "conversion of a float to a narrow integer type in the value order")
					continue
				}
				// the float and what it was derived from monotonically (Trunc/Floor/Ceil keep an in-range value in range)
				base := map[ssa.Value]bool{}
				var addBase func(v ssa.Value)
				addBase = func(v ssa.Value) {
					if base[v] {
						return
					}
					base[v] = true
					if call, ok := v.(*ssa.Call); ok {
						switch calleeName(call.Common()) {
						case "math.Trunc", "math.Floor", "math.Ceil", "math.Round":
							addBase(call.Common().Args[0])
						}
					}
				}
				addBase(cv.X)
				hiOK, loOK := false, false
				for _, blk := range fn.Blocks {
					if len(blk.Instrs) == 0 {
						continue
					}
					iff, ok := blk.Instrs[len(blk.Instrs)-1].(*ssa.If)
					if !ok {
						continue
					}
					cmp, ok := iff.Cond.(*ssa.BinOp)
					if !ok {
						continue
					}
					var k float64
					op := cmp.Op
					switch {
					case base[cmp.X] && isFloatConst(cmp.Y, &k):
					case base[cmp.Y] && isFloatConst(cmp.X, &k):
						// K op f  ==  f op' K
						switch op {
						case token.LSS:
							op = token.GTR
						case token.LEQ:
							op = token.GEQ
						case token.GTR:
							op = token.LSS
						case token.GEQ:
							op = token.LEQ
						}
					default:
						continue
					}
					for ei, succ := range blk.Succs {
						if len(succ.Preds) != 1 || !succ.Dominates(cv.Block()) {
							continue
						}
						eop := op
						if ei == 1 { // false edge: negate (NaN makes every comparison false; a NaN operand must be excluded separately and does not concern the range)
							switch op {
							case token.LSS:
								eop = token.GEQ
							case token.LEQ:
								eop = token.GTR
							case token.GTR:
								eop = token.LEQ
							case token.GEQ:
								eop = token.LSS
							default:
								continue
							}
						}
						switch eop {
						case token.LSS:
							if k <= hiLimit {
								hiOK = true
							}
						case token.LEQ:
							if k < hiLimit {
								hiOK = true
							}
						case token.GEQ, token.GTR:
							if k >= loLimit {
								loOK = true
							}
						}
					}
				}
				switch {
				case hiOK && loOK:
					c.OK(rule, construct, cv.Pos(), "dominated by constant tests implying the target range")
				case !hiOK:
					c.Fail(rule, construct, cv.Pos(), "no dominating test implies the float is strictly below 2^"+map[bool]string{true: "64", false: "63"}[to.Info()&types.IsUnsigned != 0]+" (a test against float64(math.MaxInt64)/MaxUint64 with > lets exactly 2^63/2^64 through): the conversion is out of range for that float, which is then ordered below every integer while above smaller floats - the value order is not transitive")
				default:
					c.Fail(rule, construct, cv.Pos(), "no dominating test implies the float is at or above the target type's minimum")
				}
			}
		}
	}
	c.OK(rule, "float-to-integer conversions in the numeric value order", root.Pos(), sprint(n)+" conversions found in "+sprint(len(fns))+" functions")
}

func isFloatConst(v ssa.Value, out *float64) bool {
	k, ok := v.(*ssa.Const)
	if !ok || k.Value == nil {
		return false
	}
	b, ok := k.Type().Underlying().(*types.Basic)
	if !ok || b.Info()&types.IsFloat == 0 {
		return false
	}
	*out = k.Float64()
	return true
}

// ---- C09-V1: a vector handed downstream shares no slice with the operator's reusable state.
//
// Runtime vectors are immutable by contract: a downstream operator may hold a vector across
// later Pulls (tail, fork/combine, a spilling sort).  If an operator of the vector runtime
// builds a vector over a slice it keeps in one of its own fields and rewrites on the next Pull
// (`f.index = append(f.index[:0], ...)`), the earlier vector changes under its holder.  The rule
// is a forward flow over the vector operators: a slice loaded from a field of the operator that
// a non-constructor method stores to, followed through reslices, append, phis and same-package
// functions that return what they were given, must not reach a constructor of package vector
// (directly or through a same-package function that passes its parameter on to one).
func runVamVectorsOwnTheirSlices(c *Ctx, rule string) {
	p := c.P
	c.Rule(rule, "in the vector runtime's operators (runtime/vam/op) no slice kept in a field that a Pull-time method rewrites reaches a constructor of package vector, directly or through same-package helpers: vectors handed downstream stay immutable while the operator reuses its buffers")
	fns := p.FuncsIn("runtime/vam/op")
	if len(fns) < 10 {
		c.Undecided(rule, "runtime/vam/op", "fewer than ten functions resolved")
		return
	}
	// fields (by *types.Var) stored to outside constructors
	mutable := map[*types.Var]bool{}
	for _, fn := range fns {
		if fn.Signature.Recv() == nil && fn.Parent() == nil {
			continue // plain functions (constructors New*)
		}
		for _, b := range fn.Blocks {
			for _, in := range b.Instrs {
				if st, ok := in.(*ssa.Store); ok {
					if fa, ok := st.Addr.(*ssa.FieldAddr); ok {
						if _, isSlice := st.Val.Type().Underlying().(*types.Slice); isSlice {
							mutable[fieldVarOf(fa)] = true
						}
					}
				}
			}
		}
	}
	// summary: parameter i of g is handed to a vector constructor / returned
	type key struct {
		f *ssa.Function
		i int
	}
	sinksParam := map[key]bool{}
	returnsParam := map[key]bool{}
	isVectorCtor := func(cc *ssa.CallCommon) bool {
		f := cc.StaticCallee()
		return f != nil && f.Pkg != nil && rel(f.Pkg.Pkg.Path()) == "vector" && strings.HasPrefix(f.Name(), "New")
	}
	// flow computes what a set of seed values reaches inside fn
	flow := func(fn *ssa.Function, seeds []ssa.Value, onSink func(ssa.Instruction, string), onReturn func()) {
		seen := map[ssa.Value]bool{}
		var work []ssa.Value
		push := func(v ssa.Value) {
			if !seen[v] {
				seen[v] = true
				work = append(work, v)
			}
		}
		for _, s := range seeds {
			push(s)
		}
		for len(work) > 0 {
			v := work[len(work)-1]
			work = work[:len(work)-1]
			if v.Referrers() == nil {
				continue
			}
			for _, r := range *v.Referrers() {
				switch x := r.(type) {
				case *ssa.Slice:
					if x.X == v {
						push(x)
					}
				case *ssa.Phi:
					push(x)
				case *ssa.Return:
					if onReturn != nil {
						onReturn()
					}
				case *ssa.Store:
					// stored into a local and re-loaded
					if a, ok := x.Addr.(*ssa.Alloc); ok && x.Val == v {
						for _, ar := range *a.Referrers() {
							if l, ok := ar.(*ssa.UnOp); ok && l.Op == token.MUL {
								push(l)
							}
						}
					}
				case *ssa.Call:
					cc := x.Common()
					if bi, ok := cc.Value.(*ssa.Builtin); ok {
						if bi.Name() == "append" && len(cc.Args) > 0 && cc.Args[0] == v {
							push(x) // may share the backing array
						}
						continue
					}
					for i, a := range cc.Args {
						if a != v {
							continue
						}
						if isVectorCtor(cc) {
							onSink(x, calleeName(cc))
							continue
						}
						if g := cc.StaticCallee(); g != nil && p.PkgOf(g) == "runtime/vam/op" {
							if sinksParam[key{g, i}] {
								onSink(x, calleeName(cc))
							}
							if returnsParam[key{g, i}] {
								push(x)
							}
						}
					}
				}
			}
		}
	}
	for changed := true; changed; {
		changed = false
		for _, g := range fns {
			for i, prm := range g.Params {
				if _, isSlice := prm.Type().Underlying().(*types.Slice); !isSlice {
					continue
				}
				k := key{g, i}
				s, r := sinksParam[k], returnsParam[k]
				flow(g, []ssa.Value{prm}, func(ssa.Instruction, string) { s = true }, func() { r = true })
				if s != sinksParam[k] || r != returnsParam[k] {
					sinksParam[k], returnsParam[k] = s, r
					changed = true
				}
			}
		}
	}
	n := 0
	for _, fn := range fns {
		var seeds []ssa.Value
		for _, b := range fn.Blocks {
			for _, in := range b.Instrs {
				if l, ok := in.(*ssa.UnOp); ok && l.Op == token.MUL {
					if fa, ok := l.X.(*ssa.FieldAddr); ok && mutable[fieldVarOf(fa)] {
						seeds = append(seeds, l)
					}
				}
			}
		}
		if len(seeds) == 0 {
			continue
		}
		n += len(seeds)
		flow(fn, seeds, func(at ssa.Instruction, callee string) {
			c.Fail(rule, constructName(fn)+" hands operator state to "+callee, at.Pos(), "a slice kept in a field of the operator (and rewritten by a later Pull) becomes part of a vector handed downstream: a consumer that still holds the earlier vector (tail, fork, a spilling sort) sees its rows change, so the vector runtime's result differs from the sequential runtime's")
		}, nil)
	}
	nm := 0
	for range mutable {
		nm++
	}
	c.OK(rule, "operator state vs vector constructors", token.NoPos, sprint(nm)+" reusable slice fields, "+sprint(n)+" loads followed, "+sprint(len(fns))+" functions")
}

func fieldVarOf(fa *ssa.FieldAddr) *types.Var {
	t := fa.X.Type()
	if pt, ok := t.Underlying().(*types.Pointer); ok {
		t = pt.Elem()
	}
	st, ok := t.Underlying().(*types.Struct)
	if !ok {
		return nil
	}
	return st.Field(fa.Field)
}

// ---- C02-L1: the ZSON lexer decodes a rune from its refillable buffer only after asking for a whole one.
//
// zson.Lexer reads its input in chunks; l.cursor may end in the middle of a multi-byte rune
// (at a 64 KiB boundary, or wherever a pipe delivers a short read).  utf8.DecodeRune on such a
// prefix yields RuneError/1, so an unquoted non-ASCII field, type or enum name that the
// formatter wrote fails to parse back.  Every DecodeRune over the cursor must therefore be
// preceded, on every path from the function's entry, by utf8.FullRune on the cursor or by a
// fill/check request of at least utf8.UTFMax bytes.
func runLexerDecodesWholeRunes(c *Ctx, rule string) {
	p := c.P
	c.Rule(rule, "in the methods of zson.Lexer every utf8.DecodeRune over the refillable cursor is preceded on every path by utf8.FullRune(cursor) or by a fill/check request for at least utf8.UTFMax bytes: a read boundary inside a multi-byte rune never yields a truncated rune")
	n := 0
	for _, fn := range p.FuncsIn("zson") {
		if fn.Signature.Recv() == nil || namedOf(fn.Signature.Recv().Type()) != "zson.Lexer" {
			continue
		}
		for _, ci := range allCalls(fn) {
			if calleeName(ci.Common()) != "unicode/utf8.DecodeRune" {
				continue
			}
			fromCursor := dependsOn(ci.Common().Args[0], func(v ssa.Value) bool {
				l, ok := v.(*ssa.UnOp)
				if !ok || l.Op != token.MUL {
					return false
				}
				fa, ok := l.X.(*ssa.FieldAddr)
				return ok && fieldVarOf(fa) != nil && fieldVarOf(fa).Name() == "cursor"
			})
			if !fromCursor {
				continue
			}
			n++
			construct := fnName(fn) + " decodes a rune from the cursor"
			asksWhole := func(x ssa.Instruction) bool {
				call, ok := x.(ssa.CallInstruction)
				if !ok {
					return false
				}
				switch calleeName(call.Common()) {
				case "unicode/utf8.FullRune":
					return true
				case "(*zson.Lexer).fill", "(*zson.Lexer).check":
					args := call.Common().Args
					return dependsOn(args[len(args)-1], func(v ssa.Value) bool {
						k, ok := v.(*ssa.Const)
						return ok && k.Value != nil && k.Value.Kind() == constant.Int && k.Int64() >= 4
					})
				}
				return false
			}
			target := ci.(ssa.Instruction)
			if hit := reachAvoiding(fn, nil, asksWhole, func(x ssa.Instruction) bool { return x == target }); hit != nil {
				c.Fail(rule, construct, ci.Pos(), "a path from the entry of "+fnName(fn)+" reaches utf8.DecodeRune over the cursor without utf8.FullRune or a request for utf8.UTFMax bytes: when a read ends inside a multi-byte rune (byte 65536 of a long value sequence, a short read from a pipe) the lexer sees RuneError, and text the formatter wrote with an unquoted non-ASCII name does not parse back")
			} else {
				c.OK(rule, construct, ci.Pos(), "every path asks for a whole rune first")
			}
		}
	}
	if n < 2 {
		c.Undecided(rule, "zson.Lexer rune decoding", "fewer than two DecodeRune sites over the cursor found ("+sprint(n)+")")
	}
}

// ---- C04-F3: a scan filter hands every caller its own evaluator / buffer filter.
//
// zbuf.Filter.AsEvaluator and AsBufferFilter are called once per scanner worker *because* the
// objects they return carry per-call mutable state (FieldNameFinder's checked-ID set, evaluator
// scratch).  An implementation that memoises the compiled object and returns the same instance to
// every worker makes the workers race on that state: frames of ZNG input read with several
// threads are dropped while the same data as ZSON (or with one thread) gives the full result.
func runFilterInstancesArePrivate(c *Ctx, rule string) {
	p := c.P
	c.Rule(rule, "every implementation of zbuf.Filter.AsEvaluator / AsBufferFilter returns an object built in that call: the returned value never comes from a field of the receiver (a memo shared by all scanner workers)")
	iface, _ := p.Type("zbuf", "Filter").(*types.Named)
	if iface == nil {
		c.Undecided(rule, "zbuf.Filter", "anchor type does not resolve")
		return
	}
	it, _ := iface.Underlying().(*types.Interface)
	n := 0
	for _, fn := range p.Funcs {
		if fn.Parent() != nil || fn.Signature.Recv() == nil || fn.Blocks == nil {
			continue
		}
		if fn.Name() != "AsEvaluator" && fn.Name() != "AsBufferFilter" {
			continue
		}
		if it == nil || !types.Implements(fn.Signature.Recv().Type(), it) {
			continue
		}
		if strings.HasSuffix(p.Pos(fn.Pos()), "_test.go") {
			continue
		}
		n++
		resT := fn.Signature.Results().At(0).Type()
		recv := fn.Params[0]
		bad := false
		for _, b := range fn.Blocks {
			for _, in := range b.Instrs {
				ret, ok := in.(*ssa.Return)
				if !ok {
					continue
				}
				v := returnOperand(ret, 0)
				if dependsOn(v, func(x ssa.Value) bool {
					l, ok := x.(*ssa.UnOp)
					if !ok || l.Op != token.MUL {
						return false
					}
					fa, ok := l.X.(*ssa.FieldAddr)
					return ok && types.Identical(fa.X.Type(), recv.Type()) && types.Identical(l.Type(), resT)
				}) {
					bad = true
					c.Fail(rule, fnName(fn)+" returns a memoised instance", ret.Pos(), "the object returned comes from a field of the filter, so every scanner worker gets the same instance; buffer filters and evaluators carry per-call state (FieldNameFinder.checkedIDs), so with reader threads > 1 a worker skips the field names of a type another worker already marked and drops its frame - ZNG input loses rows that ZSON input (or one thread) returns")
				}
			}
		}
		if !bad {
			c.OK(rule, fnName(fn), fn.Pos(), "the result is built in the call")
		}
	}
	if n < 4 {
		c.Undecided(rule, "zbuf.Filter implementers", "fewer than four AsEvaluator/AsBufferFilter methods found ("+sprint(n)+")")
	}
}

// errDeadOnSomePath: from the call, a return is reachable on a path that passes no use of the
// call's error value (no test, return, store, pass-on).  The error is then lost on that path
// although other paths look at it.
func errDeadOnSomePath(ci ssa.CallInstruction) ssa.Instruction {
	v := errValueOf(ci)
	if v == nil {
		return nil
	}
	fn := ci.Parent()
	uses := map[ssa.Instruction]bool{}
	seen := map[ssa.Value]bool{}
	var visit func(v ssa.Value)
	visit = func(v ssa.Value) {
		if seen[v] || v.Referrers() == nil {
			return
		}
		seen[v] = true
		for _, r := range *v.Referrers() {
			if _, ok := r.(*ssa.DebugRef); ok {
				continue
			}
			uses[r] = true
			switch x := r.(type) {
			case *ssa.Store:
				if a, ok := x.Addr.(*ssa.Alloc); ok && x.Val == v {
					// a local variable: every load of it counts as a use (conservative: any later load)
					for _, ar := range *a.Referrers() {
						if l, ok := ar.(*ssa.UnOp); ok && l.Op == token.MUL {
							uses[l] = true
						}
					}
				}
			case *ssa.MakeInterface:
				visit(x)
			case *ssa.ChangeInterface:
				visit(x)
			}
		}
	}
	visit(v)
	// the extract itself sits right after the call
	start := ci.(ssa.Instruction)
	if e, ok := v.(ssa.Instruction); ok && e.Block() == start.Block() {
		start = e
	}
	idx := errIndex(fn.Signature)
	nonNil, _ := nonNilOracle(fn)
	return reachAvoiding(fn, start, func(x ssa.Instruction) bool { return uses[x] }, func(x ssa.Instruction) bool {
		if r, ok := x.(*ssa.Return); ok {
			if idx >= 0 && nonNil(returnOperand(r, idx), r.Block()) {
				return false // the path already reports another failure
			}
			return !uses[x]
		}
		if _, ok := x.(*ssa.Panic); ok {
			return false
		}
		return false
	})
}

// ---- C03-C1: a VNG column becomes a Const only on evidence that all its values have the same bytes.
//
// A Const vector stores one value for the whole column.  The evidence must be identity of the
// encoded bytes (a dictionary of distinct byte strings with exactly one entry, or a byte
// comparison): equality under the value order is weaker (0. and -0. compare equal, as do values
// the order does not separate), and a column mixing them would read back with every value
// replaced by the first.
func runConstColumnByteIdentity(c *Ctx, rule string) {
	p := c.P
	c.Rule(rule, "a vng.Const is built by PrimitiveEncoder only under a test of the byte-keyed dictionary's size (or a byte comparison), never merely under a comparison in the value order: const encoding needs identical bytes, which equality of min and max does not give (0. and -0.)")
	n := 0
	for _, fn := range p.FuncsIn("vng") {
		if fn.Signature.Recv() == nil || namedOf(fn.Signature.Recv().Type()) != "vng.PrimitiveEncoder" {
			continue
		}
		for _, b := range fn.Blocks {
			for _, in := range b.Instrs {
				al, ok := in.(*ssa.Alloc)
				if !ok || namedOf(al.Type()) != "vng.Const" {
					continue
				}
				n++
				construct := fnName(fn) + " builds a vng.Const"
				byBytes := false
				for d := b; d != nil; d = d.Idom() {
					id := d.Idom()
					if id == nil || len(id.Instrs) == 0 {
						continue
					}
					iff, ok := id.Instrs[len(id.Instrs)-1].(*ssa.If)
					if !ok {
						continue
					}
					if dependsOn(iff.Cond, func(v ssa.Value) bool {
						call, ok := v.(*ssa.Call)
						if !ok {
							return false
						}
						if bi, ok := call.Common().Value.(*ssa.Builtin); ok && bi.Name() == "len" {
							return dependsOn(call.Common().Args[0], func(x ssa.Value) bool {
								l, ok := x.(*ssa.UnOp)
								if !ok || l.Op != token.MUL {
									return false
								}
								fa, ok := l.X.(*ssa.FieldAddr)
								if !ok || fieldVarOf(fa) == nil {
									return false
								}
								mt, ok := fieldVarOf(fa).Type().Underlying().(*types.Map)
								if !ok {
									return false
								}
								kb, ok := mt.Key().Underlying().(*types.Basic)
								return ok && kb.Kind() == types.String
							})
						}
						switch calleeName(call.Common()) {
						case "bytes.Equal", "bytes.Compare":
							return true
						}
						return false
					}) {
						byBytes = true
					}
				}
				if byBytes {
					c.OK(rule, construct, al.Pos(), "under a test of the byte-keyed dictionary's size / a byte comparison")
				} else {
					c.Fail(rule, construct, al.Pos(), "the Const is built without a dominating test of the byte-keyed dictionary (len(p.dict)) or a byte comparison: values that are equal in the value order but differ in their bytes (0. and -0.) are collapsed into the first one, and the column does not read back as written")
				}
			}
		}
	}
	if n == 0 {
		c.Undecided(rule, "vng.PrimitiveEncoder", "no construction of vng.Const found in the encoder")
	}
}

// ---- C15-C1 (= C13-C1): the commit path cache holds only complete paths.
//
// commits.Store.Path hands out what it finds in s.paths as the whole leaf-to-root path of a
// commit, and PathRange splices a cached entry in as the rest of the path down to the root.
// An entry that stops at some ancestor (a PathRange result for `to` != Nil) silently truncates
// every later answer: revert replays a commit on an empty base, merge cannot find the common
// ancestor.  So every value stored into the cache must come from PathRange(.., ksuid.Nil).
func runPathCacheHoldsFullPaths(c *Ctx, rule string) {
	p := c.P
	c.Rule(rule, "every value added to commits.Store.paths is the result of PathRange called with to = ksuid.Nil (a complete leaf-to-root path): a path cut at an ancestor is never cached, because cached entries are handed out and spliced in as complete paths")
	n := 0
	for _, fn := range p.FuncsIn("lake/commits") {
		for _, ci := range allCalls(fn) {
			cc := ci.Common()
			if !strings.HasSuffix(calleeName(cc), ").Add") || len(cc.Args) < 3 {
				continue
			}
			// receiver is the load of field `paths`
			recvIsPaths := dependsOn(cc.Args[0], func(v ssa.Value) bool {
				l, ok := v.(*ssa.UnOp)
				if !ok || l.Op != token.MUL {
					return false
				}
				fa, ok := l.X.(*ssa.FieldAddr)
				return ok && fieldVarOf(fa) != nil && fieldVarOf(fa).Name() == "paths"
			})
			if !recvIsPaths {
				continue
			}
			n++
			construct := constructName(fn) + " adds to the path cache"
			full := false
			val := cc.Args[2]
			if dependsOn(val, func(v ssa.Value) bool {
				call, ok := v.(*ssa.Call)
				if !ok || calleeName(call.Common()) != "(*lake/commits.Store).PathRange" {
					return false
				}
				args := call.Common().Args
				l, ok := stripConv(args[len(args)-1]).(*ssa.UnOp)
				if !ok || l.Op != token.MUL {
					return false
				}
				g, ok := l.X.(*ssa.Global)
				return ok && g.Name() == "Nil"
			}) {
				full = true
			}
			if full {
				c.OK(rule, construct, ci.Pos(), "the cached value is PathRange(.., ksuid.Nil)")
			} else {
				c.Fail(rule, construct, ci.Pos(), "the value cached as the path of a commit is not the result of PathRange(.., ksuid.Nil): a path that stops at an ancestor is later returned by Path and spliced in by PathRange as if it reached the root, so a revert of that ancestor replays it on an empty base and a merge cannot locate the common ancestor")
			}
		}
	}
	if n == 0 {
		c.Undecided(rule, "commits.Store.paths", "no insertion into the path cache found")
	}
}

// ---- C11-V4: Validate checks the size of every primitive whose decoder faults on a wrong size.
//
// The primitive decoders of package zed trust the length of the body they are given:
// DecodeBool indexes byte 0, DecodeFloat16/32/64 read 2/4/8 bytes, DecodeIP and DecodeNet panic
// on an unexpected length.  Bytes from a ZNG stream reach them (through the ZSON/JSON/CSV
// formatters, comparisons, casts) after Value.Validate accepted the value, so Validate has to
// refuse a body of the wrong size.  The rule computes, on every run, the set of Decode<S>
// functions that can fault on the length (explicit panic, constant index, fixed-width
// binary read, none of them under a test of len) and requires that the validation visitor
// reaches a function that compares the type with Type<S> and looks at len of the body.
func runValidateChecksLeafSizes(c *Ctx, rule string) {
	p := c.P
	c.Rule(rule, "for every primitive decoder Decode<S>(zcode.Bytes) of package zed that faults on a body of the wrong length (explicit panic, constant index or fixed-width read not guarded by a test of len), the visitor of Value.Validate reaches a function that compares the type with Type<S> and tests len(body): validated input never makes a formatter or comparison panic on a leaf")
	val := p.Func("(super.Value).Validate")
	if val == nil {
		c.Undecided(rule, "(super.Value).Validate", "anchor does not resolve")
		return
	}
	reach := reachableStatic([]*ssa.Function{val}, func(f *ssa.Function) bool { return p.PkgOf(f) == "" })
	// Type<S> globals compared in functions that also take len() of a zcode.Bytes value
	checked := map[string]bool{}
	for f := range reach {
		hasLen := false
		for _, ci := range allCalls(f) {
			if bi, ok := ci.Common().Value.(*ssa.Builtin); ok && bi.Name() == "len" && strings.HasSuffix(ci.Common().Args[0].Type().String(), "zcode.Bytes") {
				hasLen = true
			}
		}
		if !hasLen {
			continue
		}
		for _, b := range f.Blocks {
			for _, in := range b.Instrs {
				bo, ok := in.(*ssa.BinOp)
				if !ok || bo.Op != token.EQL {
					continue
				}
				for _, side := range []ssa.Value{bo.X, bo.Y} {
					if g := globalLoaded(side); g != nil && strings.HasPrefix(g.Name(), "Type") {
						checked[strings.TrimPrefix(g.Name(), "Type")] = true
					}
				}
			}
		}
	}
	n := 0
	for _, fn := range p.FuncsIn("") {
		if fn.Parent() != nil || fn.Signature.Recv() != nil || !strings.HasPrefix(fn.Name(), "Decode") || len(fn.Params) != 1 {
			continue
		}
		if !strings.HasSuffix(fn.Params[0].Type().String(), "zcode.Bytes") {
			continue
		}
		prm := fn.Params[0]
		lenTested := func(at *ssa.BasicBlock) bool {
			for d := at; d != nil; d = d.Idom() {
				id := d.Idom()
				if id == nil || len(id.Instrs) == 0 {
					continue
				}
				if iff, ok := id.Instrs[len(id.Instrs)-1].(*ssa.If); ok {
					isLen := func(v ssa.Value) bool {
						call, ok := stripConv(v).(*ssa.Call)
						if !ok {
							return false
						}
						bi, ok := call.Common().Value.(*ssa.Builtin)
						return ok && bi.Name() == "len" && call.Common().Args[0] == prm
					}
					if bo, ok := iff.Cond.(*ssa.BinOp); ok && (isLen(bo.X) || isLen(bo.Y)) {
						return true
					}
				}
			}
			return false
		}
		faults := ""
		for _, b := range fn.Blocks {
			for _, in := range b.Instrs {
				switch x := in.(type) {
				case *ssa.Panic:
					if x.Pos().IsValid() && !lenTested(b) {
						faults = "explicit panic"
					}
				case *ssa.IndexAddr:
					if x.X == prm && !lenTested(b) {
						faults = "index into the body"
					}
				case *ssa.Index:
					if x.X == prm && !lenTested(b) {
						faults = "index into the body"
					}
				case *ssa.Call:
					nm := calleeName(x.Common())
					if strings.HasPrefix(nm, "(encoding/binary.littleEndian).Uint") || strings.HasPrefix(nm, "(encoding/binary.bigEndian).Uint") {
						for _, a := range x.Common().Args {
							if stripConv(a) == prm && !lenTested(b) {
								faults = "fixed-width read of the body"
							}
						}
					}
				}
			}
		}
		if faults == "" {
			continue
		}
		n++
		s := strings.TrimPrefix(fn.Name(), "Decode")
		construct := "super." + fn.Name() + " faults on a wrong-size body"
		if checked[s] {
			c.OK(rule, construct, fn.Pos(), faults+"; Validate compares the type with Type"+s+" and tests len(body)")
		} else {
			c.Fail(rule, construct, fn.Pos(), fn.Name()+" can fault on the length of its argument ("+faults+"), and nothing reachable from Value.Validate compares a type with Type"+s+" next to a test of len(body): a ZNG value of that type with a body of the wrong size is accepted by the validating reader and then panics in the ZSON/JSON formatter, a comparison or a cast")
		}
	}
	if n < 4 {
		c.Undecided(rule, "primitive decoders of package zed", "fewer than four length-faulting Decode functions found ("+sprint(n)+")")
	}
}

func globalLoaded(v ssa.Value) *ssa.Global {
	v = stripConv(v)
	if mi, ok := v.(*ssa.MakeInterface); ok {
		v = stripConv(mi.X)
	}
	if l, ok := v.(*ssa.UnOp); ok && l.Op == token.MUL {
		if g, ok := l.X.(*ssa.Global); ok {
			return g
		}
	}
	return nil
}

// ---- C16-K4 (= C14-K4): object and seek-index bounds are computed with the evaluator the sort uses.
//
// The lake sorts a load by the pool key evaluated as an expression (expr.NewDottedExpr: `a.b`
// indexes records *and maps* and looks through unions), and the pruner later compares a
// predicate on that same expression with the min/max stored for each object and seek-index
// entry.  If the writers take the key with zed.Value.DerefPath instead - which only descends
// through records and yields null for anything else - then a value whose key lives in a map or a
// union is recorded as key null: the object's range does not contain the key the query's
// predicate sees, and the object (or the seek range) is pruned although it holds matching values.
func runBoundsUseSortEvaluator(c *Ctx, rule string) {
	p := c.P
	c.Rule(rule, "no writer of the lake takes the pool key of a value with zed.Value.DerefPath (records only): bounds stored for pruning must come from the evaluator the sort and the query use (expr.NewDottedExpr, which also indexes maps and unions); witness: the import comparator is built from the sort expression")
	witness := false
	for _, fn := range p.FuncsIn("lake") {
		if fn.Name() == "ImportComparator" {
			witness = true
		}
	}
	if !witness {
		c.Undecided(rule, "lake.ImportComparator", "witness does not resolve")
	}
	n := 0
	for _, fn := range p.FuncsIn("lake", "lake/data", "lake/seekindex", "runtime/exec", "runtime/sam/op/meta") {
		if strings.HasSuffix(p.Pos(fn.Pos()), "_test.go") {
			continue
		}
		for _, ci := range allCalls(fn) {
			if calleeName(ci.Common()) != "(*super.Value).DerefPath" {
				continue
			}
			n++
			c.Fail(rule, constructName(fn)+" takes the pool key with DerefPath", ci.Pos(), "the key recorded for pruning is taken with Value.DerefPath, which yields null unless every step is a record, while the sort and the query evaluate the key as an expression that also indexes maps and unions: with pool key a.b, the load {a:{b:7}} {a:|{\"b\":1}|} {a:{b:5}} is stored with min null, `from p | a.b == 1` returns nothing although `from p | a.b >= 1` returns the map value, and `delete where a.b == 1` fails with an empty transaction")
		}
	}
	if n == 0 {
		c.OK(rule, "pool key extraction in the lake writers", token.NoPos, "no DerefPath on the write path")
	}
}

// ---- C10-J3: the join reuses its cached right-hand set under the join's own key comparison.
//
// join.Op.getJoinSet keeps the right records of the current key and hands them to every left
// record "with the same key".  Same must mean what the join's comparator means (it treats 1,
// 1(uint64) and 1. as equal, as the sorts on both inputs do): a cheaper identity test (type and
// bytes) misses the cache for a left record whose key is equal but of another type, after the
// right records for it were already consumed - inner joins lose pairs, anti joins emit matches.
func runJoinCacheUsesComparator(c *Ctx, rule string) {
	p := c.P
	c.Rule(rule, "in join.Op.getJoinSet every return of the cached join set is control-dependent on a call of the operator's own comparator (the `compare` field): keys that the join's order treats as equal share the cached right-hand records")
	fn := p.Func("(*runtime/sam/op/join.Op).getJoinSet")
	if fn == nil {
		c.Undecided(rule, "(*runtime/sam/op/join.Op).getJoinSet", "anchor does not resolve")
		return
	}
	isFieldLoadOf := func(v ssa.Value, name string) bool {
		l, ok := stripConv(v).(*ssa.UnOp)
		if !ok || l.Op != token.MUL {
			return false
		}
		fa, ok := l.X.(*ssa.FieldAddr)
		return ok && fieldVarOf(fa) != nil && fieldVarOf(fa).Name() == name
	}
	n := 0
	for _, b := range fn.Blocks {
		for _, in := range b.Instrs {
			ret, ok := in.(*ssa.Return)
			if !ok || len(ret.Results) == 0 || !isFieldLoadOf(returnOperand(ret, 0), "joinSet") {
				continue
			}
			n++
			byCmp := false
			for d := b; d != nil; d = d.Idom() {
				id := d.Idom()
				if id == nil || len(id.Instrs) == 0 {
					continue
				}
				iff, ok := id.Instrs[len(id.Instrs)-1].(*ssa.If)
				if !ok {
					continue
				}
				if dependsOn(iff.Cond, func(v ssa.Value) bool {
					call, ok := v.(*ssa.Call)
					return ok && !call.Common().IsInvoke() && isFieldLoadOf(call.Common().Value, "compare")
				}) {
					byCmp = true
				}
			}
			if byCmp {
				c.OK(rule, "getJoinSet returns the cached set", ret.Pos(), "under a test of o.compare")
			} else {
				c.Fail(rule, "getJoinSet returns the cached set", ret.Pos(), "the cached right-hand records are reused without consulting the join's comparator: a left key that is equal in the join's order but differs in type or bytes (1 and 1.) misses the cache after its right matches were consumed, so an inner join loses the pair and an anti join emits a row that has a match - the result differs from the naive nested-loop join")
			}
		}
	}
	if n == 0 {
		c.Undecided(rule, "(*runtime/sam/op/join.Op).getJoinSet", "no return of the cached join set found")
	}
}

// ---- C13-N1: a revision that parses as a commit ID is a commit ID.
//
// `from pool@<commit id>` is the immutable way to address a snapshot.  The semantic analyzer may
// ask the lake to resolve the revision string as a *name* (branch, tag) only after the string
// failed to parse as an ID; otherwise a branch that carries an ID-shaped name redirects an
// ID-addressed query to that branch's moving tip.
func runIDBeforeName(c *Ctx, rule string) {
	p := c.P
	c.Rule(rule, "in the semantic analyzer a caller-supplied revision string is handed to the name resolver (Source.CommitObject) only on the error edge of lakeparse.ParseID of that string: what parses as a commit ID always addresses that commit")
	n := 0
	for _, fn := range p.FuncsIn("compiler/semantic") {
		for _, ci := range allCalls(fn) {
			cc := ci.Common()
			if calleeName(cc) != "(*compiler/data.Source).CommitObject" {
				continue
			}
			name := cc.Args[len(cc.Args)-1]
			if _, isConst := stripConv(name).(*ssa.Const); isConst {
				continue // a fixed default ("main")
			}
			n++
			construct := constructName(fn) + " resolves a revision by name"
			blk := ci.(ssa.Instruction).Block()
			ok := false
			for d := blk; d != nil; d = d.Idom() {
				id := d.Idom()
				if id == nil || len(id.Instrs) == 0 {
					continue
				}
				iff, isIf := id.Instrs[len(id.Instrs)-1].(*ssa.If)
				if !isIf {
					continue
				}
				bo, isBin := iff.Cond.(*ssa.BinOp)
				if !isBin || bo.Op != token.NEQ || !(isNilConst(bo.X) || isNilConst(bo.Y)) {
					continue
				}
				e := bo.X
				if isNilConst(e) {
					e = bo.Y
				}
				ex, isEx := e.(*ssa.Extract)
				if !isEx {
					continue
				}
				call, isCall := ex.Tuple.(*ssa.Call)
				if !isCall || calleeName(call.Common()) != "lakeparse.ParseID" || stripConv(call.Common().Args[0]) != stripConv(name) {
					continue
				}
				if id.Succs[0].Dominates(blk) && len(id.Succs[0].Preds) == 1 {
					ok = true
				}
			}
			if ok {
				c.OK(rule, construct, ci.Pos(), "only after ParseID of the same string failed")
			} else {
				c.Fail(rule, construct, ci.Pos(), "the revision string is resolved as a name without ParseID having failed on it first: once a branch is named like a commit ID, `from pool@<that id>` follows the branch's tip instead of the immutable commit, so a query pinned to a commit sees later loads")
			}
		}
	}
	if n == 0 {
		c.Undecided(rule, "compiler/semantic", "no resolution of a caller-supplied revision found")
	}
}

// ---- C19-N1: the service resolves a pool name through the lake on every request.
//
// Direct access resolves `pool` against the pools journal each time it is used.  The service's
// Request.PoolID must do the same: an id it reports as found has to come from parsing the path
// element as an id or from lake.Root.PoolID in that very call.  An id remembered from an earlier
// request is wrong after a rename followed by reuse of the name: the service then vacuums or
// loads into the pool that used to carry the name.
func runServiceResolvesNamesFresh(c *Ctx, rule string) {
	p := c.P
	c.Rule(rule, "every id that (*service.Request).PoolID reports as found derives, in that call, from lakeparse.ParseID of the path element or from (*lake.Root).PoolID: names are resolved against the pools journal on every request, never from a memo")
	fn := p.Func("(*service.Request).PoolID")
	if fn == nil {
		c.Undecided(rule, "(*service.Request).PoolID", "anchor does not resolve")
		return
	}
	n := 0
	for _, b := range fn.Blocks {
		for _, in := range b.Instrs {
			ret, ok := in.(*ssa.Return)
			if !ok || len(ret.Results) != 2 {
				continue
			}
			if k, isConst := returnOperand(ret, 1).(*ssa.Const); isConst && k.Value != nil && k.Value.Kind() == constant.Bool && !constant.BoolVal(k.Value) {
				continue // not found
			}
			n++
			id := returnOperand(ret, 0)
			fresh := dependsOn(id, func(v ssa.Value) bool {
				call, ok := v.(*ssa.Call)
				if !ok {
					return false
				}
				switch calleeName(call.Common()) {
				case "lakeparse.ParseID", "(*lake.Root).PoolID":
					return true
				}
				return false
			})
			if fresh {
				c.OK(rule, "Request.PoolID reports an id", ret.Pos(), "parsed from the path or resolved by Root.PoolID in this call")
			} else {
				c.Fail(rule, "Request.PoolID reports an id", ret.Pos(), "the id returned as found is neither parsed from the path element nor resolved by lake.Root.PoolID in this call (it comes from remembered state): after `rename a b; create a`, requests for pool a through the service still act on the pool now called b (vacuum deletes its objects, a load lands in it) while direct access acts on the new pool")
			}
		}
	}
	if n == 0 {
		c.Undecided(rule, "(*service.Request).PoolID", "no successful return found")
	}
}

// ---- C16-T2: the pruner is built from the filter itself, not from a rewritten copy.
//
// C16-T1 evaluates the tables of buildRangePruner and shows: pruner(min,max) true implies no key
// in [min,max] satisfies the predicate *that buildRangePruner was given*.  That is a statement
// about the scan's filter only if the predicate handed to buildRangePruner is the filter.  A
// rewrite in between (De Morgan, complemented comparators, constant folding) needs its own
// equivalence argument - including keys that are null or not comparable with the literal, for
// which `not (k > c)` is true while `k <= c` is false - and T1 does not cover it.  So: the
// predicate argument of buildRangePruner in newRangePruner is newRangePruner's own parameter,
// and newRangePruner is called with the caller's parameter.
func runPrunerBuiltFromFilter(c *Ctx, rule string) {
	p := c.P
	c.Rule(rule, "the predicate handed to optimizer.buildRangePruner is the parameter of newRangePruner unchanged, and newRangePruner receives maybeNewRangePruner's parameter unchanged: no rewriting step stands between the scan's filter and the tables C16-T1 evaluates")
	check := func(fnName_, callee string) {
		fn := p.Func(fnName_)
		if fn == nil {
			c.Undecided(rule, fnName_, "anchor does not resolve")
			return
		}
		n := 0
		for _, ci := range allCalls(fn) {
			if calleeName(ci.Common()) != callee {
				continue
			}
			n++
			arg := stripConv(ci.Common().Args[0])
			if prm, ok := arg.(*ssa.Parameter); ok && prm == fn.Params[0] {
				c.OK(rule, fnName_+" -> "+callee, ci.Pos(), "the predicate is passed on unchanged")
			} else {
				c.Fail(rule, fnName_+" -> "+callee, ci.Pos(), "the predicate given to "+callee+" is not the function's own parameter (it is computed from it): the pruner is then built from a rewritten predicate, and the soundness argument of C16-T1 - which is about the predicate buildRangePruner receives - no longer says anything about the scan's filter (for a null or cross-type key `not (k > c)` holds while `k <= c` does not, so a pruner for the rewritten form skips objects holding such keys)")
			}
		}
		if n == 0 {
			c.Undecided(rule, fnName_, "no call of "+callee+" found")
		}
	}
	check("compiler/optimizer.newRangePruner", "compiler/optimizer.buildRangePruner")
	check("compiler/optimizer.maybeNewRangePruner", "compiler/optimizer.newRangePruner")
}

// ---- C20-K1: every step kind the shaper can create is handled when the step is applied.
//
// expr.createStep and its helpers build a tree of `step` values whose `op` field says what to do
// with a value of the input type; step.build (with buildRecord for the children of a record)
// dispatches on it and panics on an op it does not know.  The set of op constants stored into a
// step anywhere in the package must be covered by the constants step.build / buildRecord /
// buildArrayOrSet compare `op` with: a kind that is created but not applied makes fuse (whose
// second pass shapes every value) panic or copy bytes under the wrong type.
func runShaperStepKindsCovered(c *Ctx, rule string) {
	p := c.P
	c.Rule(rule, "every constant of type expr.op that is stored into a step's op field anywhere in package runtime/sam/expr is compared with the op field in step.build, step.buildRecord or step.buildArrayOrSet: no step kind is created that the applying side does not handle")
	isOpConst := func(v ssa.Value) (int64, bool) {
		k, ok := v.(*ssa.Const)
		if !ok || k.Value == nil || namedOf(k.Type()) != "runtime/sam/expr.op" || k.Value.Kind() != constant.Int {
			return 0, false
		}
		return k.Int64(), true
	}
	isOpField := func(addr ssa.Value) bool {
		fa, ok := addr.(*ssa.FieldAddr)
		return ok && fieldVarOf(fa) != nil && fieldVarOf(fa).Name() == "op" && strings.HasSuffix(namedOf(fa.X.Type()), "expr.step")
	}
	created := map[int64]token.Pos{}
	handled := map[int64]bool{}
	applying := map[string]bool{"(*runtime/sam/expr.step).build": true, "(*runtime/sam/expr.step).buildRecord": true, "(*runtime/sam/expr.step).buildArrayOrSet": true}
	found := 0
	for _, fn := range p.FuncsIn("runtime/sam/expr") {
		for _, b := range fn.Blocks {
			for _, in := range b.Instrs {
				switch x := in.(type) {
				case *ssa.Store:
					if k, ok := isOpConst(x.Val); ok && isOpField(x.Addr) {
						if _, seen := created[k]; !seen {
							created[k] = x.Pos()
						}
					}
				case *ssa.Call:
					// a kind handed to a step constructor as an argument (newArrayOrSetStep(.., array, ..))
					if g := x.Common().StaticCallee(); g != nil && p.PkgOf(g) == "runtime/sam/expr" {
						for _, a := range x.Common().Args {
							if k, ok := isOpConst(a); ok {
								if _, seen := created[k]; !seen {
									created[k] = x.Pos()
								}
							}
						}
					}
				case *ssa.BinOp:
					if !applying[fnName(fn)] || x.Op != token.EQL {
						continue
					}
					for _, side := range [][2]ssa.Value{{x.X, x.Y}, {x.Y, x.X}} {
						k, ok := isOpConst(side[0])
						if !ok {
							continue
						}
						if l, isLoad := side[1].(*ssa.UnOp); isLoad && l.Op == token.MUL && isOpField(l.X) {
							handled[k] = true
							found++
						} else if _, isParam := side[1].(*ssa.Parameter); isParam {
							handled[k] = true
						}
					}
				}
			}
		}
	}
	if len(created) < 5 || found < 5 {
		c.Undecided(rule, "expr.step kinds", "fewer than five created / compared op constants found ("+sprint(len(created))+"/"+sprint(found)+")")
		return
	}
	var ks []int64
	for k := range created {
		ks = append(ks, k)
	}
	sort.Slice(ks, func(i, j int) bool { return ks[i] < ks[j] })
	for _, k := range ks {
		name := opConstName(p, k)
		if handled[k] {
			c.OK(rule, "step kind "+name, created[k], "created and applied")
		} else {
			c.Fail(rule, "step kind "+name, created[k], "a step with op "+name+" is created but step.build/buildRecord/buildArrayOrSet never compare op with it: applying the step panics (unknown step.op) or treats the value as another kind, so fuse's second pass fails on inputs that need this step")
		}
	}
}

func opConstName(p *Prog, k int64) string {
	if pk := p.Pkgs["runtime/sam/expr"]; pk != nil {
		sc := pk.Types.Scope()
		for _, n := range sc.Names() {
			if cst, ok := sc.Lookup(n).(*types.Const); ok && namedOf(cst.Type()) == "runtime/sam/expr.op" {
				if v, ok := constant.Int64Val(cst.Val()); ok && v == k {
					return n
				}
			}
		}
	}
	return sprint(int(k))
}
