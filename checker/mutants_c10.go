package main

func init() {
	addMutants(
		Mutant{"C10", "c10-collect-nocopy", "runtime/sam/expr/agg/collect.go", "Collect.update",
			"c.values = append(c.values, val.Under().Copy())", "c.values = append(c.values, val.Under())", "C10-W1", "(*runtime/sam/expr/agg.Collect).Consume"},
		Mutant{"C10", "c10-any-nocopy", "runtime/sam/expr/agg/any.go", "Any.Consume",
			"*a = Any(val.Copy())", "*a = Any(val)", "C10-W1", "(*runtime/sam/expr/agg.Any).Consume"},
		Mutant{"C10", "c10-maxtablekey-nocopy", "runtime/sam/op/groupby/groupby.go", "Aggregator.updateMaxTableKey",
			"a.maxTableKey = val.Copy().Ptr()", "a.maxTableKey = val.Ptr()", "C10-W1", "(*runtime/sam/op/groupby.Aggregator).Consume"},
		Mutant{"C10", "c10-key-without-type", "runtime/sam/op/groupby/groupby.go", "Aggregator.Consume",
			"keyBytes = binary.AppendUvarint(keyBytes, uint64(keyType))", "_ = binary.AppendUvarint", "C10-K1", "table key"},
		Mutant{"C10", "c10-firstrec-nocopy", "runtime/sam/op/groupby/groupby.go", "Aggregator.nextResultFromSpills",
			"firstRec = rec.Copy().Ptr()", "firstRec = rec", "C10-W3", "nextResultFromSpills"},
		Mutant{"C10", "c10-joinset-nocopy", "runtime/sam/op/join/join.go", "Op.readJoinSet",
			"recs = append(recs, rec.Copy())", "recs = append(recs, *rec)", "C10-W3", "readJoinSet"},
		Mutant{"C10", "c10-leftrec-nocopy", "runtime/sam/op/join/join.go", "Op.Pull",
			"out = append(out, leftRec.Copy())", "out = append(out, *leftRec)", "C10-W3", "(*runtime/sam/op/join.Op).Pull"},
		Mutant{"C10", "c10-joinkey-alias", "runtime/sam/op/join/join.go", "Op.getJoinSet",
			"o.joinKey = leftKey.Copy().Ptr()", "o.joinKey = leftKey.Ptr()", "C10-W3", "getJoinSet"},
		Mutant{"C10", "c10-peeker-nocopy", "runtime/sam/op/spill/peeker.go", "peeker.read",
			"rec = rec.Copy().Ptr()", "_ = rec.Copy()", "C10-S3", "(*runtime/sam/op/spill.peeker).read"},
		Mutant{"C10", "c10-peeker-copy-after-read", "runtime/sam/op/spill/peeker.go", "peeker.read",
			"if rec != nil {\n\t\trec = rec.Copy().Ptr()\n\t}\n\tvar err error\n\tp.nextRecord, err = p.Read()", "var err error\n\tp.nextRecord, err = p.Read()\n\tif rec != nil {\n\t\trec = rec.Copy().Ptr()\n\t}", "C10-S3", "(*runtime/sam/op/spill.peeker).read"},
	)
}
