package main

import (
	"fmt"
	"go/token"
	"go/types"
	"strings"

	"golang.org/x/tools/go/ssa"
)

var errorType = types.Universe.Lookup("error").Type()

func isError(t types.Type) bool { return t != nil && types.Identical(t, errorType) }

// calleeName resolves the callee of a call through type information.
// Static calls: short function name.  Interface calls: "(iface).Method".
// Dynamic calls of function values: "" (see dynCallee).
func calleeName(c *ssa.CallCommon) string {
	if c.IsInvoke() {
		return short(c.Method.FullName())
	}
	if f := c.StaticCallee(); f != nil {
		return fnName(f)
	}
	if b, ok := c.Value.(*ssa.Builtin); ok {
		return "builtin." + b.Name()
	}
	return ""
}

// fnName is the short name of a function; instantiations of generics are
// named after their origin.
func fnName(f *ssa.Function) string {
	if o := f.Origin(); o != nil {
		f = o
	}
	return short(f.String())
}

// methodName returns the bare method/function name of the callee.
func calleeBare(c *ssa.CallCommon) string {
	if c.IsInvoke() {
		return c.Method.Name()
	}
	if f := c.StaticCallee(); f != nil {
		return f.Name()
	}
	return ""
}

// recvTypeString returns the receiver type of the callee ("*bytes.Buffer",
// "io.Writer"), or "".
func recvTypeString(c *ssa.CallCommon) string {
	if c.IsInvoke() {
		return short(types.TypeString(c.Value.Type(), nil))
	}
	if f := c.StaticCallee(); f != nil && f.Signature.Recv() != nil {
		return short(types.TypeString(f.Signature.Recv().Type(), nil))
	}
	return ""
}

func calleeSig(c *ssa.CallCommon) *types.Signature {
	return c.Signature()
}

// errIndex returns the index of the trailing error result of sig, or -1.
func errIndex(sig *types.Signature) int {
	r := sig.Results()
	if r.Len() == 0 {
		return -1
	}
	if isError(r.At(r.Len() - 1).Type()) {
		return r.Len() - 1
	}
	return -1
}

func isNilConst(v ssa.Value) bool {
	c, ok := v.(*ssa.Const)
	return ok && c.IsNil()
}

// allCalls returns every call instruction (call, defer, go) of fn.
func allCalls(fn *ssa.Function) []ssa.CallInstruction {
	var out []ssa.CallInstruction
	for _, b := range fn.Blocks {
		for _, in := range b.Instrs {
			if ci, ok := in.(ssa.CallInstruction); ok {
				out = append(out, ci)
			}
		}
	}
	return out
}

func instrIndex(in ssa.Instruction) int {
	for i, x := range in.Block().Instrs {
		if x == in {
			return i
		}
	}
	return -1
}

// dominates reports whether a is executed before b on every path to b.
func dominates(a, b ssa.Instruction) bool {
	if a.Block() == b.Block() {
		return instrIndex(a) < instrIndex(b)
	}
	return a.Block().Dominates(b.Block())
}

// reachAvoiding searches forward from just after `from` (or from the function
// entry if from is nil) for an instruction satisfying target, along paths on
// which no instruction satisfies avoid.  It returns the target reached or nil.
func reachAvoiding(fn *ssa.Function, from ssa.Instruction, avoid, target func(ssa.Instruction) bool) ssa.Instruction {
	type start struct {
		b *ssa.BasicBlock
		i int
	}
	var st start
	if from == nil {
		if len(fn.Blocks) == 0 {
			return nil
		}
		st = start{fn.Blocks[0], 0}
	} else {
		st = start{from.Block(), instrIndex(from) + 1}
	}
	seen := map[*ssa.BasicBlock]bool{}
	var walk func(b *ssa.BasicBlock, i int) ssa.Instruction
	walk = func(b *ssa.BasicBlock, i int) ssa.Instruction {
		for ; i < len(b.Instrs); i++ {
			in := b.Instrs[i]
			if target(in) {
				return in
			}
			if avoid(in) {
				return nil
			}
		}
		for _, s := range b.Succs {
			if seen[s] {
				continue
			}
			seen[s] = true
			if r := walk(s, 0); r != nil {
				return r
			}
		}
		return nil
	}
	return walk(st.b, st.i)
}

// reachAvoidingEdges is reachAvoiding with an edge filter: edgeOK(from,to)
// false prunes that CFG edge (used for branch-sensitive rules).
func reachAvoidingEdges(fn *ssa.Function, from ssa.Instruction, avoid, target func(ssa.Instruction) bool, edgeOK func(a, b *ssa.BasicBlock) bool) ssa.Instruction {
	var sb *ssa.BasicBlock
	si := 0
	if from == nil {
		sb = fn.Blocks[0]
	} else {
		sb, si = from.Block(), instrIndex(from)+1
	}
	seen := map[*ssa.BasicBlock]bool{}
	var walk func(b *ssa.BasicBlock, i int) ssa.Instruction
	walk = func(b *ssa.BasicBlock, i int) ssa.Instruction {
		for ; i < len(b.Instrs); i++ {
			in := b.Instrs[i]
			if target(in) {
				return in
			}
			if avoid(in) {
				return nil
			}
		}
		for _, s := range b.Succs {
			if seen[s] || (edgeOK != nil && !edgeOK(b, s)) {
				continue
			}
			seen[s] = true
			if r := walk(s, 0); r != nil {
				return r
			}
		}
		return nil
	}
	return walk(sb, si)
}

// stripConv removes interface/type conversions.
func stripConv(v ssa.Value) ssa.Value {
	for {
		switch x := v.(type) {
		case *ssa.MakeInterface:
			v = x.X
		case *ssa.ChangeInterface:
			v = x.X
		case *ssa.ChangeType:
			v = x.X
		case *ssa.Convert:
			v = x.X
		default:
			return v
		}
	}
}

// fieldPath describes an address/value as "recv.f.g" when it is a chain of
// field selections rooted at a parameter or free variable; "" otherwise.
func fieldPath(v ssa.Value) string {
	switch x := v.(type) {
	case *ssa.FieldAddr:
		base := fieldPath(x.X)
		if base == "" {
			return ""
		}
		return base + "." + fieldName(x.X.Type(), x.Field)
	case *ssa.Field:
		base := fieldPath(x.X)
		if base == "" {
			return ""
		}
		return base + "." + fieldName(x.X.Type(), x.Field)
	case *ssa.UnOp:
		if x.Op == token.MUL {
			return fieldPath(x.X)
		}
	case *ssa.Parameter:
		return x.Name()
	case *ssa.FreeVar:
		return x.Name()
	case *ssa.Alloc:
		return ""
	}
	return ""
}

func fieldName(t types.Type, i int) string {
	if p, ok := t.Underlying().(*types.Pointer); ok {
		t = p.Elem()
	}
	if s, ok := t.Underlying().(*types.Struct); ok && i < s.NumFields() {
		return s.Field(i).Name()
	}
	return "?"
}

// namedOf returns the "pkg.Name" of the (pointer to) named type t, or "".
func namedOf(t types.Type) string {
	if p, ok := t.(*types.Pointer); ok {
		t = p.Elem()
	}
	if n, ok := t.(*types.Named); ok {
		if n.Obj().Pkg() == nil {
			return n.Obj().Name()
		}
		return short(n.Obj().Pkg().Path()) + "." + n.Obj().Name()
	}
	return ""
}

func hasPrefixAny(s string, pre ...string) bool {
	for _, p := range pre {
		if strings.HasPrefix(s, p) {
			return true
		}
	}
	return false
}

// reachableStatic returns functions reachable from roots via static calls,
// closures created (MakeClosure) and method values, restricted by keep.
func reachableStatic(roots []*ssa.Function, keep func(*ssa.Function) bool) map[*ssa.Function]bool {
	seen := map[*ssa.Function]bool{}
	var work []*ssa.Function
	push := func(f *ssa.Function) {
		if f == nil || seen[f] || f.Blocks == nil || (keep != nil && !keep(f)) {
			return
		}
		seen[f] = true
		work = append(work, f)
	}
	for _, r := range roots {
		push(r)
	}
	for len(work) > 0 {
		f := work[len(work)-1]
		work = work[:len(work)-1]
		for _, b := range f.Blocks {
			for _, in := range b.Instrs {
				switch x := in.(type) {
				case ssa.CallInstruction:
					push(x.Common().StaticCallee())
				case *ssa.MakeClosure:
					if g, ok := x.Fn.(*ssa.Function); ok {
						push(g)
					}
				}
				for _, op := range in.Operands(nil) {
					if op == nil || *op == nil {
						continue
					}
					if g, ok := (*op).(*ssa.Function); ok {
						push(g)
					}
				}
			}
		}
	}
	return seen
}

func sprint(n int) string { return fmt.Sprint(n) }
