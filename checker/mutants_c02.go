package main

func init() {
	addMutants(
		Mutant{"C02", "c02-typebody-no-enum", "zson/formatter.go", "Formatter.formatTypeBody",
			"case *zed.TypeEnum:\n\t\tf.formatTypeEnum(typ)\n", "", "C02-K1", "formatTypeBody case super.TypeEnum"},
		Mutant{"C02", "c02-formatvalue-no-error", "zson/formatter.go", "Formatter.formatValue",
			"case *zed.TypeError:\n\t\tf.startColor(color.Red)\n\t\tf.build(\"error\")\n\t\tf.endColor()\n\t\tf.build(\"(\")\n\t\tf.formatValue(indent, t.Type, bytes, known, parentImplied, false)\n\t\tf.build(\")\")\n", "", "C02-K1", "formatValue case super.TypeError"},
		Mutant{"C02", "c02-typevalue-no-error-tag", "zson/formatter.go", "Formatter.formatTypeValue",
			"case zed.TypeValueError:", "case zed.TypeValueMax + 7:", "C02-K1", "formatTypeValue tag TypeValueError"},
		Mutant{"C02", "c02-primitive-no-net", "zson/formatter.go", "formatPrimitive",
			"case *zed.TypeOfNet:\n\t\tb.WriteString(zed.DecodeNet(bytes).String())\n", "", "C02-K1", "formatPrimitive case super.TypeOfNet"},
		Mutant{"C02", "c02-analyzer-no-map", "zson/analyzer.go", "Analyzer.convertAny",
			"case *astzed.Map:\n\t\treturn a.convertMap(zctx, val, cast)\n", "", "C02-K1", "convertAny case compiler/ast/zed.Map"},
		Mutant{"C02", "c02-build-no-enum", "zson/builder.go", "buildValue",
			"case *Enum:\n\t\treturn buildEnum(b, val)\n", "", "C02-K1", "buildValue case zson.Enum"},
		// C03
		Mutant{"C03", "c03-dict-512", "vng/primitive.go", "",
			"const MaxDictSize = 256", "const MaxDictSize = 512", "C03-B1", "vng.MaxDictSize"},
		Mutant{"C03", "c03-emit-order", "vng/array.go", "ArrayEncoder.Emit",
			"if err := a.lengths.Emit(w); err != nil {\n\t\treturn err\n\t}\n\treturn a.values.Emit(w)", "if err := a.values.Emit(w); err != nil {\n\t\treturn err\n\t}\n\treturn a.lengths.Emit(w)", "C03-O2", "vng.ArrayEncoder"},
		Mutant{"C03", "c03-nulls-metadata-order", "vng/nulls.go", "NullsEncoder.Emit",
			"if err := n.values.Emit(w); err != nil {\n\t\treturn err\n\t}\n\tif n.count != 0 {\n\t\treturn n.runs.Emit(w)\n\t}\n\treturn nil", "if n.count != 0 {\n\t\tif err := n.runs.Emit(w); err != nil {\n\t\t\treturn err\n\t\t}\n\t}\n\treturn n.values.Emit(w)", "C03-O2", "vng.NullsEncoder"},
		Mutant{"C03", "c03-position-before-endstream", "vng/writer.go", "Writer.finalize",
			"zw.EndStream()\n\tmetaSize := zw.Position()", "metaSize := zw.Position()\n\tzw.EndStream()", "C03-O1", "finalize"},
		Mutant{"C03", "c03-data-before-metadata", "vng/writer.go", "Writer.finalize",
			"// Metadata section\n\tif _, err := w.writer.Write(metaBuf.Bytes()); err != nil {\n\t\treturn fmt.Errorf(\"system error: could not write VNG metadata section: %w\", err)\n\t}\n\t// Data section\n\tif err := w.dynamic.Emit(w.writer); err != nil {\n\t\treturn fmt.Errorf(\"system error: could not write VNG data section: %w\", err)\n\t}", "// Data section\n\tif err := w.dynamic.Emit(w.writer); err != nil {\n\t\treturn fmt.Errorf(\"system error: could not write VNG data section: %w\", err)\n\t}\n\t// Metadata section\n\tif _, err := w.writer.Write(metaBuf.Bytes()); err != nil {\n\t\treturn fmt.Errorf(\"system error: could not write VNG metadata section: %w\", err)\n\t}", "C03-O1", "finalize"},
		Mutant{"C03", "c03-builder-no-const", "vng/builder.go", "NewBuilder",
			"case *Const:\n\t\treturn NewConstBuilder(meta), nil\n", "", "C03-K1", "vng.NewBuilder case vng.Const"},
		Mutant{"C03", "c03-encoder-no-map", "vng/encoder.go", "NewEncoder",
			"case *zed.TypeMap:\n\t\treturn NewNullsEncoder(NewMapEncoder(typ))\n", "", "C03-K1", "vng.NewEncoder kind super.TypeMap"},
	)
}
