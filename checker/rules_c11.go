package main

import (
	"go/types"
	"sort"
	"strings"

	"golang.org/x/tools/go/ssa"
)

// hasDeferredRecover: fn defers a closure (or function) that calls recover().
func hasDeferredRecover(fn *ssa.Function) bool {
	for _, b := range fn.Blocks {
		for _, in := range b.Instrs {
			d, ok := in.(*ssa.Defer)
			if !ok {
				continue
			}
			var g *ssa.Function
			switch v := d.Call.Value.(type) {
			case *ssa.MakeClosure:
				g, _ = v.Fn.(*ssa.Function)
			case *ssa.Function:
				g = v
			}
			if g == nil {
				g = d.Call.StaticCallee()
			}
			if g != nil && callsRecover(g) {
				return true
			}
		}
	}
	return false
}

func callsRecover(g *ssa.Function) bool {
	for _, b := range g.Blocks {
		for _, in := range b.Instrs {
			if c, ok := in.(*ssa.Call); ok {
				if bi, ok := c.Call.Value.(*ssa.Builtin); ok && bi.Name() == "recover" {
					return true
				}
			}
		}
	}
	return false
}

// panicking primitives of the value codec: they index/slice on lengths taken from the data.
var panickyPrimitives = map[string]bool{
	"(*zcode.Iter).Next": true, "(*zcode.Iter).NextTagAndBody": true, "zcode.DecodeTagLength": true,
	"zcode.tagLength": true, "(zcode.Bytes).Body": true,
}

type panicSite struct {
	fn   *ssa.Function
	pos  ssa.Instruction
	what string
	path []string
}

// uncontainedPanics explores what a goroutine root can reach (static calls and
// closures, inside the module) without passing a function that installs a
// deferred recover, and reports explicit panics, panicking codec primitives
// and calls through module interfaces (arbitrary evaluator code).
func uncontainedPanics(p *Prog, root *ssa.Function, maxDepth int) []panicSite {
	var out []panicSite
	seen := map[*ssa.Function]bool{}
	var visit func(f *ssa.Function, path []string, depth int)
	visit = func(f *ssa.Function, path []string, depth int) {
		if f == nil || seen[f] || f.Blocks == nil {
			return
		}
		seen[f] = true
		if hasDeferredRecover(f) {
			return // contains the panics of everything below it
		}
		if !strings.HasPrefix(pkgPathOf(f), modPath) {
			return
		}
		path = append(path, fnName(f))
		for _, b := range f.Blocks {
			for _, in := range b.Instrs {
				switch x := in.(type) {
				case *ssa.Panic:
					if !x.Pos().IsValid() {
						continue // synthetic (e.g. "blocking select matched no case")
					}
					out = append(out, panicSite{f, x, "explicit panic", append([]string{}, path...)})
				case *ssa.MakeClosure:
					if g, ok := x.Fn.(*ssa.Function); ok && depth < maxDepth {
						visit(g, path, depth+1)
					}
				case ssa.CallInstruction:
					cc := x.Common()
					if _, isGo := x.(*ssa.Go); isGo {
						continue // a goroutine of its own: its own obligation
					}
					name := calleeName(cc)
					if panickyPrimitives[name] {
						out = append(out, panicSite{f, x, "calls " + name + " (indexes by lengths taken from the data)", append([]string{}, path...)})
						continue
					}
					if cc.IsInvoke() {
						ip := ""
						if n, ok := cc.Value.Type().(*types.Named); ok && n.Obj().Pkg() != nil {
							ip = n.Obj().Pkg().Path()
						}
						if strings.HasPrefix(ip, modPath) && !benignIface[namedOf(cc.Value.Type())] && depth < maxDepth {
							for _, g := range p.implementersOfCall(cc) {
								visit(g, path, depth+1)
							}
						}
						continue
					}
					if g := cc.StaticCallee(); g != nil && depth < maxDepth {
						visit(g, path, depth+1)
					}
				}
			}
		}
	}
	visit(root, nil, 0)
	return out
}

// module interfaces whose implementations are trivial accessors.
var benignIface = map[string]bool{
	"super.Type": true,
}

func goRoots(fn *ssa.Function) []struct {
	g    *ssa.Go
	root *ssa.Function
} {
	var out []struct {
		g    *ssa.Go
		root *ssa.Function
	}
	for _, b := range fn.Blocks {
		for _, in := range b.Instrs {
			g, ok := in.(*ssa.Go)
			if !ok {
				continue
			}
			var r *ssa.Function
			switch v := g.Call.Value.(type) {
			case *ssa.MakeClosure:
				r, _ = v.Fn.(*ssa.Function)
			case *ssa.Function:
				r = v
			}
			if r == nil {
				r = g.Call.StaticCallee()
			}
			out = append(out, struct {
				g    *ssa.Go
				root *ssa.Function
			}{g, r})
		}
	}
	return out
}

var c11ReaderPkgs = []string{"zio", "zio/zngio", "zio/anyio", "zio/zsonio", "zio/zjsonio", "zio/jsonio", "zio/csvio", "zio/zeekio", "zio/lineio", "zio/vngio", "zio/arrowio", "zio/parquetio", "vng", "zson", "zcode", "pkg/peeker", "zbuf"}

func runC11G1(c *Ctx) {
	p := c.P
	n := 0
	for _, fn := range p.FuncsIn(c11ReaderPkgs...) {
		for _, gr := range goRoots(fn) {
			n++
			rootName := "dynamic"
			if gr.root != nil {
				rootName = constructName(gr.root)
				if gr.root.Parent() == nil {
					rootName = fnName(gr.root)
				}
			}
			construct := "goroutine " + rootName + " started in " + fnName(fn)
			if gr.root == nil {
				c.Fail("C11-G1", construct, gr.g.Pos(), "goroutine root is a function value that cannot be resolved")
				continue
			}
			if hasDeferredRecover(gr.root) {
				c.OK("C11-G1", construct, gr.g.Pos(), "root installs a deferred recover")
				continue
			}
			sites := uncontainedPanics(p, gr.root, 12)
			if len(sites) == 0 {
				c.OK("C11-G1", construct, gr.g.Pos(), "no explicit panic, panicking codec primitive or module-interface call is reachable outside a recover")
				continue
			}
			sort.Slice(sites, func(i, j int) bool { return len(sites[i].path) < len(sites[j].path) })
			s := sites[0]
			c.Fail("C11-G1", construct, gr.g.Pos(), "a panic in this goroutine is in no caller's stack, so no Catcher/recover contains it and the process dies; shortest path: "+strings.Join(s.path, " -> ")+" "+s.what+" at "+p.Pos(s.pos.Pos())+" ("+itoa(len(sites))+" such sites)")
		}
	}
	if n < 3 {
		c.Undecided("C11-G1", "goroutines on the reader path", "fewer than the 3 known go statements found")
	}
}

func itoa(n int) string {
	return sprint(n)
}

func runC11(c *Ctx, tier string) {
	c.Rule("C11-G1", "goroutines on the reader path contain their panics: the root has a deferred recover, or reaches (outside any recover) no explicit panic, panicking codec primitive or module-interface call")
	c.Rule("C11-N1", "decoder results are checked before use: the value returned by DecodeTypeValue/DecodeName/DecodeLength is used only on paths where the nil-rest failure indicator was tested")
	c.Rule("C11-A1", "untrusted sizes are bounded before allocation: an integer that originates in a uvarint / fixed-width integer read from the stream or in VNG file metadata reaches make/slices.Grow only after a dominating relational check")
	c.Rule("C11-A3", "each section size decoded from the VNG header is compared with a constant maximum in Header.Deserialize")
	c.Rule("C11-A2", "an untrusted uint64 is range-checked before (or sign-checked after) conversion to a signed int")
	c.Rule("C11-P1", "on the read path, an input-dependent type-context lookup error is returned, not raised: no panic(err) fed by Context.LookupType*, no MustLookupTypeRecord over field lists built from input")
	c.Rule("C11-O4", "no reader goroutine or consumer is left blocked: worker result protocol, buffered result channels, ctx.Done() arm in every blocking select, parser goroutine closes resultChCh")
	runC11G1(c)
	runC11A1(c)
	runC11P1(c)
	runC01Channels(c, "C11")
	runC11N1(c, append([]string{""}, c11ReaderPkgs...)...)
	runDecoderCursorBound(c, "C11-B1")
	runPullDoneStopsReader(c, "C11-O5")
	runRecursionDepthBounded(c, "C11-D1")
	runZeekTypesFillable(c, "C11-Z1")
	runEnumIndexBounded(c, "C11-E1")
	runStringDecoderCursor(c, "C11-S2")
	runReaderSanityTests(c, "C11-V2")
	runValidateDescendsIntoSets(c, "C11-V3")
	runValidateChecksLeafSizes(c, "C11-V4")
	runReadResultsNilTested(c, "C11-R2")
	runUntagLoopsStopAtNull(c, "C11-U1")
}

func init() {
	register(&PropertyDef{ID: "C11", Run: runC11,
		Explanation: "Decides structural clauses of crash/hang freedom on untrusted input: panic containment of reader goroutines (G1), decoder results tested before use (N1), untrusted sizes bounded before allocation (A1), input-dependent lookup errors returned not raised (P1), the zngio worker result protocol and cancellable channel operations (O4), a depth bound on every input-driven recursion of the readers and the query parser (D1), the Zeek parser producing only types its builder can fill (Z1), the ZJSON enum index bound (E1). Does NOT decide absence of implicit runtime panics (index out of range, nil map) on all byte strings, recursion over decoded structures (type depth of a ZNG typedef chain), or compile-time panics of the semantic analyzer.",
		Assumptions: []string{"stdlib interface implementations (io.Reader, context.Context) do not panic", "a function with a deferred recover contains the panics of everything it calls synchronously"}})
}

// C11-N1: the decoders signal failure by a nil `rest`; result #0 may only be
// used where rest was tested non-nil.
var c11Decoders = map[string]bool{
	"(*super.Context).DecodeTypeValue": true, "super.DecodeName": true, "super.DecodeLength": true,
}

func runC11N1(c *Ctx, pkgs ...string) {
	p := c.P
	n := 0
	for _, fn := range p.FuncsIn(pkgs...) {
		for _, ci := range allCalls(fn) {
			name := calleeName(ci.Common())
			if !c11Decoders[name] {
				continue
			}
			call, ok := ci.(*ssa.Call)
			if !ok {
				continue
			}
			n++
			var val, rest *ssa.Extract
			for _, r := range *call.Referrers() {
				if e, ok := r.(*ssa.Extract); ok {
					if e.Index == 0 {
						val = e
					} else {
						rest = e
					}
				}
			}
			construct := fnName(fn) + " -> " + name + " #" + sprint(siteOrdinal(fn, call, name))
			if val == nil || len(nonDebug(*val.Referrers())) == 0 {
				c.OK("C11-N1", construct, call.Pos(), "decoded value unused")
				continue
			}
			if rest == nil {
				c.Fail("C11-N1", construct, call.Pos(), "the decoded value is used but the failure indicator (nil rest) is discarded")
				continue
			}
			// comparisons of rest with nil
			var cmps []*ssa.BinOp
			for _, r := range *rest.Referrers() {
				if b, ok := r.(*ssa.BinOp); ok && (isNilConst(b.X) || isNilConst(b.Y)) {
					cmps = append(cmps, b)
				}
			}
			bad := ""
			for _, u := range nonDebug(*val.Referrers()) {
				guarded := false
				ub := u.Block()
				if phi, ok := u.(*ssa.Phi); ok {
					// the use is on the incoming edge
					for i, e := range phi.Edges {
						if e == ssa.Value(val) {
							ub = phi.Block().Preds[i]
						}
					}
				}
				for _, b := range cmps {
					if b.Op.String() == "==" && falseEdgeDominatesOrSelf(b, ub) {
						guarded = true
					}
					if b.Op.String() == "!=" && trueEdgeDominatesOrSelf(b, ub) {
						guarded = true
					}
				}
				if !guarded && canFault(val, u) {
					bad = p.Pos(u.Pos())
				}
			}
			if bad != "" {
				c.Fail("C11-N1", construct, call.Pos(), "the decoded value is used at "+bad+" on a path where the decoder's failure indicator (rest == nil) has not been tested: a truncated or corrupt type value yields a nil/zero result that is then dereferenced")
			} else {
				c.OK("C11-N1", construct, call.Pos(), "value used only after rest != nil")
			}
		}
	}
	if n < 15 {
		c.Undecided("C11-N1", "decoder call sites", "fewer than 15 decoder call sites found")
	}
}

// canFault: an unchecked use of a failed decoder's zero result that can fault
// or over-allocate: any use of a nil Type other than a nil test; an int used
// as an allocation size, index or slice bound.  Strings and compared ints are benign.
func canFault(val ssa.Value, use ssa.Instruction) bool {
	switch t := val.Type().Underlying().(type) {
	case *types.Interface, *types.Pointer:
		switch x := use.(type) {
		case *ssa.BinOp:
			return !(isNilConst(x.X) || isNilConst(x.Y))
		case *ssa.Phi, *ssa.Return:
			return false
		}
		return true
	case *types.Basic:
		if t.Info()&types.IsInteger == 0 {
			return false
		}
		switch x := use.(type) {
		case *ssa.MakeSlice, *ssa.MakeMap, *ssa.MakeChan:
			return true
		case *ssa.Slice:
			return x.Low == val || x.High == val || x.Max == val
		case *ssa.IndexAddr:
			return x.Index == val
		case *ssa.Index:
			return x.Index == val
		case *ssa.Convert, *ssa.ChangeType:
			for _, r := range *x.(ssa.Value).Referrers() {
				if canFault(x.(ssa.Value), r) {
					return true
				}
			}
		}
		return false
	}
	return false
}

func siteOrdinal(fn *ssa.Function, call *ssa.Call, name string) int {
	k := 0
	for _, ci := range allCalls(fn) {
		if calleeName(ci.Common()) == name {
			k++
			if ci == ssa.CallInstruction(call) {
				return k
			}
		}
	}
	return 0
}

// edge-dominance that also follows short-circuit chains: cond may feed an If
// directly; blocks reached only through the given edge are "dominated".
func trueEdgeDominatesOrSelf(cond ssa.Value, b *ssa.BasicBlock) bool { return edgeDom(cond, b, 0) }
func falseEdgeDominatesOrSelf(cond ssa.Value, b *ssa.BasicBlock) bool { return edgeDom(cond, b, 1) }

func edgeDom(cond ssa.Value, b *ssa.BasicBlock, succ int) bool {
	for _, r := range *cond.Referrers() {
		iff, ok := r.(*ssa.If)
		if !ok {
			continue
		}
		t := iff.Block().Succs[succ]
		other := iff.Block().Succs[1-succ]
		if len(t.Preds) == 1 && t.Dominates(b) {
			return true
		}
		// b is dominated by the If block and cannot be reached from the other edge
		if iff.Block().Dominates(b) && !reachesBlock(other, b, iff.Block()) {
			return true
		}
	}
	return false
}

// reachesBlock: is `to` reachable from `from` without passing through `stop`?
func reachesBlock(from, to, stop *ssa.BasicBlock) bool {
	seen := map[*ssa.BasicBlock]bool{stop: true}
	var walk func(x *ssa.BasicBlock) bool
	walk = func(x *ssa.BasicBlock) bool {
		if x == to {
			return true
		}
		if seen[x] {
			return false
		}
		seen[x] = true
		for _, s := range x.Succs {
			if walk(s) {
				return true
			}
		}
		return false
	}
	return walk(from)
}

var c11TaintPkgs = []string{"", "zio/zngio", "zio/vngio", "vng", "runtime/vcache", "pkg/peeker", "zio/zjsonio", "zio/anyio", "zio/arrowio"}

// numeric fields of structs that are unmarshalled from VNG file metadata.
func vngMetaField(t types.Type, field string) bool {
	n := namedOf(t)
	if !strings.HasPrefix(n, "vng.") {
		return false
	}
	switch strings.TrimPrefix(n, "vng.") {
	case "Segment", "Record", "Array", "Set", "Map", "Union", "Primitive", "Named", "Error", "Nulls", "Const", "Dynamic", "DictEntry":
		return true
	}
	return false
}

var c11A1Exempt = map[string]string{
	"(*super.MapperLookupCache).Lookup slices.Grow(…, n)": "the cache only grows after mapper.Lookup(id) returned a type, i.e. id is below the number of typedefs actually read from the stream (the code's own OOM guard; a semantic bound, not a comparison)",
}

func runC11A1(c *Ctx) {
	e := newTaintEngine(c.P, c11TaintPkgs, vngMetaField)
	reports, checked := e.sinks()
	seen := map[string]bool{}
	for _, r := range reports {
		rule := "C11-A1"
		msg := "an integer taken from untrusted input sizes this allocation without a dominating bound check against a constant, len() or a configured maximum"
		if r.kind == "convert" {
			rule = "C11-A2"
			msg = "an untrusted unsigned 64-bit value is converted to a signed int without a range check: values >= 2^63 become negative, pass upper-bound checks and reach slice bounds / allocation sizes"
		}
		construct := constructName(r.fn) + " " + r.what
		if seen[rule+construct] {
			continue
		}
		if why, ok := c11A1Exempt[construct]; ok {
			c.OK(rule, construct, r.in.Pos(), "exempt: "+why)
			continue
		}
		seen[rule+construct] = true
		c.Fail(rule, construct, r.in.Pos(), msg)
	}
	c.OK("C11-A1", "untrusted-size sinks with a dominating bound", 0, sprint(checked-len(reports))+" of "+sprint(checked)+" allocation / conversion sites fed by untrusted integers are bounded")
	c.extra("c11_tainted_values", len(e.tainted))
	// A3: the VNG header's section sizes are each bounded where they are decoded
	if fn := c.P.Func("(*vng.Header).Deserialize"); fn == nil {
		c.Undecided("C11-A3", "(*vng.Header).Deserialize", "anchor does not resolve")
	} else {
		for _, fld := range []string{"MetaSize", "DataSize"} {
			ok := false
			for _, b := range fn.Blocks {
				for _, in := range b.Instrs {
					cmp, isCmp := in.(*ssa.BinOp)
					if !isCmp {
						continue
					}
					switch cmp.Op.String() {
					case ">", ">=", "<", "<=":
					default:
						continue
					}
					_, cx := cmp.X.(*ssa.Const)
					_, cy := cmp.Y.(*ssa.Const)
					if (isFieldLoad(cmp.X, fld) && cy) || (isFieldLoad(cmp.Y, fld) && cx) {
						ok = true
					}
				}
			}
			if ok {
				c.OK("C11-A3", "vng.Header."+fld+" bounded in Deserialize", fn.Pos(), "compared with a constant maximum")
			} else {
				c.Fail("C11-A3", "vng.Header."+fld+" bounded in Deserialize", fn.Pos(), "the "+fld+" read from an untrusted header is never compared with a constant maximum; it later sizes a section reader / allocation")
			}
		}
	}
	if checked < 10 {
		c.Undecided("C11-A1", "taint sinks", "fewer than 10 allocation/conversion sites fed by untrusted integers were found")
	}
}

// C11-P1: on the read path a type-context lookup error that depends on input
// data must be returned, not raised.
var c11P1Pkgs = []string{"vng", "zio/vngio", "runtime/vcache", "zio/zngio", "zio/zjsonio", "zio/jsonio", "zio/csvio", "zio/zeekio", "zio/lineio", "zio/anyio", "zson"}

var c11P1Exempt = map[string]string{
	"(*zio/jsonio.builder).endRecord": "the panic is reached only when errors.As(err, *DuplicateFieldError) fails, and LookupTypeRecord has no other error",
}

func runC11P1(c *Ctx) {
	p := c.P
	n := 0
	validated := runVNGMetadataValidated(c, "C11-V1")
	// a site whose names / field lists come from VNG metadata is safe if the metadata was validated
	fromVNGMeta := func(fn *ssa.Function) bool {
		top := fn
		for top.Parent() != nil {
			top = top.Parent()
		}
		if p.PkgOf(top) == "runtime/vcache" {
			return true
		}
		return p.PkgOf(top) == "vng" && top.Name() == "Type" && top.Signature.Recv() != nil
	}
	for _, fn := range p.FuncsIn(c11P1Pkgs...) {
		name := constructName(fn)
		for _, b := range fn.Blocks {
			for _, in := range b.Instrs {
				switch x := in.(type) {
				case *ssa.Panic:
					src := lookupErrSource(x.X)
					if src == "" {
						continue
					}
					n++
					construct := name + " panic(err) after " + src
					if why, ok := c11P1Exempt[name]; ok {
						c.OK("C11-P1", construct, x.Pos(), "exempt: "+why)
						continue
					}
					if validated && fromVNGMeta(fn) {
						c.OK("C11-P1", construct, x.Pos(), "cannot fail: the VNG metadata it is built from was checked with the same lookup when the object was opened (C11-V1)")
						continue
					}
					c.Fail("C11-P1", construct, x.Pos(), "the error of "+src+" depends on input data (a type name / field list taken from the file) and is raised as a panic instead of being returned to the reader's caller")
				case *ssa.Call:
					if calleeName(x.Common()) == "(*super.Context).MustLookupTypeRecord" {
						n++
						construct := name + " -> MustLookupTypeRecord"
						if fieldsAreLiteral(x.Call.Args[1]) {
							c.OK("C11-P1", construct, x.Pos(), "field list is a literal of the program, not input data")
							continue
						}
						if validated && fromVNGMeta(fn) {
							c.OK("C11-P1", construct, x.Pos(), "cannot fail: the VNG metadata it is built from was checked with LookupTypeRecord when the object was opened (C11-V1)")
							continue
						}
						c.Fail("C11-P1", construct, x.Pos(), "MustLookupTypeRecord panics on duplicate field names, and the field list here is built from input data")
					}
				}
			}
		}
	}
	if n < 3 {
		c.Undecided("C11-P1", "lookup-error panic sites", "fewer than 3 candidate sites found")
	}
}

// lookupErrSource: v is (derived from) the error result of a zed.Context.LookupType* call.
func lookupErrSource(v ssa.Value) string {
	seen := map[ssa.Value]bool{}
	var visit func(v ssa.Value) string
	visit = func(v ssa.Value) string {
		if seen[v] {
			return ""
		}
		seen[v] = true
		switch x := v.(type) {
		case *ssa.MakeInterface:
			return visit(x.X)
		case *ssa.ChangeInterface:
			return visit(x.X)
		case *ssa.Phi:
			for _, e := range x.Edges {
				if s := visit(e); s != "" {
					return s
				}
			}
		case *ssa.Extract:
			if call, ok := x.Tuple.(*ssa.Call); ok {
				n := calleeName(call.Common())
				if strings.HasPrefix(n, "(*super.Context).LookupType") || strings.HasPrefix(n, "(*super.Context).TranslateType") || n == "(*super.Context).LookupByValue" {
					return n
				}
			}
		case *ssa.UnOp:
			// load of a local that was stored from such a call
			if a, ok := x.X.(*ssa.Alloc); ok {
				for _, r := range *a.Referrers() {
					if st, ok := r.(*ssa.Store); ok && st.Addr == a {
						if s := visit(st.Val); s != "" {
							return s
						}
					}
				}
			}
		}
		return ""
	}
	return visit(v)
}

// fieldsAreLiteral: the []Field argument is a composite literal whose names are constants.
func fieldsAreLiteral(v ssa.Value) bool {
	sl, ok := v.(*ssa.Slice)
	if !ok {
		return false
	}
	a, ok := sl.X.(*ssa.Alloc)
	if !ok {
		return false
	}
	for _, r := range *a.Referrers() {
		ia, ok := r.(*ssa.IndexAddr)
		if !ok {
			continue
		}
		for _, rr := range *ia.Referrers() {
			switch y := rr.(type) {
			case *ssa.FieldAddr:
				if fieldName(y.X.Type(), y.Field) == "Name" {
					for _, s := range *y.Referrers() {
						if st, ok := s.(*ssa.Store); ok {
							if _, isConst := st.Val.(*ssa.Const); !isConst {
								return false
							}
						}
					}
				}
			case *ssa.Store:
				// whole-struct store of a non-literal field
				if _, isConst := y.Val.(*ssa.Const); !isConst {
					if _, isCall := y.Val.(*ssa.Call); isCall {
						// zed.NewField(name, typ) etc.
						call := y.Val.(*ssa.Call)
						if len(call.Call.Args) > 0 {
							if _, isC := call.Call.Args[0].(*ssa.Const); !isC {
								return false
							}
						}
					}
				}
			}
		}
	}
	return true
}
