package main

import (
	"go/token"

	"golang.org/x/tools/go/ssa"
)

// errUse summarises what happens to an error value on all paths.
type errUse struct {
	returned bool // operand of a return
	stored   bool // stored to a field, global, captured variable, map/slice element, struct literal
	passed   bool // argument of some call (wrap, examine, report)
	sent     bool // sent on a channel
	panicked bool
	compared []*ssa.BinOp // comparisons with nil
	other    bool
}

func (u errUse) escapes() bool { return u.returned || u.stored || u.passed || u.sent || u.panicked || u.other }

// usesOfErr follows v through phis, conversions and local variables.
func usesOfErr(v ssa.Value) errUse {
	var u errUse
	seen := map[ssa.Value]bool{}
	var visit func(v ssa.Value)
	visit = func(v ssa.Value) {
		if seen[v] {
			return
		}
		seen[v] = true
		refs := v.Referrers()
		if refs == nil {
			return
		}
		for _, r := range *refs {
			switch x := r.(type) {
			case *ssa.Return:
				u.returned = true
			case *ssa.Phi:
				visit(x)
			case *ssa.MakeInterface:
				visit(x)
			case *ssa.ChangeInterface:
				visit(x)
			case *ssa.ChangeType:
				visit(x)
			case *ssa.TypeAssert:
				// errors.As-like inspection: the error is being examined
				u.passed = true
			case *ssa.BinOp:
				if (x.Op == token.EQL || x.Op == token.NEQ) && (isNilConst(x.X) || isNilConst(x.Y)) {
					u.compared = append(u.compared, x)
				} else {
					u.passed = true // compared with a sentinel: examined
				}
			case *ssa.Store:
				if x.Val != v {
					continue
				}
				if a, ok := x.Addr.(*ssa.Alloc); ok && !allocEscapes(a) {
					// local variable: follow its loads
					for _, ar := range *a.Referrers() {
						if l, ok := ar.(*ssa.UnOp); ok && l.Op == token.MUL {
							visit(l)
						}
					}
				} else {
					u.stored = true
				}
			case *ssa.Send:
				u.sent = true
			case *ssa.Panic:
				u.panicked = true
			case ssa.CallInstruction:
				u.passed = true
			case *ssa.MakeClosure:
				u.stored = true
			case *ssa.MapUpdate, *ssa.Slice:
				u.stored = true
			case *ssa.DebugRef:
			case *ssa.Extract:
			default:
				u.other = true
			}
		}
	}
	visit(v)
	return u
}

// allocEscapes reports whether a local variable's address is used for
// anything other than direct loads and stores (captured, passed, ...).
func allocEscapes(a *ssa.Alloc) bool {
	if a.Heap {
		// heap allocs are captured by closures or have their address taken
		for _, r := range *a.Referrers() {
			switch x := r.(type) {
			case *ssa.Store:
				if x.Addr != a {
					return true
				}
			case *ssa.UnOp, *ssa.DebugRef:
			default:
				return true
			}
		}
		return false
	}
	for _, r := range *a.Referrers() {
		switch x := r.(type) {
		case *ssa.Store:
			if x.Addr != a {
				return true
			}
		case *ssa.UnOp, *ssa.DebugRef:
		default:
			return true
		}
	}
	return false
}

// errValueOf returns the SSA value holding the error result of call, or nil
// if the program never materialises it (dropped).
func errValueOf(ci ssa.CallInstruction) ssa.Value {
	call, ok := ci.(*ssa.Call)
	if !ok {
		return nil // defer / go: result is discarded by construction
	}
	sig := call.Call.Signature()
	idx := errIndex(sig)
	if idx < 0 {
		return nil
	}
	if sig.Results().Len() == 1 {
		if call.Referrers() == nil || len(nonDebug(*call.Referrers())) == 0 {
			return nil
		}
		return call
	}
	for _, r := range *call.Referrers() {
		if e, ok := r.(*ssa.Extract); ok && e.Index == idx {
			if e.Referrers() == nil || len(nonDebug(*e.Referrers())) == 0 {
				return nil
			}
			return e
		}
	}
	return nil
}

func nonDebug(refs []ssa.Instruction) []ssa.Instruction {
	var out []ssa.Instruction
	for _, r := range refs {
		if _, ok := r.(*ssa.DebugRef); !ok {
			out = append(out, r)
		}
	}
	return out
}

// errVerdict classifies one error-returning call.
//   "propagated"  returned / stored / sent / passed on
//   "dropped"     result never looked at
//   "swallowed"   only ever compared with nil (checked, then discarded)
func errVerdict(ci ssa.CallInstruction) string {
	v := errValueOf(ci)
	if v == nil {
		return "dropped"
	}
	u := usesOfErr(v)
	if u.escapes() {
		return "propagated"
	}
	if len(u.compared) > 0 {
		return "swallowed"
	}
	return "dropped"
}
