package main

import (
	"go/token"
	"go/types"
	"sort"
	"strings"

	"golang.org/x/tools/go/ssa"
)

// panickingDispatch finds, in fn, explicit panics that are the default arm of a
// type dispatch on an interface value (a chain of failed comma-ok type
// assertions), and unchecked type assertions on such values.
type dispatchPanic struct {
	in      ssa.Instruction
	iface   string
	handled map[string]bool
	kind    string // "default-panic" | "unchecked-assert"
	target  string
}

func panickingDispatch(fn *ssa.Function, ifaces map[string]bool) []dispatchPanic {
	var out []dispatchPanic
	for _, b := range fn.Blocks {
		for _, in := range b.Instrs {
			switch x := in.(type) {
			case *ssa.TypeAssert:
				n := namedOf(x.X.Type())
				if !ifaces[n] || x.CommaOk {
					continue
				}
				if _, toIface := x.AssertedType.Underlying().(*types.Interface); toIface {
					continue
				}
				out = append(out, dispatchPanic{in: x, iface: n, kind: "unchecked-assert", target: short(x.AssertedType.String())})
			case *ssa.Panic:
				if !x.Pos().IsValid() {
					continue
				}
				// collect comma-ok asserts whose false edge dominates this block
				handled := map[string]bool{}
				iface := ""
				for _, bb := range fn.Blocks {
					for _, y := range bb.Instrs {
						ta, ok := y.(*ssa.TypeAssert)
						if !ok || !ta.CommaOk || !ifaces[namedOf(ta.X.Type())] {
							continue
						}
						for _, r := range *ta.Referrers() {
							ex, ok := r.(*ssa.Extract)
							if !ok || ex.Index != 1 {
								continue
							}
							if falseEdgeDominatesOrSelf(ex, b) {
								iface = namedOf(ta.X.Type())
								handled[namedOf(ta.AssertedType)] = true
							}
						}
					}
				}
				// not a default arm if the block lies inside some case (true edge of an assert)
				inCase := false
				for _, bb := range fn.Blocks {
					for _, y := range bb.Instrs {
						ta, ok := y.(*ssa.TypeAssert)
						if !ok || !ta.CommaOk || !ifaces[namedOf(ta.X.Type())] {
							continue
						}
						for _, r := range *ta.Referrers() {
							if ex, ok := r.(*ssa.Extract); ok && ex.Index == 1 && trueEdgeDominates(ex, b) {
								inCase = true
							}
						}
					}
				}
				if iface != "" && !inCase {
					out = append(out, dispatchPanic{in: x, iface: iface, handled: handled, kind: "default-panic"})
				}
			}
		}
	}
	return out
}

func runC09(c *Ctx, tier string) {
	p := c.P
	c.Rule("C09-G1", "vectorize only when every object has a vector: in Optimizer.Vectorize each vectorize() is dominated by a true isScanWithVectors; isScanWithVectors returns true only after a loop over the snapshot's objects in which a missing vector returns false, and not for an empty pool")
	c.Rule("C09-X1", "data-dependent dispatch never panics on the auto-vectorized path: no type switch over vector.Any / zed.Type / vng.Metadata reachable from the vectorized operators panics for an implementer it does not handle, and no unchecked type assertion is applied to a vector.Any")

	// G1
	vz := p.Func("(*compiler/optimizer.Optimizer).Vectorize")
	isw := p.Func("(*compiler/optimizer.Optimizer).isScanWithVectors")
	if vz == nil || isw == nil {
		c.Undecided("C09-G1", "Optimizer.Vectorize / isScanWithVectors", "anchors do not resolve")
	} else {
		n := 0
		fns := []*ssa.Function{vz}
		fns = append(fns, vz.AnonFuncs...)
		for _, fn := range fns {
			guards := callsTo(fn, "(*compiler/optimizer.Optimizer).isScanWithVectors")
			for _, ci := range callsTo(fn, "compiler/optimizer.vectorize") {
				n++
				ok := false
				for _, g := range guards {
					gc, isCall := g.(*ssa.Call)
					if !isCall {
						continue
					}
					for _, r := range *gc.Referrers() {
						if ex, isEx := r.(*ssa.Extract); isEx && ex.Index == 0 && trueEdgeDominatesOrSelf(ex, ci.(ssa.Instruction).Block()) {
							ok = true
						}
					}
				}
				if ok {
					c.OK("C09-G1", "Optimizer.Vectorize -> vectorize #"+sprint(n), ci.Pos(), "only when isScanWithVectors returned true")
				} else {
					c.Fail("C09-G1", "Optimizer.Vectorize -> vectorize #"+sprint(n), ci.Pos(), "a plan is vectorized on a path where isScanWithVectors did not return true: objects without a vector copy are silently skipped (or the scan fails), so adding/removing vectors changes results")
				}
			}
		}
		if n < 2 {
			c.Undecided("C09-G1", "Optimizer.Vectorize", "fewer than 2 vectorize() calls found")
		}
		// isScanWithVectors: the function that actually examines the snapshot may be isScanWithVectors
		// itself or a helper of the same package it calls (a refactoring must not raise an alarm).
		iswTop := isw
		var hv *ssa.Call
		var chain []*ssa.Function
		{
			var find func(fn *ssa.Function, depth int, path []*ssa.Function) bool
			find = func(fn *ssa.Function, depth int, path []*ssa.Function) bool {
				for _, ci := range allCalls(fn) {
					if cc := ci.Common(); cc.IsInvoke() && cc.Method.Name() == "HasVector" {
						hv, _ = ci.(*ssa.Call)
						chain = append(append([]*ssa.Function{}, path...), fn)
						return true
					}
				}
				if depth >= 2 {
					return false
				}
				for _, ci := range allCalls(fn) {
					callee := ci.Common().StaticCallee()
					if callee != nil && callee.Blocks != nil && p.PkgOf(callee) == "compiler/optimizer" && callee != fn {
						if find(callee, depth+1, append(path, fn)) {
							return true
						}
					}
				}
				return false
			}
			find(iswTop, 0, nil)
		}
		if hv != nil {
			isw = hv.Parent()
		}
		c.Rule("C09-G2", "the vectorize decision is computed from the snapshot of the scan's own commit on every call: the snapshot examined is Snapshot(scan.Commit), and whatever isScanWithVectors returns is a constant false or the result of that examination — never a remembered answer (vectors are per commit: another branch of the same pool may lack them)")
		if hv != nil {
			okCommit := false
			for _, ci := range allCalls(isw) {
				if calleeName(ci.Common()) == "(*lake.Pool).Snapshot" {
					for _, a := range ci.Common().Args {
						if dependsOn(a, func(v ssa.Value) bool {
							fa, ok := v.(*ssa.FieldAddr)
							return ok && namedOf(fa.X.Type()) == "compiler/ast/dag.SeqScan" && fieldName(fa.X.Type(), fa.Field) == "Commit"
						}) {
							okCommit = true
						}
					}
				}
			}
			if okCommit {
				c.OK("C09-G2", "vector check examines Snapshot(scan.Commit)", hv.Pos(), fnName(isw))
			} else {
				c.Fail("C09-G2", "vector check examines Snapshot(scan.Commit)", hv.Pos(), "the snapshot examined for vectors is not the snapshot of the scan's commit")
			}
			// every function on the chain above the examiner returns only false or the examiner's answer
			for i := 0; i+1 < len(chain); i++ {
				fn, next := chain[i], chain[i+1]
				bad := ""
				for _, b := range fn.Blocks {
					ret, ok := b.Instrs[len(b.Instrs)-1].(*ssa.Return)
					if !ok || len(ret.Results) == 0 {
						continue
					}
					seen := map[ssa.Value]bool{}
					var leaves func(v ssa.Value)
					leaves = func(v ssa.Value) {
						if seen[v] || bad != "" {
							return
						}
						seen[v] = true
						switch x := v.(type) {
						case *ssa.Const:
							if x.Value != nil && x.Value.String() == "true" {
								bad = "the constant true"
							}
						case *ssa.Phi:
							for _, e := range x.Edges {
								leaves(e)
							}
						case *ssa.Extract:
							if call, ok := x.Tuple.(*ssa.Call); ok && call.Call.StaticCallee() == next && x.Index == 0 {
								return
							}
							bad = "a value that does not come from " + fnName(next)
						default:
							bad = "a value that does not come from " + fnName(next) + " (" + short(v.String()) + ")"
						}
					}
					leaves(ret.Results[0])
				}
				construct := fnName(fn) + " returns the examiner's answer"
				if bad != "" {
					c.Fail("C09-G2", construct, fn.Pos(), "on some path the function returns "+bad+": a remembered or otherwise detached answer is used for this scan, so a scan of a commit whose objects lack vectors is vectorized (the query fails or skips data) because another commit of the same pool had them")
				} else {
					c.OK("C09-G2", construct, fn.Pos(), "false or the result of "+fnName(next))
				}
			}
		}
		retConst := func(in ssa.Instruction, want bool) bool {
			r, ok := in.(*ssa.Return)
			if !ok {
				return false
			}
			k, ok := r.Results[0].(*ssa.Const)
			return ok && k.Value != nil && (k.Value.String() == "true") == want
		}
		none := func(ssa.Instruction) bool { return false }
		switch {
		case hv == nil:
			c.Fail("C09-G1", "Optimizer.isScanWithVectors", isw.Pos(), "isScanWithVectors never asks the snapshot whether an object has a vector")
		default:
			inLoop := reachAvoiding(isw, hv, none, func(x ssa.Instruction) bool { return x == ssa.Instruction(hv) }) != nil
			// false edge of HasVector leads to return false without passing another HasVector
			falseRet := false
			for _, r := range *hv.Referrers() {
				if iff, ok := r.(*ssa.If); ok {
					fb := iff.Block().Succs[1]
					for _, in := range fb.Instrs {
						if retConst(in, false) {
							falseRet = true
						}
					}
				}
			}
			// no path to `return true` that avoids the HasVector check entirely
			skip := reachAvoiding(isw, nil, func(x ssa.Instruction) bool { return x == ssa.Instruction(hv) }, func(x ssa.Instruction) bool { return retConst(x, true) })
			// a true HasVector must not return true immediately (every object must be checked)
			early := false
			for _, r := range *hv.Referrers() {
				if iff, ok := r.(*ssa.If); ok {
					tb := iff.Block().Succs[0]
					for _, in := range tb.Instrs {
						if retConst(in, true) {
							early = true
						}
					}
				}
			}
			switch {
			case !inLoop:
				c.Fail("C09-G1", "Optimizer.isScanWithVectors", hv.Pos(), "HasVector is not evaluated in a loop over the snapshot's objects")
			case !falseRet:
				c.Fail("C09-G1", "Optimizer.isScanWithVectors", hv.Pos(), "an object without a vector does not make isScanWithVectors return false")
			case skip != nil && !hasEmptyGuard(isw, retConst):
				c.Fail("C09-G1", "Optimizer.isScanWithVectors", skip.Pos(), "isScanWithVectors can return true without having checked any object (e.g. an empty or unexamined pool)")
			case early:
				c.Fail("C09-G1", "Optimizer.isScanWithVectors", hv.Pos(), "isScanWithVectors returns true as soon as one object has a vector instead of requiring all")
			default:
				c.OK("C09-G1", "Optimizer.isScanWithVectors", hv.Pos(), "true only after every object of a non-empty snapshot was found to have a vector")
			}
		}
	}

	// X1
	// Only vector.Any: which vector kind carries a column (flat, const, dict, view, dynamic)
	// is chosen from the data's statistics, so it is genuinely input dependent.  Dispatch on
	// zed.Type / vng.Metadata inside the vector cache is constrained by what the VNG writer
	// produces and is not decided here.
	ifaces := map[string]bool{"vector.Any": true}
	var roots []*ssa.Function
	for _, fn := range p.FuncsIn("runtime/vam/op", "runtime/vam") {
		if fn.Parent() != nil || fn.Signature.Recv() == nil {
			continue
		}
		switch namedOf(fn.Signature.Recv().Type()) {
		case "runtime/vam/op.CountByString", "runtime/vam/op.Sum", "runtime/vam/op.Scanner", "runtime/vam.Materializer":
			roots = append(roots, fn)
		}
	}
	// the evaluators these operators construct (NewDotExpr(zctx, &This{}, name))
	for _, fn := range p.FuncsIn("runtime/vam/expr") {
		if fn.Parent() == nil && fn.Signature.Recv() != nil {
			switch namedOf(fn.Signature.Recv().Type()) {
			case "runtime/vam/expr.DotExpr", "runtime/vam/expr.This":
				roots = append(roots, fn)
			}
		}
	}
	if len(roots) < 6 {
		c.Undecided("C09-X1", "auto-vectorized operators", "fewer than 6 methods of CountByString/Sum/Scanner/Materializer found")
	}
	inScope := func(f *ssa.Function) bool {
		pk := p.PkgOf(f)
		return strings.HasPrefix(pk, "runtime/vam") || pk == "runtime/vcache" || pk == "vector"
	}
	// static reachability plus interface dispatch on vector.Any / vector.Puller / expr.Evaluator inside scope
	scope := map[*ssa.Function]bool{}
	work := append([]*ssa.Function{}, roots...)
	for len(work) > 0 {
		f := work[len(work)-1]
		work = work[:len(work)-1]
		if f == nil || scope[f] || f.Blocks == nil || !inScope(f) {
			continue
		}
		scope[f] = true
		for g := range reachableStatic([]*ssa.Function{f}, inScope) {
			if !scope[g] {
				work = append(work, g)
			}
		}
		for _, ci := range allCalls(f) {
			cc := ci.Common()
			if cc.IsInvoke() {
				n := namedOf(cc.Value.Type())
				if n == "vector.Any" {
					for _, g := range p.implementersOfCall(cc) {
						if !scope[g] {
							work = append(work, g)
						}
					}
				}
			}
		}
	}
	implCache := map[string][]string{}
	impls := func(iface string) []string {
		if r, ok := implCache[iface]; ok {
			return r
		}
		var pkg, name string
		i := strings.LastIndex(iface, ".")
		pkg, name = iface[:i], iface[i+1:]
		if pkg == "super" {
			pkg = ""
		}
		it := ifaceType(p, pkg, name)
		var r []string
		if it != nil {
			r = implementersOf(p, it, pkg)
		}
		implCache[iface] = r
		return r
	}
	var fns []*ssa.Function
	for f := range scope {
		fns = append(fns, f)
	}
	sort.Slice(fns, func(i, j int) bool { return fns[i].String() < fns[j].String() })
	nSites := 0
	for _, f := range fns {
		for _, d := range panickingDispatch(f, ifaces) {
			nSites++
			switch d.kind {
			case "unchecked-assert":
				if d.iface != "vector.Any" {
					continue
				}
				construct := constructName(f) + " asserts " + d.iface + ".(" + d.target + ")"
				c.Fail("C09-X1", construct, d.in.Pos(), "an unchecked type assertion on a vector whose kind depends on the data (const, dict, view, dynamic, int, …): the query crashes where the sequential runtime returns a result")
			case "default-panic":
				var missing []string
				for _, im := range impls(d.iface) {
					if !d.handled[im] {
						missing = append(missing, strings.TrimPrefix(im, "vector."))
					}
				}
				construct := constructName(f) + " dispatch on " + d.iface
				if len(missing) == 0 {
					c.OK("C09-X1", construct, d.in.Pos(), "default arm unreachable: every implementer has a case")
				} else {
					c.Fail("C09-X1", construct, d.in.Pos(), "the default arm panics and "+sprint(len(missing))+" implementers of "+d.iface+" have no case ("+strings.Join(missing, ", ")+"): data of those kinds crashes the vector runtime where the sequential runtime answers")
				}
			}
		}
	}
	c.extra("c09_scope_functions", len(scope))
	if nSites == 0 {
		c.Undecided("C09-X1", "vector dispatch sites", "no dispatch site found in scope")
	}
	_ = token.NoPos
	runDictNulls(c, "C09-N1")
	runVamEncodingCoverage(c, "C09-X2")
	runVectorizeDeclinesFilter(c, "C09-G3")
	runSingleFieldShape(c, "C09-G4")
	runVectorSumExact(c, "C09-S1")
	runVectorCountAccumulates(c, "C09-A1")
	runVectorizeDeclinesSliced(c, "C09-G5")
	runVectorCountReadsNulls(c, "C09-N2")
	runBitmapWordLoops(c, "C09-B1")
	runBitmapShiftCounts(c, "C09-B2")
	c.borrow(func(t *Ctx) { runVcacheLoadsWhatItProjects(t, "C03-P2") }, map[string]string{"C03-P2": "C09-P2"})
	runVamVectorsOwnTheirSlices(c, "C09-V1")
}

func init() {
	register(&PropertyDef{ID: "C09", Run: runC09,
		Explanation: "Decides structural conditions of vector/sequential agreement: the planner vectorizes only under a dominating all-objects-have-vectors guard (G1) and data-dependent dispatch on the auto-vectorized path does not panic for kinds it does not handle (X1; violated today in the prototype vam aggregates: genuine known findings). Does NOT decide equality of results between runtimes.",
		Assumptions: []string{"scope: functions reachable (static calls + dispatch on vector.Any / vam Evaluator) from CountByString, Sum, the vam scanner and the materializer"}})
}

// hasEmptyGuard: `if len(x) == 0 { return false }` dominates every `return true`.
func hasEmptyGuard(fn *ssa.Function, retConst func(ssa.Instruction, bool) bool) bool {
	for _, b := range fn.Blocks {
		for _, in := range b.Instrs {
			cmp, ok := in.(*ssa.BinOp)
			if !ok || cmp.Op != token.EQL {
				continue
			}
			k, isK := cmp.Y.(*ssa.Const)
			call, isLen := cmp.X.(*ssa.Call)
			if !isK || !isLen || k.Value == nil || k.Int64() != 0 {
				continue
			}
			if bi, ok := call.Call.Value.(*ssa.Builtin); !ok || bi.Name() != "len" {
				continue
			}
			for _, r := range *cmp.Referrers() {
				iff, ok := r.(*ssa.If)
				if !ok {
					continue
				}
				retFalse := false
				for _, x := range iff.Block().Succs[0].Instrs {
					if retConst(x, false) {
						retFalse = true
					}
				}
				if !retFalse {
					continue
				}
				all := true
				for _, bb := range fn.Blocks {
					for _, x := range bb.Instrs {
						if retConst(x, true) && !iff.Block().Dominates(bb) {
							all = false
						}
					}
				}
				if all {
					return true
				}
			}
		}
	}
	return false
}
