package main

import (
	"go/types"
	"sort"

	"golang.org/x/tools/go/ssa"
)

// dependsOn: does the computation of v (its backward slice within the function) include an instruction satisfying pred?
func dependsOn(v ssa.Value, pred func(ssa.Value) bool) bool {
	seen := map[ssa.Value]bool{}
	var visit func(v ssa.Value) bool
	visit = func(v ssa.Value) bool {
		if v == nil || seen[v] {
			return false
		}
		seen[v] = true
		if pred(v) {
			return true
		}
		in, ok := v.(ssa.Instruction)
		if !ok {
			return false
		}
		for _, op := range in.Operands(nil) {
			if op != nil && *op != nil && visit(*op) {
				return true
			}
		}
		// local objects (variables, composite literals, varargs arrays): follow what is stored into them
		if a, ok := v.(*ssa.Alloc); ok {
			for _, r := range *a.Referrers() {
				switch x := r.(type) {
				case *ssa.Store:
					if x.Addr == a && visit(x.Val) {
						return true
					}
				case *ssa.FieldAddr, *ssa.IndexAddr:
					for _, rr := range *x.(ssa.Value).Referrers() {
						if st, ok := rr.(*ssa.Store); ok && st.Addr == x.(ssa.Value) && visit(st.Val) {
							return true
						}
					}
				}
			}
		}
		return false
	}
	return visit(v)
}

func aggNoRetain(c *Ctx, rule string) {
	p := c.P
	af := ifaceType(p, "runtime/sam/expr/agg", "Function")
	if af == nil {
		c.Undecided(rule, "agg.Function", "anchor interface does not resolve")
		return
	}
	var fns []*ssa.Function
	for _, fn := range p.FuncsIn("runtime/sam/expr/agg") {
		if fn.Parent() != nil || fn.Signature.Recv() == nil || (fn.Name() != "Consume" && fn.Name() != "ConsumeAsPartial") {
			continue
		}
		if types.Implements(fn.Signature.Recv().Type(), af) || types.Implements(types.NewPointer(fn.Signature.Recv().Type()), af) {
			fns = append(fns, fn)
		}
	}
	sort.Slice(fns, func(i, j int) bool { return fns[i].String() < fns[j].String() })
	for _, fn := range fns {
		checkNoRetain(c, rule, fn, 1, "aggregate state must not alias input batches (groupby releases each batch right after Consume)")
	}
	if len(fns) < 20 {
		c.Undecided(rule, "agg.Function implementers", "fewer than 20 Consume/ConsumeAsPartial methods found")
	}
	if fn := p.Func("(*runtime/sam/op/groupby.Aggregator).Consume"); fn == nil {
		c.Undecided(rule, "(*runtime/sam/op/groupby.Aggregator).Consume", "anchor does not resolve")
	} else {
		checkNoRetain(c, rule, fn, 2, "group keys and table rows must not alias the input batch")
	}
}

func runC10(c *Ctx, tier string) {
	p := c.P
	runJoinCacheUsesComparator(c, "C10-J3")
	c.Rule("C10-W1", "aggregate state does not alias input: no agg.Function Consume/ConsumeAsPartial, nor groupby.Aggregator.Consume, retains its argument or anything derived from it without a copy")
	c.Rule("C10-K1", "group identity includes the key types: the string that indexes the group table depends on both the flattened key bytes and keyTypes.Lookup(types)")
	c.Rule("C10-W3", "zio.Reader ownership in join/spill/groupby/fuse: a value from Read/Peek is copied before it escapes or before the next Read on that reader")
	c.Rule("C10-S3", "spill.peeker.read copies nextRecord before it advances the file")
	c.Rule("C10-P1", "partial forms are total: no ConsumeAsPartial/ResultAsPartial of a parallelisable aggregate is a stub that only panics")
	aggNoRetain(c, "C10-W1")
	// K1
	if fn := p.Func("(*runtime/sam/op/groupby.Aggregator).Consume"); fn != nil {
		n := 0
		for _, b := range fn.Blocks {
			for _, in := range b.Instrs {
				var key ssa.Value
				switch x := in.(type) {
				case *ssa.Lookup:
					if isFieldLoad(x.X, "table") {
						key = x.Index
					}
				case *ssa.MapUpdate:
					if isFieldLoad(x.Map, "table") {
						key = x.Key
					}
				}
				if key == nil {
					continue
				}
				n++
				hasType := dependsOn(key, func(v ssa.Value) bool {
					call, ok := v.(*ssa.Call)
					return ok && calleeBare(call.Common()) == "Lookup" && namedOf(recvType(call.Common())) == "super.TypeVectorTable"
				})
				hasBytes := dependsOn(key, func(v ssa.Value) bool {
					call, ok := v.(*ssa.Call)
					return ok && calleeName(call.Common()) == "zcode.Append"
				})
				construct := "(*runtime/sam/op/groupby.Aggregator).Consume table key #" + sprint(n)
				if hasType && hasBytes {
					c.OK("C10-K1", construct, in.Pos(), "depends on the key bytes and on keyTypes.Lookup(types)")
				} else {
					c.Fail("C10-K1", construct, in.Pos(), "the group-table key does not depend on both the flattened key values and the vector of key types: keys with equal bytes but different types (1 vs 1.0-as-bytes, \"\" vs null containers) would share a group")
				}
			}
		}
		if n < 2 {
			c.Undecided("C10-K1", "(*runtime/sam/op/groupby.Aggregator).Consume", "group table lookup/insert not found")
		}
	} else {
		c.Undecided("C10-K1", "(*runtime/sam/op/groupby.Aggregator).Consume", "anchor does not resolve")
	}
	// W3
	runReaderLifetime(c, "C10-W3", "runtime/sam/op/join", "runtime/sam/op/groupby", "runtime/sam/op/spill", "runtime/sam/op/fuse", "runtime/sam/op/sort", "runtime/sam/op/merge", "zio")
	// S3
	spillPeekerCopy(c, "C10-S3")
	// P1
	aggPartialsTotal(c, "C10-P1")
	// P2
	c.Rule("C10-P2", "partials are consumed element by element independently: in every function of the aggregate package that iterates container elements, no zed.Type derived from one element is carried (loop-header phi) into the decoding of the next")
	runElementIndependence(c, "C10-P2", "runtime/sam/expr/agg")
	runJoinSidesSwapTogether(c, "C10-J1")
	runJoinDirDeclared(c, "C10-J2")
	runSpillPartialsPairing(c, "C10-S4")
	runPartialOutputForm(c, "C10-S5")
	runGroupRowStamp(c, "C10-R1")
	runSpillRunsShareContext(c, "C10-X1")
	runPartialRecombinationNoPanic(c, "C10-P3")
	runSpillKeyOrderTotal(c, "C10-K2")
	runInputSortDirFirstKeyOnly(c, "C10-I1")
	runMathReducerPromotion(c, "C10-M2")
	runNullPartialsAccepted(c, "C10-P4")
}

func recvType(cc *ssa.CallCommon) types.Type {
	if cc.IsInvoke() {
		return cc.Value.Type()
	}
	if f := cc.StaticCallee(); f != nil && f.Signature.Recv() != nil {
		return f.Signature.Recv().Type()
	}
	return types.Typ[types.Invalid]
}

func spillPeekerCopy(c *Ctx, rule string) {
	p := c.P
	fn := p.Func("(*runtime/sam/op/spill.peeker).read")
	if fn == nil {
		c.Undecided(rule, "(*runtime/sam/op/spill.peeker).read", "anchor does not resolve")
		return
	}
	// the returned record must not be (derived uncopied from) the nextRecord field, and the copy precedes the file read
	var srcs []ssa.Value
	for _, b := range fn.Blocks {
		for _, in := range b.Instrs {
			if u, ok := in.(*ssa.UnOp); ok && isFieldLoad(u, "nextRecord") {
				srcs = append(srcs, u)
			}
		}
	}
	e := newOwnEngine(p)
	e.returnIsSink = true
	e.run(fn, srcs, nil, 0)
	var copyCall, readCall ssa.Instruction
	for _, ci := range allCalls(fn) {
		switch {
		case calleeName(ci.Common()) == "(super.Value).Copy":
			copyCall = ci.(ssa.Instruction)
		case calleeBare(ci.Common()) == "Read":
			readCall = ci.(ssa.Instruction)
		}
	}
	none := func(ssa.Instruction) bool { return false }
	switch {
	case len(srcs) == 0 || readCall == nil:
		c.Undecided(rule, "(*runtime/sam/op/spill.peeker).read", "nextRecord load / file Read not found")
	case len(e.reports) > 0:
		c.Fail(rule, "(*runtime/sam/op/spill.peeker).read", e.reports[0].in.Pos(), "the record returned to the merge is the reader-owned nextRecord itself, which the file's next Read overwrites")
	case copyCall == nil || reachAvoiding(fn, readCall, none, func(x ssa.Instruction) bool { return x == copyCall }) != nil:
		c.Fail(rule, "(*runtime/sam/op/spill.peeker).read", fn.Pos(), "nextRecord is copied after (or not before) the file is advanced")
	default:
		c.OK(rule, "(*runtime/sam/op/spill.peeker).read", copyCall.Pos(), "copy of nextRecord taken before the file's Read")
	}
}

// aggPartialsTotal: every aggregate the compiler may split into partials has real partial forms.
func aggPartialsTotal(c *Ctx, rule string) {
	p := c.P
	pk := p.Pkgs["runtime/sam/expr/agg"]
	if pk == nil {
		c.Undecided(rule, "runtime/sam/expr/agg", "package not loaded")
		return
	}
	n := 0
	for _, fn := range p.FuncsIn("runtime/sam/expr/agg") {
		if fn.Parent() != nil || fn.Signature.Recv() == nil || (fn.Name() != "ConsumeAsPartial" && fn.Name() != "ResultAsPartial") {
			continue
		}
		n++
		d := p.Decl(fn)
		construct := fnName(fn)
		if d != nil && d.Body != nil && len(d.Body.List) >= 1 && stmtsPanic(pk.TypesInfo, d.Body.List[:1]) {
			c.Fail(rule, construct, fn.Pos(), "the partial form is a stub that panics: a parallel (or spilled) aggregation using this function crashes instead of agreeing with the sequential result")
		} else {
			c.OK(rule, construct, fn.Pos(), "implemented")
		}
	}
	if n < 20 {
		c.Undecided(rule, "partial forms", "fewer than 20 ConsumeAsPartial/ResultAsPartial methods found")
	}
}

func init() {
	register(&PropertyDef{ID: "C10", Run: runC10,
		Explanation: "Decides structural conditions behind memory-limit independence of aggregation and join: aggregate and group state never alias input batches (W1), the group key includes the key types (K1), values obtained from spill files and join inputs are copied before the reader overwrites them or before they escape (W3, S3), partial forms exist for every aggregate (P1). Does NOT decide the aggregates' arithmetic, partial composition, sorted-input early release or join semantics.",
		Assumptions: []string{"zio.Reader contract: a value is valid until the next Read on the same reader", "calls leaving the package do not retain arguments"}})
}

// runElementIndependence: C10-P2.  When a partial (or any container) is consumed element by
// element, how element k is decoded must not depend on what element k-1 decoded to: the
// type used for an element comes from the container's type, never from a variable carried
// around the loop.
func runElementIndependence(c *Ctx, rule string, pkgs ...string) {
	p := c.P
	n := 0
	for _, fn := range p.FuncsIn(pkgs...) {
		// loops that iterate a zcode.Iter
		var nexts []*ssa.Call
		for _, ci := range allCalls(fn) {
			if calleeName(ci.Common()) == "(*zcode.Iter).Next" {
				if call, ok := ci.(*ssa.Call); ok && inCycle(fn, call) {
					nexts = append(nexts, call)
				}
			}
		}
		if len(nexts) == 0 {
			continue
		}
		n++
		bad := false
		for _, b := range fn.Blocks {
			for _, in := range b.Instrs {
				phi, ok := in.(*ssa.Phi)
				if !ok || namedOf(phi.Type()) != "super.Type" {
					continue
				}
				// a loop-header phi: some incoming edge comes from a block that the phi's block reaches
				for i, e := range phi.Edges {
					pred := b.Preds[i]
					back := pred == b || reachesBlock(b, pred, nil)
					if !back || !b.Dominates(pred) {
						continue
					}
					// the carried value is computed from an element of the iteration
					fromElem := dependsOn(e, func(v ssa.Value) bool {
						for _, nx := range nexts {
							if v == ssa.Value(nx) {
								return true
							}
						}
						return false
					})
					if fromElem {
						bad = true
						c.Fail(rule, constructName(fn)+" element decoding", phi.Pos(), "the type used to decode an element is carried over from the previous element (it was derived from that element's bytes): after the first union-typed element is untagged, later elements are interpreted with the wrong type, so a partial result is recombined into garbage")
					}
				}
			}
		}
		if !bad {
			c.OK(rule, constructName(fn)+" element decoding", fn.Pos(), "no element-derived type is carried across iterations")
		}
	}
	if n < 3 {
		c.Undecided(rule, "element loops", "fewer than 3 functions iterating container elements found")
	}
}
