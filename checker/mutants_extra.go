package main

func init() {
	addMutants(
		Mutant{"C02", "c02-savetype-first-wins", "zson/formatter.go", "Formatter.saveType",
			"f.typedefs[name] = named\n", "if _, ok := f.typedefs[name]; !ok {\n\t\tf.typedefs[name] = named\n\t}\n", "C02-K2", "saveType updates"},
		Mutant{"C02", "c02-analyzer-first-wins", "zson/analyzer.go", "Analyzer.enterTypeDef",
			"\ta[name] = typ\n", "\tif _, ok := a[name]; !ok {\n\t\ta[name] = typ\n\t}\n", "C02-K2", "enterTypeDef updates"},
		Mutant{"C03", "c03-dict-bound-before-insert", "vng/primitive.go", "PrimitiveEncoder.update",
			"p.dict[string(body)]++\n\t\tif len(p.dict) > MaxDictSize {\n\t\t\tp.dict = nil\n\t\t}", "if len(p.dict) > MaxDictSize {\n\t\t\tp.dict = nil\n\t\t} else {\n\t\t\tp.dict[string(body)]++\n\t\t}", "C03-B1", "dictionary insert"},
		Mutant{"C06", "c06-sentinel-max-untested", "runtime/sam/expr/sort.go", "Comparator.sortStableIndices",
			"} else if i64 != math.MaxInt64 && i64 != math.MinInt64 {", "} else if i64 != math.MinInt64 {", "C06-F1", "sentinel MaxInt64"},
	)
}
