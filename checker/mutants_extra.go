package main

func init() {
	addMutants(
		Mutant{"C02", "c02-savetype-first-wins", "zson/formatter.go", "Formatter.saveType",
			"f.typedefs[name] = named\n", "if _, ok := f.typedefs[name]; !ok {\n\t\tf.typedefs[name] = named\n\t}\n", "C02-K2", "saveType updates"},
		Mutant{"C02", "c02-analyzer-first-wins", "zson/analyzer.go", "Analyzer.enterTypeDef",
			"\ta[name] = typ\n", "\tif _, ok := a[name]; !ok {\n\t\ta[name] = typ\n\t}\n", "C02-K2", "enterTypeDef updates"},
		Mutant{"C03", "c03-dict-bound-before-insert", "vng/primitive.go", "PrimitiveEncoder.update",
			"p.dict[string(body)]++\n\t\tif len(p.dict) > MaxDictSize {\n\t\t\tp.dict = nil\n\t\t}", "if len(p.dict) > MaxDictSize {\n\t\t\tp.dict = nil\n\t\t} else {\n\t\t\tp.dict[string(body)]++\n\t\t}", "C03-B1", "dictionary insert"},
		Mutant{"C06", "c06-sentinel-max-untested", "runtime/sam/expr/sort.go", "Comparator.sortStableIndices",
			"} else if i64 != math.MaxInt64 && i64 != math.MinInt64 {", "} else if i64 != math.MinInt64 {", "C06-F1", "sentinel MaxInt64"},
	)
}

func init() {
	addMutants(
		Mutant{"C07", "c07-demand-summarize-no-aggs", "compiler/optimizer/demand.go", "inferDemandSeqOutWith",
			"for _, assignment := range op.Aggs {\n\t\t\t\tdemandOpIn = demand.Union(demandOpIn, inferDemandExprIn(demand.All(), assignment.RHS))\n\t\t\t}\n", "", "C07-D7", "case compiler/ast/dag.Summarize"},
		Mutant{"C07", "c07-demand-filter-no-downstream", "compiler/optimizer/demand.go", "inferDemandSeqOutWith",
			"demandOpIn = demand.Union(\n\t\t\t\t// Everything that downstream operations need.\n\t\t\t\tdemandOpOut,\n\t\t\t\t// Everything that affects the outcome of this filter.\n\t\t\t\tinferDemandExprIn(demand.All(), op.Expr),\n\t\t\t)", "demandOpIn = inferDemandExprIn(demand.All(), op.Expr)", "C07-D7", "case compiler/ast/dag.Filter"},
		Mutant{"C07", "c07-demand-agg-no-where", "compiler/optimizer/demand.go", "inferDemandExprIn",
			"return demand.Union(\n\t\t\tinferDemandExprIn(demand.All(), expr.Expr),\n\t\t\tinferDemandExprIn(demand.All(), expr.Where),\n\t\t)", "return inferDemandExprIn(demand.All(), expr.Expr)", "C07-D7", "case compiler/ast/dag.Agg"},
	)
}

func init() {
	addMutants(
		Mutant{"C07", "c07-filescan-filter-dropped", "compiler/optimizer/optimizer.go", "Optimizer.optimizeSourcePaths",
			"case *dag.FileScan:\n\t\t\top.Filter = filter\n", "case *dag.FileScan:\n\t\t\tif op.Format == \"parquet\" {\n\t\t\t\top.Filter = filter\n\t\t\t}\n", "C07-D8", "shortened chain"},
	)
}

func init() {
	addMutants(
		Mutant{"C07", "c07-merge-ignores-reverse", "compiler/optimizer/parallelize.go", "Optimizer.liftIntoParPaths",
			"Order: which,", "Order: op.Args[0].Order,", "C07-D9", "dag.Merge.Order"},
		Mutant{"C08", "c08-merge-ignores-reverse", "compiler/optimizer/parallelize.go", "Optimizer.liftIntoParPaths",
			"Order: which,", "Order: op.Args[0].Order,", "C08-D9", "dag.Merge.Order"},
		Mutant{"C07", "c07-lift-sort-ignores-nulls", "compiler/optimizer/parallelize.go", "Optimizer.liftIntoParPaths",
			"if !sortNullsMax(op) {", "if false {", "C07-N2", "builds a dag.Merge from a dag.Sort"},
		Mutant{"C08", "c08-lift-sort-ignores-nulls", "compiler/optimizer/parallelize.go", "Optimizer.liftIntoParPaths",
			"if !sortNullsMax(op) {", "if false {", "C08-N2", "builds a dag.Merge from a dag.Sort"},
		Mutant{"C16", "c16-swap-before-last-flush", "lake/data/writer.go", "Writer.Close",
			"if err := w.flushSeekIndex(); err != nil {\n\t\tw.Abort()\n\t\treturn err\n\t}\n\tif err := w.seekIndex.Close(); err != nil {\n\t\tw.Abort()\n\t\treturn err\n\t}\n\tw.object.Count = w.count\n\tw.object.Size = w.writer.Position()\n\tif w.sortKey.Order == order.Desc {\n\t\tw.object.Min, w.object.Max = w.object.Max, w.object.Min\n\t}\n",
			"w.object.Count = w.count\n\tw.object.Size = w.writer.Position()\n\tif w.sortKey.Order == order.Desc {\n\t\tw.object.Min, w.object.Max = w.object.Max, w.object.Min\n\t}\n\tif err := w.flushSeekIndex(); err != nil {\n\t\tw.Abort()\n\t\treturn err\n\t}\n\tif err := w.seekIndex.Close(); err != nil {\n\t\tw.Abort()\n\t\treturn err\n\t}\n", "C16-B2", "Close assigns object"},
		Mutant{"C19", "c19-late-error-one-route", "service/handlers.go", "handleQuery",
			"writer.WriteError(err)\n\t\tstatus.setError(err)", "if ctrl {\n\t\t\twriter.WriteError(err)\n\t\t\treturn\n\t\t}\n\t\tstatus.setError(err)", "C19-E4", "late-error callback"},
		Mutant{"C19", "c19-handler-first-key-only", "service/handlers.go", "handlePoolPost",
			"for _, key := range req.SortKeys.Keys {\n\t\tsortKeys = append(sortKeys, order.NewSortKey(req.SortKeys.Order, key))\n\t}", "if len(req.SortKeys.Keys) > 0 {\n\t\tsortKeys = append(sortKeys, order.NewSortKey(req.SortKeys.Order, req.SortKeys.Keys[0]))\n\t}", "C19-K3", "PoolPostRequest.SortKeys.Keys"},
	)
}

func init() {
	addMutants(
		Mutant{"C10", "c10-join-dir-not-swapped", "compiler/kernel/op.go", "Builder.compile",
			"leftDir, rightDir = rightDir, leftDir\n", "", "C10-J1", "join.New sides"},
		Mutant{"C10", "c10-join-rightdir-from-left-parent", "compiler/optimizer/optimizer.go", "Optimizer.propagateSortKeyOp",
			"join.RightDir = parents[1].Primary().Order.Direction()", "join.RightDir = parents[0].Primary().Order.Direction()", "C10-J2", "dag.Join.RightDir"},
	)
}

func init() {
	addMutants(
		Mutant{"C13", "c13-copy-shares-objects", "lake/commits/snapshot.go", "Snapshot.Copy",
			"for key, val := range s.objects {\n\t\tout.objects[key] = val\n\t}\n", "out.objects = s.objects\n", "C13-M3", "Copy field objects"},
		Mutant{"C13", "c13-copy-forgets-vectors", "lake/commits/snapshot.go", "Snapshot.Copy",
			"for key := range s.vectors {\n\t\tout.vectors[key] = struct{}{}\n\t}\n", "", "C13-M3", "Copy field vectors"},
	)
}

func init() {
	addMutants(
		Mutant{"C19", "c19-remote-delete-drops-message", "lake/api/remote.go", "remote.Delete",
			"r.conn.Delete(ctx, poolID, branchName, tags, commit)", "r.conn.Delete(ctx, poolID, branchName, tags, api.CommitMessage{})", "C19-K4", "remote).Delete parameter commit"},
	)
}

func init() {
	addMutants(
		Mutant{"C10", "c10-spill-final-results", "runtime/sam/op/groupby/groupby.go", "Aggregator.spillTable",
			"batch, err := a.readTable(true, true, ref)", "batch, err := a.readTable(true, a.partialsOut, ref)", "C10-S4", "spillTable -> readTable"},
	)
}

func init() {
	addMutants(
		Mutant{"C08", "c08-tail-keeps-key-exprs", "compiler/optimizer/parallelize.go", "Optimizer.liftIntoParPaths",
			"for k := range op.Keys {\n\t\t\top.Keys[k].RHS = op.Keys[k].LHS\n\t\t}\n", "", "C08-D4", "summarize tail keys"},
	)
}

func init() {
	addMutants(
		Mutant{"C11", "c11-vng-metadata-unchecked", "vng/object.go", "readMetadata",
			"if err := checkMetadata(zctx, meta, true); err != nil {\n\t\treturn nil, fmt.Errorf(\"corrupt VNG: %w\", err)\n\t}\n", "if err := checkMetadata(zctx, meta, true); err != nil && false {\n\t\treturn nil, fmt.Errorf(\"corrupt VNG: %w\", err)\n\t}\n", "C11-V1", "readMetadata validates"},
		Mutant{"C11", "c11-vng-check-skips-named-lookup", "vng/object.go", "checkMetadata",
			"_, err := zctx.LookupTypeNamed(meta.Name, zed.TypeNull)\n\t\treturn err", "return nil", "C11-V1", "performs (*super.Context).LookupTypeNamed"},
		Mutant{"C11", "c11-vng-check-default-accepts", "vng/object.go", "checkMetadata",
			"return fmt.Errorf(\"unknown or missing metadata: %T\", meta)", "return nil", "C11-V1", "checkMetadata coverage"},
	)
}

func init() {
	addMutants(
		Mutant{"C17", "c17-torn-snapshot-used", "lake/journal/store.go", "Store.load",
			"at, table = Nil, make(map[string]Entry)\n", "", "C17-S1", "uses a result of getSnapshot"},
	)
}

func init() {
	addMutants(
		Mutant{"C02", "c02-negzero-unguarded", "zson/formatter.go", "formatPrimitive",
			"f := zed.DecodeFloat64(bytes)\n\t\tif f == 0 && math.Signbit(float64(f)) {", "f := zed.DecodeFloat64(bytes)\n\t\tif f == 0 && math.Signbit(float64(f)) && len(bytes) == 0 {", "C02-N1", "", },
		Mutant{"C17", "c17-snapshot-entry-after-marker", "lake/journal/store.go", "Store.putSnapshot",
			"return zw.Write(zed.NewUint64(uint64(at)))", "if err := zw.Write(zed.NewUint64(uint64(at))); err != nil {\n\t\treturn err\n\t}\n\treturn zw.Write(zed.NewUint64(0))", "C17-S2", "putSnapshot writes the end marker"},
		Mutant{"C17", "c17-snapshot-accepted-without-marker", "lake/journal/store.go", "Store.getSnapshot",
			"if !complete {\n\t\treturn Nil, nil, errors.New(\"incomplete journal snapshot\")\n\t}\n", "", "C17-S2", "getSnapshot requires the end marker"},
		Mutant{"C09", "c09-vectorize-filtered-scan", "compiler/optimizer/vam.go", "Optimizer.isScanWithVectors",
			"if scan.Filter != nil {", "if scan.Filter != nil && scan.KeyPruner != nil {", "C09-G3", "declines filtered scans"},
		Mutant{"C09", "c09-sum-no-const", "runtime/vam/op/agg.go", "Sum.update",
			"\tcase *vector.Const:\n\t\t// Every non-null slot holds the same value.\n\t\tvar n int64\n\t\tfor slot := uint32(0); slot < vec.Len(); slot++ {\n\t\t\tif !vec.Nulls.Value(slot) {\n\t\t\t\tn++\n\t\t\t}\n\t\t}\n\t\tswitch id := vec.Type().ID(); {\n\t\tcase zed.IsSigned(id):\n\t\t\tc.sum += vec.Value().Int() * n\n\t\tcase zed.IsUnsigned(id):\n\t\t\tc.sum += int64(vec.Value().Uint()) * n\n\t\t}\n", "", "C09-X2", "lacks Const"},
	)
}

func init() {
	addMutants(
		Mutant{"C03", "c03-net-slice-unallocated", "runtime/vcache/loader.go", "loader.loadVals",
			"values := make([]netip.Prefix, length)", "var values []netip.Prefix", "C03-X1", "indexes a nil slice"},
		Mutant{"C03", "c03-projection-prefix-narrowed", "runtime/vcache/path.go", "insertPath",
			"if len(existing) == 1 || len(addition) == 1 {", "if len(existing) == 0 && len(addition) == 0 {", "C03-P1", "descends below a common head"},
		Mutant{"C20", "c20-merge-not-idempotent", "runtime/sam/expr/agg/schema.go", "merge",
			"\tif a == b {\n\t\treturn a\n\t}\n", "", "C20-M3", "builds the union of its two operands"},
		Mutant{"C20", "c20-shaper-keyed-by-underlying-id", "runtime/sam/expr/shaper.go", "ConstShaper.Eval",
			"key := zed.TypeID(val.Type())", "key := val.Type().ID()", "C20-R2", "the shaper cache"},
	)
}

func init() {
	addMutants(
		Mutant{"C03", "c03-dict-sort-ties", "vng/primitive.go", "sortDict",
			"return bytes.Compare(entries[i].Value.Bytes(), entries[j].Value.Bytes()) < 0", "return bytes.Compare(nil, nil) < 0 && i < 0", "C03-D1", "sortDict less function"},
	)
}

func init() {
	addMutants(
		Mutant{"C16", "c16-string-compare-self", "runtime/sam/expr/eval.go", "Compare.Eval",
			"return c.result(cmp.Compare(zed.DecodeString(lhs.Bytes()), zed.DecodeString(rhs.Bytes())))", "return c.result(cmp.Compare(zed.DecodeString(lhs.Bytes()), zed.DecodeString(lhs.Bytes())))", "C16-C2", "ignores the right operand"},
	)
}

func init() {
	addMutants(
		Mutant{"C11", "c11-zson-value-depth-unbounded", "zson/parser-values.go", "Parser.matchValue",
			"\tif err := p.enter(); err != nil {\n\t\treturn nil, err\n\t}\n\tdefer p.leave()\n", "", "C11-D1", "input-driven recursion in zson"},
		Mutant{"C11", "c11-zson-depth-error-ignored", "zson/parser-types.go", "Parser.matchType",
			"\tif err := p.enter(); err != nil {\n\t\treturn nil, err\n\t}\n", "\tp.enter()\n", "C11-D1", "input-driven recursion in zson"},
		Mutant{"C11", "c11-zson-depth-never-counted", "zson/parser.go", "Parser.enter",
			"\tp.depth++\n", "", "C11-D1", "input-driven recursion in zson"},
		Mutant{"C11", "c11-json-array-depth-unbounded", "zio/jsonio/reader.go", "Reader.handleToken",
			"\tcase jsonlexer.TokenBeginArray:\n\t\tif err := r.enter(); err != nil {\n\t\t\treturn err\n\t\t}\n", "\tcase jsonlexer.TokenBeginArray:\n", "C11-D1", "input-driven recursion in zio/jsonio"},
		Mutant{"C12", "c12-delete-ids-checked-against-parent-only", "lake/branch.go", "Branch.Delete",
			"\t\t\tif err := patch.DeleteObject(id); err != nil {\n\t\t\t\treturn nil, err\n\t\t\t}\n", "", "C12-R1", "NewDeletesObject"},
		Mutant{"C12", "c12-vector-add-ids-checked-against-parent-only", "lake/branch.go", "Branch.AddVectors",
			"if err := patch.AddVector(id); err != nil {", "if _ = patch; snap.HasVector(id) {", "C12-R1", "NewAddVectorsObject"},
	)
}

// round 8: each reverts one repair of the unchanged tree
func init() {
	addMutants(
		Mutant{"C12", "c12-rename-unconditional", "lake/pools/store.go", "Store.Rename",
			"err = s.store.Move(ctx, oldName, config, func(v journal.Entry) bool {\n\t\tp, ok := v.(*Config)\n\t\treturn ok && p.ID == id\n\t})", "err = s.store.Move(ctx, oldName, config, nil)", "C12-M1", "Move called from"},
		Mutant{"C12", "c12-move-ignores-constraint", "lake/journal/store.go", "Store.Move",
			"\t\tif c != nil && !c(oldEntry) {\n\t\t\treturn ErrConstraint\n\t\t}\n", "\t\t_ = oldEntry\n", "C12-M1", "Move is conditional"},
		Mutant{"C12", "c12-snapshot-ahead-of-head-used", "lake/journal/store.go", "Store.load",
			"\tif at > head {", "\tif false {", "C12-F2", "snapshot position vs head"},
		Mutant{"C04", "c04-zjson-map-not-normalised", "zio/zjsonio/reader.go", "Reader.decodeMap",
			"\tb.TransformContainer(zed.NormalizeMap)\n", "", "C04-N1", "decodeMap"},
		Mutant{"C11", "c11-zjson-enum-index-unchecked", "zio/zjsonio/reader.go", "Reader.decodeEnum",
			"\tif index < 0 || index >= len(typ.Symbols) {\n\t\treturn errors.New(\"ZJSON enum index value is out of range\")\n\t}\n", "", "C11-E1", "enum index from input"},
		Mutant{"C02", "c02-named-enum-refused", "zson/builder.go", "buildEnum",
			"zed.TypeUnder(enum.Type).(*zed.TypeEnum)", "enum.Type.(*zed.TypeEnum)", "C02-U1", "buildEnum"},
		Mutant{"C02", "c02-type-name-unquoted", "zson/formatter.go", "Formatter.formatType",
			"f.build(QuotedTypeName(named.Name))", "f.build(named.Name)", "C02-Q1", "formatType writes a type name unquoted"},
		Mutant{"C20", "c20-fuse-single-stream", "runtime/sam/op/fuse/fuse.go", "Op.run",
			"\t\tif ok := o.sendResult(nil, err); !ok {\n\t\t\treturn\n\t\t}\n\t\to.fuser = NewFuser(o.rctx.Zctx, MemMaxBytes)\n", "\t\to.sendResult(nil, err)\n\t\treturn\n", "C20-L1", "pulls the parent again"},
		Mutant{"C09", "c09-countdict-assigns", "runtime/vam/op/agg.go", "countByString.countDict",
			"] += uint64(counts[k])", "] = uint64(counts[k])", "C09-A1", "countDict"},
		Mutant{"C09", "c09-vectorize-sliced-plan", "compiler/optimizer/vam.go", "Optimizer.Vectorize",
			"\tif sliced {\n\t\treturn seq, nil\n\t}\n", "\t_ = sliced\n", "C09-G5", "examines the plan for a slicer"},
	)
}

func init() {
	addMutants(
		Mutant{"C03", "c03-vcache-array-loads-projected-only", "runtime/vcache/loader.go", "loader.loadVector",
			"\tcase *array:\n\t\tl.loadOffsets(g, &s.mu, &s.offs, s.loc, s.length(), s.nulls.flat)\n\t\tl.loadVector(g, nil, s.vals)", "\tcase *array:\n\t\tl.loadOffsets(g, &s.mu, &s.offs, s.loc, s.length(), s.nulls.flat)\n\t\tl.loadVector(g, paths, s.vals)", "C03-P2", "loadVector below a array"},
		Mutant{"C03", "c03-vcache-error-payload-own-nulls", "runtime/vcache/loader.go", "flattenNulls",
			"flattenNulls(paths, s.vals, nulls)\n\tcase *named:", "_ = nulls\n\t\tflattenNulls(paths, s.vals, nil)\n\tcase *named:", "C03-E1", "child of error_"},
		Mutant{"C09", "c09-count-dict-drops-nulls", "runtime/vam/op/agg.go", "CountByString.update",
			"\t\tc.table.countNulls(val.Nulls, val.Len())\n", "", "C09-N2", "dictionary case"},
		Mutant{"C09", "c09-count-plain-nulls-as-empty", "runtime/vam/op/agg.go", "countByString.count",
			"\t\tif vec.Nulls.Value(uint32(k)) {\n\t\t\tc.nulls++\n\t\t\tcontinue\n\t\t}\n", "", "C09-N2", "count reads"},
	)
}

func init() {
	addMutants(
		Mutant{"C19", "c19-dot-segments-unescaped", "api/client/connection.go", "urlPath",
			"case \".\", \"..\":", "case \"\\x00.\":", "C19-K8", "dot segments"},
		Mutant{"C11", "c11-surrogate-check-at-start", "zson/lexer.go", "parseStringBytes",
			"len(bytes)-k < 6 || bytes[k] != '\\\\' || bytes[k+1] != 'u'", "len(bytes) < 6 || bytes[0] != '\\\\' || bytes[1] != 'u'", "C11-S2", "parseStringBytes"},
		Mutant{"C11", "c11-backtick-empty-indexed", "zson/lexer.go", "Lexer.scanBacktickString",
			"if len(b) > 0 && b[0] == '\\n' {", "if b[0] == '\\n' {", "C11-V2", "scanBacktickString"},
		Mutant{"C11", "c11-string-enum-unchecked", "zson/analyzer.go", "stringToEnum",
			"val.Type == \"string\" && enum.Lookup(val.Text) >= 0", "val.Type == \"string\" && enum != nil", "C11-V2", "stringToEnum"},
		Mutant{"C11", "c11-zjson-short-record", "zio/zjsonio/reader.go", "Reader.decodeRecord",
			"\tif len(values) < len(fields) {\n\t\treturn errors.New(\"record with missing field\")\n\t}\n", "", "C11-V2", "decodeRecord"},
		Mutant{"C11", "c11-checkenum-signed", "value.go", "checkEnum",
			"selector >= uint64(len(typ.Symbols))", "int(selector) >= len(typ.Symbols)", "C11-V2", "checkEnum"},
	)
}

func init() {
	addMutants(
		Mutant{"C07", "c07-nulls-first-sort-propagated", "compiler/optimizer/op.go", "sortKeysOfSort",
			"\tif op.NullsFirst {", "\tif op.NullsFirst && len(op.Args) > 1 {", "C07-N3", "nulls-first sort"},
	)
}

func init() {
	addMutants(
		Mutant{"C10", "c10-minmax-identity-carried", "runtime/sam/expr/agg/math.go", "mathReducer.consumeVal",
			"if m.math != nil && m.hasval {", "if m.math != nil {", "C10-M2", "seeds the promoted accumulator"},
		Mutant{"C05", "c05-named-types-by-name-only", "type.go", "CompareTypes",
			"return CompareTypes(a.Type, b.Type)", "return 0", "C05-T1", "two named types"},
		Mutant{"C02", "c02-map-colon-by-tab-only", "zson/formatter.go", "Formatter.formatMap",
			"if f.tab > 0 || mapEntryNeedsSpace(keyType, valType) {", "if f.tab > 0 {", "C02-M2", "separator after the colon"},
	)
}

func init() {
	addMutants(
		Mutant{"C02", "c02-decorated-set-as-array", "zson/analyzer.go", "Analyzer.convertSet",
			"\t\treturn &Set{\n\t\t\tType:     cast,", "\t\treturn &Array{\n\t\t\tType:     cast,", "C02-S3", "convertSet returns"},
		Mutant{"C11", "c11-validate-skips-sets", "value.go", "Value.Validate",
			"\t\t\treturn checkSet(typset, body)\n", "\t\t\tif err := checkSet(typset, body); err != nil {\n\t\t\t\treturn err\n\t\t\t}\n\t\t\treturn SkipContainer\n", "C11-V3", "skips a container"},
		Mutant{"C11", "c11-vng-empty-metadata-deref", "vng/object.go", "readMetadata",
			"\tif val == nil {\n\t\treturn nil, errors.New(\"corrupt VNG: metadata section is empty\")\n\t}\n", "", "C11-R2", "readMetadata"},
		Mutant{"C17", "c17-empty-magic-deref", "lake/root.go", "Root.readLakeMagic",
			"\tif val == nil {\n\t\treturn errors.New(\"corrupt lake version file: empty\")\n\t}\n", "", "C17-M1", "readLakeMagic"},
	)
}

func init() {
	addMutants(
		Mutant{"C02", "c02-enum-symbol-always-bare", "zson/formatter.go", "Formatter.formatValue",
			"if sym := t.Symbols[zed.DecodeUint(bytes)]; IsIdentifier(sym) {", "if sym := t.Symbols[zed.DecodeUint(bytes)]; sym != \"\\x00\" {", "C02-Q2", "writes an enum symbol bare"},
	)
}

func init() {
	addMutants(
		Mutant{"C09", "c09-or-loops-over-slots", "vector/bool.go", "Or",
			"for i := range out.Bits {", "for i := range a.Len() {", "C09-B1", "vector.Or indexes Bits"},
		Mutant{"C10", "c10-fuse-null-partial-kept", "runtime/sam/expr/agg/fuse.go", "fuse.ConsumeAsPartial",
			"\tif partial.IsNull() {\n\t\t// The partial result of a group that consumed no value.\n\t\treturn\n\t}\n", "", "C10-P4", "agg.fuse).ConsumeAsPartial"},
		Mutant{"C03", "c03-vcache-no-enum-values", "runtime/vcache/loader.go", "loader.loadVals",
			"case *zed.TypeOfUint8, *zed.TypeOfUint16, *zed.TypeOfUint32, *zed.TypeOfUint64, *zed.TypeEnum:", "case *zed.TypeOfUint8, *zed.TypeOfUint16, *zed.TypeOfUint32, *zed.TypeOfUint64:", "C03-K2", "loadVals type dispatch lacks TypeEnum"},
	)
}

func init() {
	addMutants(
		Mutant{"C11", "c11-under-spins-on-null-union", "value.go", "Value.under",
			"if !ok || bytes == nil {", "if !ok {", "C11-U1", "under untags in a loop"},
	)
}


func init() {
	addMutants(
		Mutant{"C08", "c08-stateful-put-in-legs", "compiler/optimizer/parallelize.go", "Optimizer.concurrentPath",
			"if hasAggExpr(op) {\n\t\t\t\t// An aggregate function in an expression carries state\n", "if false {\n\t\t\t\t// An aggregate function in an expression carries state\n", "C08-X1", "extends the concurrent path"},
		Mutant{"C07", "c07-stateful-put-in-legs", "compiler/optimizer/parallelize.go", "Optimizer.concurrentPath",
			"if hasAggExpr(op) {\n\t\t\t\t// An aggregate function in an expression carries state\n", "if false {\n\t\t\t\t// An aggregate function in an expression carries state\n", "C07-X1", "extends the concurrent path"},
		Mutant{"C08", "c08-stateful-put-lifted", "compiler/optimizer/parallelize.go", "Optimizer.liftIntoParPaths",
			"if hasAggExpr(op) {\n\t\t\t// An aggregate function in an expression carries state from\n", "if op == nil {\n\t\t\t// An aggregate function in an expression carries state from\n", "C08-X1", "multi-kind case"},
		Mutant{"C07", "c07-agg-walk-skips-slices", "compiler/optimizer/parallelize.go", "containsAgg",
			"if _, ok := v.Interface().(*dag.Agg); ok {\n\t\t\treturn true\n\t\t}\n", "", "C07-X1", "extends the concurrent path"},
	)
}

func init() {
	addMutants(
		Mutant{"C15", "c15-common-ancestor-never-none", "lake/branch.go", "commonAncestor",
			"\treturn ksuid.Nil\n}", "\tif len(a) == 0 {\n\t\treturn ksuid.Nil\n\t}\n\treturn a[len(a)-1]\n}", "C15-A1", "share no commit"},
		Mutant{"C15", "c15-merge-nil-ancestor-not-refused", "lake/branch.go", "Branch.buildMergeObject",
			"if baseID == ksuid.Nil {", "if baseID == ksuid.Nil && len(parentPath) == 0 {", "C15-A1", "refuses a merge"},
	)
}

func init() {
	addMutants(
		Mutant{"C14", "c14-compact-skips-missing-source", "lake/branch.go", "Branch.CommitCompact",
			"if err := patch.DeleteObject(o.ID); err != nil {\n\t\t\t\treturn nil, err\n\t\t\t}", "if err := patch.DeleteObject(o.ID); err != nil {\n\t\t\t\tif errors.Is(err, commits.ErrNotFound) {\n\t\t\t\t\tcontinue\n\t\t\t\t}\n\t\t\t\treturn nil, err\n\t\t\t}", "C14-P3", "CommitCompact"},
		Mutant{"C12", "c12-compact-skips-missing-source", "lake/branch.go", "Branch.CommitCompact",
			"if err := patch.DeleteObject(o.ID); err != nil {\n\t\t\t\treturn nil, err\n\t\t\t}", "if err := patch.DeleteObject(o.ID); err != nil {\n\t\t\t\tif errors.Is(err, commits.ErrNotFound) {\n\t\t\t\t\tcontinue\n\t\t\t\t}\n\t\t\t\treturn nil, err\n\t\t\t}", "C12-P6", "CommitCompact"},
	)
}
