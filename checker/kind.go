package main

import (
	"go/ast"
	"go/types"
	"sort"
	"strings"

	"golang.org/x/tools/go/packages"
	"golang.org/x/tools/go/ssa"
)

// pkgOfFunc returns the go/packages package that declares fn.
func (p *Prog) pkgOfFunc(fn *ssa.Function) *packages.Package { return p.Pkgs[p.PkgOf(fn)] }

// constsUsedIn returns the names of package-level constants with the given
// prefix that are mentioned anywhere in the function body.
func constsUsedIn(info *types.Info, body ast.Node, prefix string) map[string]bool {
	out := map[string]bool{}
	ast.Inspect(body, func(n ast.Node) bool {
		id, ok := n.(*ast.Ident)
		if !ok {
			return true
		}
		if cst, ok := info.Uses[id].(*types.Const); ok && strings.HasPrefix(cst.Name(), prefix) {
			out[cst.Name()] = true
		}
		return true
	})
	return out
}

// caseConsts returns the constant names used as case labels of (value)
// switch statements in body.
func caseConsts(info *types.Info, body ast.Node, prefix string) map[string]bool {
	out := map[string]bool{}
	ast.Inspect(body, func(n ast.Node) bool {
		cc, ok := n.(*ast.CaseClause)
		if !ok {
			return true
		}
		for _, l := range cc.List {
			var id *ast.Ident
			switch x := l.(type) {
			case *ast.Ident:
				id = x
			case *ast.SelectorExpr:
				id = x.Sel
			}
			if id == nil {
				continue
			}
			if cst, ok := info.Uses[id].(*types.Const); ok && strings.HasPrefix(cst.Name(), prefix) {
				out[cst.Name()] = true
			}
		}
		return true
	})
	return out
}

type typeSwitchInfo struct {
	stmt       *ast.TypeSwitchStmt
	tagType    types.Type
	cases      map[string]bool // named types ("pkg.Name") of the case list, pointer stripped
	hasDefault bool
	defBody    []ast.Stmt
	nilCase    bool
}

// typeSwitches lists the type switches in body whose tag has interface type iface.
func typeSwitches(info *types.Info, body ast.Node) []*typeSwitchInfo {
	var out []*typeSwitchInfo
	ast.Inspect(body, func(n ast.Node) bool {
		ts, ok := n.(*ast.TypeSwitchStmt)
		if !ok {
			return true
		}
		var x ast.Expr
		switch a := ts.Assign.(type) {
		case *ast.AssignStmt:
			x = a.Rhs[0].(*ast.TypeAssertExpr).X
		case *ast.ExprStmt:
			x = a.X.(*ast.TypeAssertExpr).X
		}
		ti := &typeSwitchInfo{stmt: ts, tagType: info.TypeOf(x), cases: map[string]bool{}}
		for _, s := range ts.Body.List {
			cc := s.(*ast.CaseClause)
			if cc.List == nil {
				ti.hasDefault = true
				ti.defBody = cc.Body
				continue
			}
			for _, l := range cc.List {
				t := info.TypeOf(l)
				if t == nil {
					continue
				}
				if b, ok := t.(*types.Basic); ok && b.Kind() == types.UntypedNil {
					ti.nilCase = true
					continue
				}
				if nm := namedOf(t); nm != "" {
					ti.cases[nm] = true
				} else {
					ti.cases[short(t.String())] = true
				}
			}
		}
		out = append(out, ti)
		return true
	})
	return out
}

// implementersOf returns the named (struct) types declared in pkgs whose
// pointer or value type implements iface, as "pkg.Name".
func implementersOf(p *Prog, iface *types.Interface, pkgs ...string) []string {
	var out []string
	for _, rp := range pkgs {
		pk := p.Pkgs[rp]
		if pk == nil {
			continue
		}
		sc := pk.Types.Scope()
		for _, n := range sc.Names() {
			tn, ok := sc.Lookup(n).(*types.TypeName)
			if !ok || tn.IsAlias() {
				continue
			}
			if _, isI := tn.Type().Underlying().(*types.Interface); isI {
				continue
			}
			if types.Implements(tn.Type(), iface) || types.Implements(types.NewPointer(tn.Type()), iface) {
				out = append(out, namedOf(tn.Type()))
			}
		}
	}
	sort.Strings(out)
	return out
}

func ifaceType(p *Prog, pkg, name string) *types.Interface {
	t := p.Type(pkg, name)
	if t == nil {
		return nil
	}
	i, _ := t.Underlying().(*types.Interface)
	return i
}

func setDiff(a, b map[string]bool) []string {
	var out []string
	for k := range a {
		if !b[k] {
			out = append(out, k)
		}
	}
	sort.Strings(out)
	return out
}

func setOf(xs ...string) map[string]bool {
	m := map[string]bool{}
	for _, x := range xs {
		m[x] = true
	}
	return m
}

// stmtsPanic reports whether the statement list unconditionally panics
// (its first statement that is not a declaration is a call to panic).
func stmtsPanic(info *types.Info, stmts []ast.Stmt) bool {
	for _, st := range stmts {
		es, ok := st.(*ast.ExprStmt)
		if !ok {
			continue
		}
		call, ok := es.X.(*ast.CallExpr)
		if !ok {
			continue
		}
		if id, ok := call.Fun.(*ast.Ident); ok {
			if b, ok := info.Uses[id].(*types.Builtin); ok && b.Name() == "panic" {
				return true
			}
		}
	}
	return false
}
