package main

import (
	"go/token"
	"sort"
	"strings"

	"golang.org/x/tools/go/ssa"
)

type callSite struct {
	fn *ssa.Function
	ci ssa.CallInstruction
}

// callSitesWhere lists every call in the module whose callee satisfies pred.
func callSitesWhere(p *Prog, pred func(cc *ssa.CallCommon, name string) bool) []callSite {
	var out []callSite
	for _, fn := range p.Funcs {
		for _, ci := range allCalls(fn) {
			if pred(ci.Common(), calleeName(ci.Common())) {
				out = append(out, callSite{fn, ci})
			}
		}
	}
	sort.Slice(out, func(i, j int) bool { return out[i].fn.String() < out[j].fn.String() })
	return out
}

// topName: name of the top-level function enclosing fn.
func topName(fn *ssa.Function) string {
	for fn.Parent() != nil {
		fn = fn.Parent()
	}
	return fnName(fn)
}

// whoMayCall checks that every call site of the callee(s) lies in an allowed function.
func whoMayCall(c *Ctx, rule, what string, pred func(cc *ssa.CallCommon, name string) bool, allowed map[string]string, skipPkgs []string, minSites int, why string) {
	p := c.P
	sites := callSitesWhere(p, pred)
	n := 0
	seen := map[string]bool{}
	for _, s := range sites {
		pk := p.PkgOf(s.fn)
		skip := false
		for _, sp := range skipPkgs {
			if pk == sp || strings.HasPrefix(pk, sp+"/") {
				skip = true
			}
		}
		if skip {
			continue
		}
		n++
		caller := topName(s.fn)
		construct := what + " called from " + caller
		if reason, ok := allowed[caller]; ok {
			seen[caller] = true
			c.OK(rule, construct, s.ci.Pos(), "allowed: "+reason)
		} else {
			c.Fail(rule, construct, s.ci.Pos(), why)
		}
	}
	for a := range allowed {
		if !seen[a] {
			c.Undecided(rule, what+" called from "+a, "the allowed call site (positive witness) no longer exists; the who-may-call table must be re-confirmed")
		}
	}
	if n < minSites {
		c.Undecided(rule, what, "fewer call sites than confirmed by hand")
	}
}

func isEngineMethod(cc *ssa.CallCommon, names ...string) bool {
	if !cc.IsInvoke() || namedOf(cc.Value.Type()) != "pkg/storage.Engine" {
		return false
	}
	for _, n := range names {
		if cc.Method.Name() == n {
			return true
		}
	}
	return false
}

// ---------------------------------------------------------------- C12

var journalLockSpec = &LockSpec{Type: "lake/journal.Store", Mu: "mu", Guarded: []string{"table", "at", "loadTime"}}

func runC12(c *Ctx, tier string) {
	p := c.P
	runLakeErrDiscipline(c, "C12-E1")
	runLakeErrNotConverted(c, "C12-E2")
	runPatchRefusalIsFatal(c, "C12-P6")
	c.Rule("C12-M1", "the snapshots that commit validation reads are not mutated (= C13-M1): a cached ancestor snapshot aliased with a descendant's makes Branch.Delete / merge validate against the wrong state and acknowledge commits that cannot be replayed")
	c.borrow(func(t *Ctx) { runC13(t, "quick") }, map[string]string{"C13-M1": "C12-M1"})
	c.Rule("C12-W1", "single commit point: journal entries are written only by Queue.CommitAt through PutIfNotExists; CommitAt is called only by journal.Store.commit and Queue.Commit; PutIfNotExists only by CommitAt and the lake-magic writer")
	c.Rule("C12-P1", "journal.Store.commit: the position passed to CommitAt is the s.at read in the same read-locked section in which the constraint ran, after a load in the same iteration; a lost race re-loads and re-checks; any other error is returned; success invalidates s.at")
	c.Rule("C12-P2", "optimistic branch commit: LookupByName -> create -> commits.Put -> branches.Update with a non-nil constraint comparing against the parent captured before config.Commit is overwritten; a failed Update removes the commit object on every path")
	c.Rule("C12-P3", "commit contents are built against the tip they are parented on: in every constructor passed to Branch.commit, snapshots/paths/patches and the parent of the new commit object derive from the constructor's parent parameter, never from the branch handle's stale Commit")
	c.Rule("C12-L1", "journal.Store lock discipline for table/at/loadTime (closures run under the lock state of the call that invokes them)")
	c.Rule("C12-N1", "pool names are registered last and cleaned up on conflict: CreatePool precedes pools.Add; every failure after CreatePool removes the pool directory")

	// W1
	whoMayCall(c, "C12-W1", "storage.Engine.PutIfNotExists",
		func(cc *ssa.CallCommon, _ string) bool { return isEngineMethod(cc, "PutIfNotExists") },
		map[string]string{
			"(*lake/journal.Queue).CommitAt": "the journal's commit point (entry at+1)",
			"(*lake.Root).writeLakeMagic":    "lake creation marker, written last",
		}, []string{"pkg/storage"}, 2,
		"a new put-if-absent writer: the journal entry at+1 must be the only commit point of a metadata update")
	whoMayCall(c, "C12-W1", "journal.Queue.CommitAt",
		func(_ *ssa.CallCommon, name string) bool { return name == "(*lake/journal.Queue).CommitAt" },
		map[string]string{
			"(*lake/journal.Store).commit": "retry loop that re-loads and re-checks its constraint",
			"(*lake/journal.Queue).Commit": "unconditional append at HEAD",
		}, nil, 2,
		"CommitAt is reached from a function that does not run the load / constraint / retry protocol")
	// journal entry objects are written only in CommitAt
	for _, s := range callSitesWhere(p, func(cc *ssa.CallCommon, name string) bool {
		return isEngineMethod(cc, "Put") || name == "pkg/storage.Put"
	}) {
		uriArgs := s.ci.Common().Args
		writesEntry := false
		for _, a := range uriArgs {
			if dependsOn(a, func(v ssa.Value) bool {
				call, ok := v.(*ssa.Call)
				return ok && calleeName(call.Common()) == "(*lake/journal.Queue).uri"
			}) {
				writesEntry = true
			}
		}
		if !writesEntry {
			continue
		}
		construct := "journal entry object written by " + topName(s.fn)
		if topName(s.fn) == "(*lake/journal.Queue).CommitAt" {
			c.OK("C12-W1", construct, s.ci.Pos(), "the documented ErrNotSupported fallback inside CommitAt")
		} else {
			c.Fail("C12-W1", construct, s.ci.Pos(), "a journal entry object is overwritten/written outside CommitAt: accepted history can be rewritten")
		}
	}

	// L1
	checkLockSpec(c, "C12", journalLockSpec)

	// P1
	runC12P1(c)
	// P2
	runBranchCommitProtocol(c, "C12-P2", true)
	// P3
	runC12P3(c, "C12-P3")
	// N1
	runCreatePoolOrder(c, "C12-N1")
	// P4
	runC12P4(c)
	// P5
	runC12P5(c)
	runJournalFreshness(c, "C12-F1")
	runJournalKeyUniqueness(c, "C12-U1")
	runListCommitsPrePlayed(c, "C12-R1")
	runKeyedUpdatesConstrained(c, "C12-M1")
	runSnapshotNotAheadOfHead(c, "C12-F2")
}

func runC12P1(c *Ctx) {
	p := c.P
	fn := p.Func("(*lake/journal.Store).commit")
	if fn == nil {
		c.Undecided("C12-P1", "(*lake/journal.Store).commit", "anchor does not resolve")
		return
	}
	sum := analyseLock(fn, journalLockSpec, lockState{})
	commitAts := callsTo(fn, "(*lake/journal.Queue).CommitAt")
	loads := callsTo(fn, "(*lake/journal.Store).load")
	if len(commitAts) != 1 || len(loads) < 1 {
		c.Undecided("C12-P1", "(*lake/journal.Store).commit", "expected one CommitAt call and a load call")
		return
	}
	ca := commitAts[0].(*ssa.Call)
	// the constraint call: dynamic call of the fn parameter
	var fnCall *lockCall
	for i := range sum.anyCalls {
		cl := &sum.anyCalls[i]
		if cl.callee == nil && len(fn.Params) > 2 && cl.in.Common().Value == ssa.Value(fn.Params[2]) {
			fnCall = cl
		}
	}
	// the `at` argument
	atArg := ca.Call.Args[2]
	var atAccess *lockAccess
	for i := range sum.accesses {
		a := &sum.accesses[i]
		if a.field == "at" && !a.write {
			if ld, ok := stripConv(atArg).(*ssa.UnOp); ok && ld.X == ssa.Value(a.in.(*ssa.FieldAddr)) {
				atAccess = a
			}
		}
	}
	isUnlock := func(in ssa.Instruction) bool {
		ci, ok := in.(*ssa.Call)
		if !ok {
			return false
		}
		op, ok := lockOpKind(ci.Common(), journalLockSpec)
		return ok && (op == "Unlock" || op == "RUnlock")
	}
	construct := "(*lake/journal.Store).commit position and constraint"
	switch {
	case fnCall == nil:
		c.Fail("C12-P1", construct, fn.Pos(), "the constraint function is not called in commit")
	case atAccess == nil:
		c.Fail("C12-P1", construct, ca.Pos(), "the position passed to CommitAt is not a read of s.at made in commit")
	case fnCall.state.held == 0 || atAccess.state.held == 0:
		c.Fail("C12-P1", construct, ca.Pos(), "the constraint or the read of s.at happens without s.mu held: a concurrent load can swap table/at between them")
	default:
		a, b := atAccess.in, ssa.Instruction(fnCall.in.(*ssa.Call))
		first, second := a, b
		if !dominates(a, b) {
			first, second = b, a
		}
		if u := reachAvoiding(fn, first, func(x ssa.Instruction) bool { return x == second }, isUnlock); u != nil {
			c.Fail("C12-P1", construct, u.Pos(), "s.mu is released between reading s.at and evaluating the constraint: the entry may be committed at a position whose table the constraint never saw")
		} else {
			c.OK("C12-P1", construct, ca.Pos(), "s.at and the constraint are evaluated in one read-locked section")
		}
	}
	// load precedes in every iteration
	ld := loads[0].(ssa.Instruction)
	if fnCall != nil {
		fi := ssa.Instruction(fnCall.in.(*ssa.Call))
		if !dominates(ld, fi) {
			c.Fail("C12-P1", "(*lake/journal.Store).commit reload", fi.Pos(), "the constraint runs on a path that has not loaded the journal")
		} else if r := reachAvoiding(fn, ca, func(x ssa.Instruction) bool { return x == ld }, func(x ssa.Instruction) bool { return x == fi }); r != nil {
			c.Fail("C12-P1", "(*lake/journal.Store).commit reload", ca.Pos(), "after a lost race the retry re-runs the constraint without re-loading the journal: it would pass against the stale table and commit again")
		} else {
			c.OK("C12-P1", "(*lake/journal.Store).commit reload", ld.Pos(), "every attempt loads before it checks")
		}
	}
	// error discipline of CommitAt
	v := errValueOf(ca)
	if v == nil {
		c.Fail("C12-P1", "(*lake/journal.Store).commit CommitAt error", ca.Pos(), "the result of CommitAt is dropped: a lost race would be reported as success")
	} else {
		u := usesOfErr(v)
		examined := false
		for _, r := range *v.Referrers() {
			if call, ok := r.(*ssa.Call); ok && calleeName(call.Common()) == "os.IsExist" {
				examined = true
			}
		}
		// a lost race must lead to another attempt (or a non-nil error), never to a nil return
		lostRaceOK := true
		for _, r := range *v.Referrers() {
			call, ok := r.(*ssa.Call)
			if !ok || calleeName(call.Common()) != "os.IsExist" {
				continue
			}
			for _, u2 := range *call.Referrers() {
				iff, ok := u2.(*ssa.If)
				if !ok {
					continue
				}
				arm := iff.Block().Succs[0]
				nilRet := func(x ssa.Instruction) bool {
					rt, ok := x.(*ssa.Return)
					return ok && isNilConst(returnOperand(rt, 0))
				}
				isCA := func(x ssa.Instruction) bool { return x == ssa.Instruction(ca) }
				first := arm.Instrs[0]
				if nilRet(first) || (!isCA(first) && reachAvoiding(fn, first, isCA, nilRet) != nil) {
					lostRaceOK = false
				}
			}
		}
		if u.returned && examined && !lostRaceOK {
			c.Fail("C12-P1", "(*lake/journal.Store).commit CommitAt error", ca.Pos(), "after os.IsExist (another writer took the slot) commit can return nil without another CommitAt attempt: an update that was never written is acknowledged")
		} else if u.returned && examined {
			c.OK("C12-P1", "(*lake/journal.Store).commit CommitAt error", ca.Pos(), "os.IsExist => retry; any other error is returned")
		} else {
			c.Fail("C12-P1", "(*lake/journal.Store).commit CommitAt error", ca.Pos(), "CommitAt's error is not both classified with os.IsExist and returned otherwise")
		}
	}
	// success invalidates s.at
	reset := false
	for _, a := range sum.accesses {
		if a.field == "at" && a.write && a.state.held == 2 {
			for _, r := range *a.in.(*ssa.FieldAddr).Referrers() {
				if st, ok := r.(*ssa.Store); ok {
					if k, ok := st.Val.(*ssa.Const); ok && k.Value != nil && k.Uint64() == 0 && dominates(ca, st) {
						reset = true
					}
				}
			}
		}
	}
	if reset {
		c.OK("C12-P1", "(*lake/journal.Store).commit invalidation", ca.Pos(), "s.at reset under the write lock after a successful commit")
	} else {
		c.Fail("C12-P1", "(*lake/journal.Store).commit invalidation", ca.Pos(), "after a successful commit s.at is not invalidated: the committing process keeps serving its pre-commit table (own writes not visible)")
	}
}

// runBranchCommitProtocol: C12-P2 / C17-O1 / C15-E1.
func runBranchCommitProtocol(c *Ctx, rule string, full bool) {
	p := c.P
	fn := p.Func("(*lake.Branch).commit")
	if fn == nil {
		c.Undecided(rule, "(*lake.Branch).commit", "anchor does not resolve")
		return
	}
	one := func(name string) ssa.Instruction {
		cs := callsTo(fn, name)
		if len(cs) != 1 {
			return nil
		}
		if _, ok := cs[0].(*ssa.Call); !ok {
			return nil // a deferred / go call does not run at this point of the protocol
		}
		return cs[0].(ssa.Instruction)
	}
	lookup := one("(*lake/branches.Store).LookupByName")
	put := one("(*lake/commits.Store).Put")
	update := one("(*lake/branches.Store).Update")
	remove := one("(*lake/commits.Store).Remove")
	var create ssa.Instruction
	for _, ci := range allCalls(fn) {
		if len(fn.Params) > 2 && ci.Common().Value == ssa.Value(fn.Params[2]) {
			create = ci.(ssa.Instruction)
		}
	}
	if lookup == nil || put == nil || update == nil || create == nil {
		c.Undecided(rule, "(*lake.Branch).commit", "expected exactly one LookupByName, constructor call, commits.Put and branches.Update")
		return
	}
	if dominates(lookup, create) && dominates(create, put) && dominates(put, update) {
		c.OK(rule, "(*lake.Branch).commit order", put.Pos(), "tip lookup -> constructor -> commit object written -> branch pointer moved")
	} else {
		c.Fail(rule, "(*lake.Branch).commit order", update.Pos(), "the branch pointer can be moved before the commit object it names has been written (or the object is built before the tip is looked up): a reader or a crash sees a branch whose tip does not exist")
	}
	if !full {
		return
	}
	// a retry re-reads the tip
	if r := reachAvoiding(fn, update, func(x ssa.Instruction) bool { return x == lookup }, func(x ssa.Instruction) bool { return x == create }); r != nil {
		c.Fail(rule, "(*lake.Branch).commit retry", update.Pos(), "a retry rebuilds the commit without looking up the branch tip again")
	} else {
		c.OK(rule, "(*lake.Branch).commit retry", lookup.Pos(), "each attempt looks up the tip and re-runs the constructor")
	}
	// constraint
	uc := update.(*ssa.Call)
	cons := stripConv(uc.Call.Args[len(uc.Call.Args)-1])
	mc, ok := cons.(*ssa.MakeClosure)
	if !ok {
		c.Fail(rule, "(*lake.Branch).commit constraint", update.Pos(), "branches.Update is called without a parent-check constraint: concurrent commits overwrite each other's tip (lost update)")
	} else {
		// the captured parent is read before config.Commit is overwritten
		var commitStore *ssa.Store
		for _, b := range fn.Blocks {
			for _, in := range b.Instrs {
				if st, ok := in.(*ssa.Store); ok {
					if fa, ok := st.Addr.(*ssa.FieldAddr); ok && fieldName(fa.X.Type(), fa.Field) == "Commit" && namedOf(fa.X.Type()) == "lake/branches.Config" {
						commitStore = st
					}
				}
			}
		}
		okParent := false
		for _, bnd := range mc.Bindings {
			a, isAlloc := bnd.(*ssa.Alloc)
			if !isAlloc {
				continue
			}
			for _, r := range *a.Referrers() {
				st, ok := r.(*ssa.Store)
				if !ok || st.Addr != a {
					continue
				}
				if ld, ok := st.Val.(*ssa.UnOp); ok && isFieldOf(ld, "lake/branches.Config", "Commit") && commitStore != nil && dominates(ld, commitStore) {
					okParent = true
				}
			}
		}
		g, _ := mc.Fn.(*ssa.Function)
		compares := false
		if g != nil {
			for _, b := range g.Blocks {
				for _, in := range b.Instrs {
					if cmp, ok := in.(*ssa.BinOp); ok && cmp.Op == token.EQL && (isFieldOf(cmp.X, "lake/branches.Config", "Commit") || isFieldOf(cmp.Y, "lake/branches.Config", "Commit")) {
						compares = true
					}
				}
			}
		}
		if okParent && compares {
			c.OK(rule, "(*lake.Branch).commit constraint", update.Pos(), "the constraint compares the stored tip with the parent captured before config.Commit was overwritten")
		} else {
			c.Fail(rule, "(*lake.Branch).commit constraint", update.Pos(), "the Update constraint does not compare the branch's current tip with the parent this commit was built on (captured before config.Commit is overwritten)")
		}
	}
	// cleanup on failure
	if remove == nil {
		c.Fail(rule, "(*lake.Branch).commit cleanup", update.Pos(), "a failed branch update leaves its commit object behind (no commits.Remove)")
	} else {
		ev := errValueOf(uc)
		var arm *ssa.BasicBlock
		if ev != nil {
			for _, r := range *ev.Referrers() {
				if cmp, ok := r.(*ssa.BinOp); ok && cmp.Op == token.NEQ && isNilConst(cmp.Y) {
					for _, u := range *cmp.Referrers() {
						if iff, ok := u.(*ssa.If); ok {
							arm = iff.Block().Succs[0]
						}
					}
				}
			}
		}
		if arm == nil {
			c.Fail(rule, "(*lake.Branch).commit cleanup", update.Pos(), "the error of branches.Update is not tested")
		} else {
			first := arm.Instrs[0]
			isRemove := func(x ssa.Instruction) bool { return x == remove }
			target := func(x ssa.Instruction) bool {
				if _, ok := x.(*ssa.Return); ok {
					return true
				}
				return x == lookup
			}
			bad := ssa.Instruction(nil)
			if !isRemove(first) && target(first) {
				bad = first
			} else if !isRemove(first) {
				bad = reachAvoiding(fn, first, isRemove, target)
			}
			if bad != nil {
				c.Fail(rule, "(*lake.Branch).commit cleanup", bad.Pos(), "after a failed branch update a path reaches the retry/return without removing the commit object it wrote: an operation that reports failure leaves a visible trace")
			} else {
				c.OK(rule, "(*lake.Branch).commit cleanup", remove.Pos(), "every path after a failed Update removes the commit object")
			}
		}
	}
}

var commitConsumers = map[string]bool{
	"(*lake/commits.Store).Snapshot": true, "(*lake/commits.Store).Path": true, "(*lake/commits.Store).PatchOfPath": true,
	"(*lake/commits.Patch).NewCommitObject": true, "(*lake/commits.Patch).Revert": true,
	"lake/commits.NewAddsObject": true, "lake/commits.NewDeletesObject": true, "lake/commits.NewAddVectorsObject": true,
	"lake/commits.NewDeleteVectorsObject": true, "lake/commits.NewObject": true,
}

// parentTakers: calls whose commit-id argument becomes the new object's parent.
var parentTakers = map[string]bool{
	"(*lake/commits.Patch).NewCommitObject": true, "(*lake/commits.Patch).Revert": true,
	"lake/commits.NewAddsObject": true, "lake/commits.NewDeletesObject": true, "lake/commits.NewAddVectorsObject": true,
	"lake/commits.NewDeleteVectorsObject": true, "lake/commits.NewObject": true,
}

var c12P3Exempt = map[string]string{
	"(*lake.Branch).buildMergeObject -> (*lake/commits.Store).Path":        "the child side of a merge: b is the branch being merged, whose history is read from its own tip",
	"(*lake.Branch).buildMergeObject -> (*lake/commits.Store).PatchOfPath": "the child side of a merge: b is the branch being merged, whose history is read from its own tip",
}

func runC12P3(c *Ctx, rule string) {
	p := c.P
	commitFn := p.Func("(*lake.Branch).commit")
	if commitFn == nil {
		c.Undecided(rule, "(*lake.Branch).commit", "anchor does not resolve")
		return
	}
	n := 0
	for _, s := range callSitesWhere(p, func(_ *ssa.CallCommon, name string) bool { return name == "(*lake.Branch).commit" }) {
		args := s.ci.Common().Args
		mc, ok := stripConv(args[len(args)-1]).(*ssa.MakeClosure)
		if !ok {
			c.Fail(rule, topName(s.fn)+" constructor", s.ci.Pos(), "Branch.commit is given a constructor that is not a closure over the retry's parent")
			continue
		}
		g := mc.Fn.(*ssa.Function)
		n++
		checkConstructor(c, rule, g, g.Params[0], topName(s.fn), 0)
	}
	if n < 8 {
		c.Undecided(rule, "constructors passed to Branch.commit", "fewer than the 8 known commit constructors found")
	}
}

func isCommitOf(v ssa.Value, root ssa.Value) bool {
	ld, ok := v.(*ssa.UnOp)
	if !ok || ld.Op != token.MUL {
		return false
	}
	fa, ok := ld.X.(*ssa.FieldAddr)
	if !ok || fieldName(fa.X.Type(), fa.Field) != "Commit" {
		return false
	}
	x := fa.X
	for i := 0; i < 10; i++ {
		if x == root {
			return true
		}
		switch y := x.(type) {
		case *ssa.FieldAddr:
			x = y.X
		case *ssa.UnOp:
			x = y.X
		default:
			return false
		}
	}
	return false
}

func isStaleBranchCommit(v ssa.Value) bool {
	ld, ok := v.(*ssa.UnOp)
	if !ok || ld.Op != token.MUL {
		return false
	}
	fa, ok := ld.X.(*ssa.FieldAddr)
	if !ok || fieldName(fa.X.Type(), fa.Field) != "Commit" {
		return false
	}
	// rooted at a *lake.Branch (its embedded branches.Config)
	x := fa.X
	for i := 0; i < 10; i++ {
		if namedOf(x.Type()) == "lake.Branch" {
			return true
		}
		switch y := x.(type) {
		case *ssa.FieldAddr:
			x = y.X
		case *ssa.UnOp:
			x = y.X
		default:
			return false
		}
	}
	return false
}

func checkConstructor(c *Ctx, rule string, g *ssa.Function, parent ssa.Value, owner string, depth int) {
	p := c.P
	parentUsed := false
	for _, ci := range allCalls(g) {
		cc := ci.Common()
		name := calleeName(cc)
		// follow same-package helpers that receive the parent
		if callee := cc.StaticCallee(); callee != nil && callee.Blocks != nil && p.PkgOf(callee) == "lake" && depth < 2 {
			for i, a := range cc.Args {
				if a == parent && i < len(callee.Params) {
					checkConstructor(c, rule, callee, callee.Params[i], fnName(callee), depth+1)
					parentUsed = true
				}
			}
		}
		if !commitConsumers[name] {
			continue
		}
		construct := owner + " -> " + name
		// views computed outside the constructor (captured variables) are computed once, not per attempt
		captured := false
		for _, a := range cc.Args {
			tn := namedOf(a.Type())
			if tn != "lake/commits.Patch" && tn != "lake/commits.Snapshot" && tn != "lake/commits.View" {
				continue
			}
			v := stripConv(a)
			if u, ok := v.(*ssa.UnOp); ok {
				v = u.X
			}
			if _, ok := v.(*ssa.FreeVar); ok && depth == 0 {
				captured = true
			}
		}
		if captured {
			c.Fail(rule, construct, ci.Pos(), "the commit object is built from a patch/snapshot that was computed outside the constructor, i.e. once before the retry loop, and merely re-parented on the current tip: a commit that lands on the branch in between is neither seen by the conflict check nor reflected in the object, so a merge/revert can commit a delete of an absent object or a duplicate add (the branch becomes unreadable)")
			continue
		}
		good, stale := false, false
		for _, a := range cc.Args {
			if namedOf(a.Type()) != "github.com/segmentio/ksuid.KSUID" && !strings.HasSuffix(a.Type().String(), "ksuid.KSUID") {
				continue
			}
			if dependsOn(a, func(v ssa.Value) bool { return isCommitOf(v, parent) }) {
				good = true
			}
			if dependsOn(a, isStaleBranchCommit) {
				stale = true
			}
		}
		switch {
		case stale && !good:
			if why, ok := c12P3Exempt[construct]; ok {
				c.OK(rule, construct, ci.Pos(), "exempt: "+why)
			} else {
				c.Fail(rule, construct, ci.Pos(), "built from the branch handle's Commit, which is the tip at the time the handle was opened, not the tip this attempt is parented on: after a concurrent commit (or on a retry) the object is validated/built against the wrong snapshot")
			}
		case parentTakers[name] && !good:
			c.Fail(rule, construct, ci.Pos(), "the new commit object's parent does not derive from the constructor's parent parameter")
		default:
			if good {
				parentUsed = true
			}
			c.OK(rule, construct, ci.Pos(), "derives from the retry's parent")
		}
	}
	_ = parentUsed
}

func runCreatePoolOrder(c *Ctx, rule string) {
	p := c.P
	fn := p.Func("(*lake.Root).CreatePool")
	if fn == nil {
		c.Undecided(rule, "(*lake.Root).CreatePool", "anchor does not resolve")
		return
	}
	creates := callsTo(fn, "lake.CreatePool")
	adds := callsTo(fn, "(*lake/pools.Store).Add")
	if len(creates) != 1 || len(adds) != 1 {
		c.Undecided(rule, "(*lake.Root).CreatePool", "expected one CreatePool and one pools.Add call")
		return
	}
	cr, add := creates[0].(*ssa.Call), adds[0].(*ssa.Call)
	if !dominates(cr, add) {
		c.Fail(rule, "(*lake.Root).CreatePool order", add.Pos(), "the pool name is registered before (or without) its directory, branches journal and main branch being created: a concurrent reader or a crash sees a named pool that cannot be opened")
	} else {
		c.OK(rule, "(*lake.Root).CreatePool order", add.Pos(), "directory, branches journal and main branch exist before the name is registered")
	}
	// after CreatePool succeeded, every return of a non-nil error passes RemovePool
	isRemove := func(in ssa.Instruction) bool {
		ci, ok := in.(*ssa.Call)
		return ok && calleeName(ci.Common()) == "lake.RemovePool"
	}
	errRet := func(in ssa.Instruction) bool {
		r, ok := in.(*ssa.Return)
		return ok && !isNilConst(returnOperand(r, len(r.Results)-1))
	}
	// start after the success check of CreatePool: the false edge of err != nil
	ev := errValueOf(cr)
	var okArm *ssa.BasicBlock
	if ev != nil {
		for _, r := range *ev.Referrers() {
			if cmp, ok := r.(*ssa.BinOp); ok && cmp.Op == token.NEQ && isNilConst(cmp.Y) {
				for _, u := range *cmp.Referrers() {
					if iff, ok := u.(*ssa.If); ok {
						okArm = iff.Block().Succs[1]
					}
				}
			}
		}
	}
	if okArm == nil {
		c.Fail(rule, "(*lake.Root).CreatePool cleanup", cr.Pos(), "the error of CreatePool is not tested")
		return
	}
	first := okArm.Instrs[0]
	var bad ssa.Instruction
	if errRet(first) {
		bad = first
	} else if !isRemove(first) {
		bad = reachAvoiding(fn, first, isRemove, errRet)
	}
	if bad != nil {
		c.Fail(rule, "(*lake.Root).CreatePool cleanup", bad.Pos(), "a failure after the pool directory was created returns without removing it: a failed create leaves a visible trace (and blocks the next create of that ID)")
	} else {
		c.OK(rule, "(*lake.Root).CreatePool cleanup", cr.Pos(), "every failure after CreatePool removes the pool directory")
	}
}

func init() {
	register(&PropertyDef{ID: "C12", Run: runC12,
		Explanation: "Decides the structural protocol conditions linearizability of metadata updates rests on, for all paths: one commit point with a closed set of writers (W1), position and constraint read atomically with reload on a lost race (P1), the optimistic branch-commit protocol with parent check and cleanup (P2), commit contents built against the retry's parent (P3), journal.Store lock discipline (L1), names registered last (N1). Does NOT decide linearizability itself (a property of all interleavings of storage operations), behaviour of non-atomic file puts, or cache coherence between processes.",
		Assumptions: []string{"storage.Engine.PutIfNotExists is atomic on backends that support it", "closures passed to a function run under the lock state at the point the function invokes them"}})
}

// returnsGlobalUnder: fn has a return whose first result is the named package-level error, in a block
// dominated by the given edge (succ 0 = true, 1 = false) of cond.
func returnsGlobalUnder(fn *ssa.Function, global string, cond ssa.Value, succ int) bool {
	for _, b := range fn.Blocks {
		for _, in := range b.Instrs {
			r, ok := in.(*ssa.Return)
			if !ok || len(r.Results) == 0 {
				continue
			}
			if !isGlobalLoad(r.Results[len(r.Results)-1], global) {
				continue
			}
			if edgeDom(cond, b, succ) {
				return true
			}
		}
	}
	return false
}

// runC12P4: uniqueness and compare-and-swap constraints are evaluated against the table, and passed through unchanged.
func runC12P4(c *Ctx) {
	p := c.P
	c.Rule("C12-P4", "constraints are enforced: Insert rejects an existing key, Move checks both keys, commitWithConstraint rejects a missing key and a failed constraint, and the branch/pool stores pass their constraint through to the journal store unchanged")
	tableOK := func(fn *ssa.Function) (present, absent []ssa.Value) {
		for _, b := range fn.Blocks {
			for _, in := range b.Instrs {
				l, ok := in.(*ssa.Lookup)
				if !ok || !l.CommaOk || !isFieldLoad(l.X, "table") {
					continue
				}
				for _, r := range *l.Referrers() {
					if ex, ok := r.(*ssa.Extract); ok && ex.Index == 1 {
						present = append(present, ex)
					}
				}
			}
		}
		return
	}
	check := func(owner string, want []struct {
		global string
		succ   int
		what   string
	}) {
		fn := p.Func("(*lake/journal.Store)." + owner)
		if fn == nil {
			c.Undecided("C12-P4", "(*lake/journal.Store)."+owner, "anchor does not resolve")
			return
		}
		for _, w := range want {
			ok := false
			for _, an := range fn.AnonFuncs {
				oks, _ := tableOK(an)
				for _, o := range oks {
					if returnsGlobalUnder(an, w.global, o, w.succ) {
						ok = true
					}
				}
			}
			construct := "(*lake/journal.Store)." + owner + " " + w.what
			if ok {
				c.OK("C12-P4", construct, fn.Pos(), "returns "+w.global)
			} else {
				c.Fail("C12-P4", construct, fn.Pos(), "the constraint closure no longer returns "+w.global+" when "+w.what+": names stop being unique / lost updates are accepted")
			}
		}
	}
	type w = struct {
		global string
		succ   int
		what   string
	}
	check("Insert", []w{{"ErrKeyExists", 0, "the key already exists"}})
	check("Move", []w{{"ErrNoSuchKey", 1, "the old key is missing"}, {"ErrKeyExists", 0, "the new key already exists"}})
	check("commitWithConstraint", []w{{"ErrNoSuchKey", 1, "the key is missing"}})
	// the constraint itself
	if fn := p.Func("(*lake/journal.Store).commitWithConstraint"); fn != nil {
		ok := false
		for _, an := range fn.AnonFuncs {
			for _, ci := range allCalls(an) {
				call, isCall := ci.(*ssa.Call)
				if !isCall || ci.Common().IsInvoke() || ci.Common().StaticCallee() != nil {
					continue
				}
				if namedOf(ci.Common().Value.Type()) != "lake/journal.Constraint" {
					continue
				}
				// the argument is the entry currently in the table
				if !dependsOn(call.Call.Args[0], func(v ssa.Value) bool {
					l, ok := v.(*ssa.Lookup)
					return ok && isFieldLoad(l.X, "table")
				}) {
					continue
				}
				if returnsGlobalUnder(an, "ErrConstraint", call, 1) {
					ok = true
				}
			}
		}
		if ok {
			c.OK("C12-P4", "(*lake/journal.Store).commitWithConstraint constraint", fn.Pos(), "c(current entry) == false => ErrConstraint")
		} else {
			c.Fail("C12-P4", "(*lake/journal.Store).commitWithConstraint constraint", fn.Pos(), "the caller's constraint is not evaluated on the entry currently in the table with ErrConstraint on failure: the branch tip compare-and-swap degenerates into a blind write (lost updates)")
		}
	}
	// pass-through
	for _, spec := range []struct{ fn, callee string; param, arg int }{
		{"(*lake/branches.Store).Update", "(*lake/journal.Store).Update", 3, 3},
		{"(*lake/journal.Store).Update", "(*lake/journal.Store).commitWithConstraint", 3, 3},
		{"(*lake/journal.Store).Delete", "(*lake/journal.Store).commitWithConstraint", 3, 3},
	} {
		fn := p.Func(spec.fn)
		if fn == nil {
			c.Undecided("C12-P4", spec.fn, "anchor does not resolve")
			continue
		}
		calls := callsTo(fn, spec.callee)
		ok := len(calls) == 1 && spec.param < len(fn.Params) && spec.arg < len(calls[0].Common().Args) && stripConv(calls[0].Common().Args[spec.arg]) == ssa.Value(fn.Params[spec.param])
		if ok {
			c.OK("C12-P4", spec.fn+" passes its constraint on", fn.Pos(), "-> "+spec.callee)
		} else {
			c.Fail("C12-P4", spec.fn+" passes its constraint on", fn.Pos(), "the constraint given by the caller is not the one handed to "+spec.callee)
		}
	}
}

// runC12P5: a loaded journal position never runs ahead of completely written entries.
// HEAD is written after the entry is complete, so positions taken from HEAD are safe.  Positions
// found by probing for the existence of entry files are only safe if entries appear atomically,
// which the local file engine's PutIfNotExists (create O_EXCL, then fill) does not provide.
func runC12P5(c *Ctx) {
	p := c.P
	c.Rule("C12-P5", "the journal store never loads past an entry that may still be half written: positions come from HEAD, or — if entry existence is probed — the file engine's PutIfNotExists makes entries appear atomically (rename/link)")
	load := p.Func("(*lake/journal.Store).load")
	pine := p.Func("(*pkg/storage.FileSystem).PutIfNotExists")
	if load == nil || pine == nil {
		c.Undecided("C12-P5", "journal.Store.load / FileSystem.PutIfNotExists", "anchors do not resolve")
		return
	}
	var probe ssa.Instruction
	var where *ssa.Function
	for g := range reachableStatic([]*ssa.Function{load}, func(f *ssa.Function) bool { return p.PkgOf(f) == "lake/journal" }) {
		for _, ci := range allCalls(g) {
			cc := ci.Common()
			if !isEngineMethod(cc, "Exists", "Size", "List") {
				continue
			}
			for _, a := range cc.Args {
				if dependsOn(a, func(v ssa.Value) bool {
					call, ok := v.(*ssa.Call)
					return ok && (calleeName(call.Common()) == "(*lake/journal.Queue).uri" || isFieldLoad(v, "path"))
				}) {
					probe, where = ci.(ssa.Instruction), g
				}
			}
		}
	}
	atomic := false
	for _, ci := range allCalls(pine) {
		switch calleeName(ci.Common()) {
		case "os.Rename", "os.Link":
			atomic = true
		}
	}
	switch {
	case probe == nil:
		c.OK("C12-P5", "(*lake/journal.Store).load position source", load.Pos(), "no existence probing of entry files on the load path: positions come from HEAD, which is written after the entry is complete")
	case atomic:
		c.OK("C12-P5", "(*lake/journal.Store).load position source", probe.Pos(), "entry existence is probed, and the file engine publishes entries atomically")
	default:
		c.Fail("C12-P5", "(*lake/journal.Store).load position source", probe.Pos(), "the journal store advances to positions found by probing for entry files ("+fnName(where)+"), but the local file engine's PutIfNotExists creates the file before filling it: a reader can load an empty/half-written entry, record that position as loaded, pass a constraint against the stale table and commit on top of it — an acknowledged update is lost")
	}
}
