package main

import (
	"go/ast"
	"go/constant"
	"go/types"
	"sort"
	"strings"

	"golang.org/x/tools/go/ssa"
)

// kindCoverage: the union of the case sets of fn's type switches over iface must contain every required kind.
func kindCoverage(c *Ctx, rule, fnName_, iface string, required []string, consequence string) {
	p := c.P
	fn := p.Func(fnName_)
	if fn == nil {
		c.Undecided(rule, fnName_, "anchor does not resolve")
		return
	}
	tss := typeSwitchOn(p, fn, iface)
	if len(tss) == 0 {
		// the switch may be on TypeUnder(x) etc.: accept any type switch whose cases are of the domain
		d := p.Decl(fn)
		if d != nil {
			for _, ts := range typeSwitches(p.pkgOfFunc(fn).TypesInfo, d.Body) {
				tss = append(tss, ts)
			}
		}
	}
	if len(tss) == 0 {
		c.Undecided(rule, fnName_, "no type switch over "+iface+" found")
		return
	}
	cases := map[string]bool{}
	for _, ts := range tss {
		for k := range ts.cases {
			cases[k] = true
		}
	}
	if len(required) == 0 {
		c.Undecided(rule, fnName_, "empty kind domain for "+iface)
		return
	}
	for _, k := range required {
		construct := fnName_ + " case " + k
		if cases[k] {
			c.OK(rule, construct, tss[0].stmt.Pos(), "handled")
		} else {
			c.Fail(rule, construct, tss[0].stmt.Pos(), k+" has no case here: "+consequence)
		}
	}
}

func zedKinds(p *Prog) (complexKinds, primitives []string) {
	zt := ifaceType(p, "", "Type")
	if zt == nil {
		return
	}
	for _, t := range implementersOf(p, zt, "") {
		if strings.HasPrefix(t, "super.TypeOf") {
			primitives = append(primitives, t)
		} else {
			complexKinds = append(complexKinds, t)
		}
	}
	return
}

func without(xs []string, drop ...string) []string {
	d := setOf(drop...)
	var out []string
	for _, x := range xs {
		if !d[x] {
			out = append(out, x)
		}
	}
	return out
}

func runC02(c *Ctx, tier string) {
	p := c.P
	runLexerDecodesWholeRunes(c, "C02-L1")
	c.Rule("C02-K1", "formatter / parser-analyzer / builder kind tables: every kind of the switched domain (complex zed types, primitive types, ZSON AST nodes, zson.Value nodes, type-value tags) has a case at every dispatch site of package zson, so that whatever one side can emit the other side can read")
	cx, prim := zedKinds(p)
	if len(cx) < 8 || len(prim) < 15 {
		c.Undecided("C02-K1", "zed.Type implementers", "fewer kinds than expected (8 complex, 15+ primitive)")
	}
	lost := "values of that kind are formatted as something the parser reads back as a different type/value (or the formatter panics)"
	kindCoverage(c, "C02-K1", "(*zson.Formatter).formatValue", "super.Type", append(append([]string{}, cx...), "super.TypeOfType"), lost)
	kindCoverage(c, "C02-K1", "(*zson.Formatter).formatTypeBody", "super.Type", cx, "a type decorator of that kind cannot be written (panic in formatTypeBody)")
	kindCoverage(c, "C02-K1", "zson.formatType", "super.Type", cx, "the type is printed as a primitive name")
	kindCoverage(c, "C02-K1", "zson.formatPrimitive", "super.Type", without(prim, "super.TypeOfNull"), "the value is printed as `<ZSON unknown primitive>`")
	kindCoverage(c, "C02-K1", "zson.BuildPrimitive", "super.Type", without(prim, "super.TypeOfNull"), "text of that primitive type cannot be turned back into a value")
	// AST side
	for _, spec := range []struct{ fn, iface, pkg, name, what string }{
		{"(zson.Analyzer).convertValue", "compiler/ast/zed.Value", "compiler/ast/zed", "Value", "a value form the ZSON parser produces is rejected by the analyzer"},
		{"(zson.Analyzer).convertAny", "compiler/ast/zed.Any", "compiler/ast/zed", "Any", "a value form the ZSON parser produces is rejected by the analyzer"},
		{"(zson.Analyzer).convertType", "compiler/ast/zed.Type", "compiler/ast/zed", "Type", "a type form the ZSON parser produces is rejected by the analyzer"},
		{"zson.buildValue", "zson.Value", "zson", "Value", "an analyzed value of that kind cannot be built into a zed.Value"},
	} {
		it := ifaceType(p, spec.pkg, spec.name)
		if it == nil {
			c.Undecided("C02-K1", spec.fn, "interface "+spec.iface+" does not resolve")
			continue
		}
		kindCoverage(c, "C02-K1", spec.fn, spec.iface, instantiatedOnly(p, implementersOf(p, it, spec.pkg)), spec.what)
	}
	// type-value tags: what appendTypeValue emits, formatTypeValue reads
	enc, ftv := p.Func("super.appendTypeValue"), p.Func("(*zson.Formatter).formatTypeValue")
	if enc == nil || ftv == nil {
		c.Undecided("C02-K1", "type value tags", "anchors do not resolve")
	} else {
		e := constsUsedIn(p.Pkgs[""].TypesInfo, p.Decl(enc).Body, "TypeValue")
		delete(e, "TypeValueMax")
		d := caseConsts(p.Pkgs["zson"].TypesInfo, p.Decl(ftv).Body, "TypeValue")
		for _, k := range setDiff(e, nil) {
			if d[k] {
				c.OK("C02-K1", "(*zson.Formatter).formatTypeValue tag "+k, ftv.Pos(), "encoded by appendTypeValue and formatted")
			} else {
				c.Fail("C02-K1", "(*zson.Formatter).formatTypeValue tag "+k, ftv.Pos(), "type values containing "+k+" are encoded but cannot be formatted as ZSON text")
			}
		}
	}
	c.Floor("C02-K1", 60)
	runTypedefLatestWins(c, "C02-K2")
	runElisionEvidence(c, "C02-D1")
	runFloatShortcutSign(c, "C02-N1")
	runMapKeyLexicalUnderlying(c, "C02-M1")
	runSelfDescribingKinds(c, "C02-S2")
	runZSONKindsThroughNamed(c, "C02-U1")
	runTypeNamesQuoted(c, "C02-Q1")
	runMapColonSeparator(c, "C02-M2")
	runDepthCounterBalanced(c, "C02-D2")
	runDuplicateFieldsLastWins(c, "C02-J1")
	runSetLiteralsBecomeSetNodes(c, "C02-S3")
	runEnumSymbolsQuoted(c, "C02-Q2")
}

// ---------------------------------------------------------------- C03

func runC03(c *Ctx, tier string) {
	p := c.P
	runConstColumnByteIdentity(c, "C03-C1")
	c.Rule("C03-K1", "encoder / metadata / builder / loader tables: NewEncoder covers every complex zed type (explicitly, or as a primitive by IsPrimitiveType), NewBuilder and the vector cache's shadow construction cover every vng.Metadata implementer")
	c.Rule("C03-B1", "dictionary selectors are one byte: MaxDictSize <= 256 and the dictionary is abandoned when it grows beyond MaxDictSize")
	c.Rule("C03-O1", "section order in Writer.finalize: metadata stream ended before its size is taken; header, then metadata, then data")
	c.Rule("C03-O2", "layout agreement: for every vng.Encoder that has both, Metadata(off) and Emit(w) visit the same sub-encoders in the same order (offsets are assigned by one and bytes written by the other)")
	cx, _ := zedKinds(p)
	// K1a
	if ne, ic := p.Func("vng.NewEncoder"), p.Func("super.IsContainerType"); ne == nil || ic == nil {
		c.Undecided("C03-K1", "vng.NewEncoder", "anchors do not resolve")
	} else {
		encCases := map[string]bool{}
		for _, ts := range typeSwitchOn(p, ne, "super.Type") {
			for k := range ts.cases {
				encCases[k] = true
			}
		}
		contCases := map[string]bool{}
		for _, ts := range typeSwitchOn(p, ic, "super.Type") {
			for k := range ts.cases {
				contCases[k] = true
			}
		}
		for _, k := range cx {
			construct := "vng.NewEncoder kind " + k
			switch {
			case encCases[k]:
				c.OK("C03-K1", construct, ne.Pos(), "explicit encoder")
			case !contCases[k]:
				c.OK("C03-K1", construct, ne.Pos(), "encoded as a primitive column (IsPrimitiveType is true for it)")
			default:
				c.Fail("C03-K1", construct, ne.Pos(), "values of "+k+" reach the default arm, which panics for container types: such data cannot be written to VNG")
			}
		}
	}
	if mi := ifaceType(p, "vng", "Metadata"); mi == nil {
		c.Undecided("C03-K1", "vng.Metadata", "interface does not resolve")
	} else {
		impls := implementersOf(p, mi, "vng")
		kindCoverage(c, "C03-K1", "vng.NewBuilder", "vng.Metadata", without(impls, "vng.Dynamic"), "a column the writer can describe cannot be read back by the row reader")
		kindCoverage(c, "C03-K1", "runtime/vcache.newShadow", "vng.Metadata", without(impls, "vng.Dynamic"), "a column the writer can describe cannot be loaded by the vector cache")
	}
	// B1
	if pk := p.Pkgs["vng"]; pk == nil {
		c.Undecided("C03-B1", "vng", "package not loaded")
	} else if cst, ok := pk.Types.Scope().Lookup("MaxDictSize").(*types.Const); !ok {
		c.Undecided("C03-B1", "vng.MaxDictSize", "constant does not resolve")
	} else {
		v, _ := constant.Int64Val(constant.ToInt(cst.Val()))
		// selector width: element type of the position map in makeDictVector
		width := int64(0)
		if fn := p.Func("(*vng.PrimitiveEncoder).makeDictVector"); fn != nil {
			for _, b := range fn.Blocks {
				for _, in := range b.Instrs {
					if mm, ok := in.(*ssa.MakeMap); ok {
						if mt, ok := mm.Type().Underlying().(*types.Map); ok {
							if bt, ok := mt.Elem().Underlying().(*types.Basic); ok {
								switch bt.Kind() {
								case types.Uint8:
									width = 1 << 8
								case types.Uint16:
									width = 1 << 16
								case types.Uint32:
									width = 1 << 32
								}
							}
						}
					}
				}
			}
		}
		switch {
		case width == 0:
			c.Undecided("C03-B1", "vng.MaxDictSize", "selector map in makeDictVector not found")
		case v > width:
			c.Fail("C03-B1", "vng.MaxDictSize", cst.Pos(), "MaxDictSize ("+sprint(int(v))+") exceeds what a selector can address ("+sprint(int(width))+"): the 257th distinct value wraps around and rows silently read back as another value")
		default:
			c.OK("C03-B1", "vng.MaxDictSize", cst.Pos(), sprint(int(v))+" <= "+sprint(int(width))+" (selector width)")
		}
		// the dictionary is dropped when it outgrows MaxDictSize
		guard := false
		if fn := p.Func("(*vng.PrimitiveEncoder).update"); fn != nil {
			for _, b := range fn.Blocks {
				for _, in := range b.Instrs {
					if cmp, ok := in.(*ssa.BinOp); ok && cmp.Op.String() == ">" {
						if k, ok := cmp.Y.(*ssa.Const); ok && k.Value != nil && k.Int64() == v {
							guard = true
						}
					}
				}
			}
		}
		if guard {
			c.OK("C03-B1", "(*vng.PrimitiveEncoder).update dictionary bound", cst.Pos(), "len(dict) > MaxDictSize abandons the dictionary")
		} else {
			c.Fail("C03-B1", "(*vng.PrimitiveEncoder).update dictionary bound", cst.Pos(), "the dictionary is no longer abandoned when it outgrows MaxDictSize")
		}
	}
	runDictBoundAfterInsert(c, "C03-B1")
	runBitmapWordCopies(c, "C03-N1")
	runProjectionPrefix(c, "C03-P1")
	runSerializeHonoursNulls(c, "C03-U1")
	runDictOrderTotal(c, "C03-D1")
	runNilSliceIndex(c, "C03-X1", "vng", "runtime/vcache", "vector", "zio/vngio", "runtime/vam/op", "runtime/vam/expr", "runtime/vam/expr/function", "runtime/vam/expr/agg")
	// O1
	if fn := p.Func("(*vng.Writer).finalize"); fn == nil {
		c.Undecided("C03-O1", "(*vng.Writer).finalize", "anchor does not resolve")
	} else {
		var endStream, position, hdr, meta, emit ssa.Instruction
		for _, ci := range allCalls(fn) {
			cc := ci.Common()
			switch calleeName(cc) {
			case "(*zio/zngio.Writer).EndStream":
				endStream = ci.(ssa.Instruction)
			case "(*zio/zngio.Writer).Position":
				position = ci.(ssa.Instruction)
			case "(*vng.DynamicEncoder).Emit":
				emit = ci.(ssa.Instruction)
			}
			if cc.IsInvoke() && cc.Method.Name() == "Write" && namedOf(cc.Value.Type()) == "io.WriteCloser" || (cc.IsInvoke() && cc.Method.Name() == "Write" && strings.HasPrefix(short(cc.Value.Type().String()), "io.")) {
				if dependsOn(cc.Args[0], func(v ssa.Value) bool {
					call, ok := v.(*ssa.Call)
					return ok && calleeName(call.Common()) == "(vng.Header).Serialize"
				}) {
					hdr = ci.(ssa.Instruction)
				} else {
					meta = ci.(ssa.Instruction)
				}
			}
		}
		switch {
		case endStream == nil || position == nil || hdr == nil || meta == nil || emit == nil:
			c.Undecided("C03-O1", "(*vng.Writer).finalize", "EndStream / Position / header write / metadata write / Emit not all found")
		case !dominates(endStream, position):
			c.Fail("C03-O1", "(*vng.Writer).finalize", position.Pos(), "the metadata size is taken before the metadata stream is ended: the header's MetaSize excludes the trailing frames and the reader mis-locates the data section")
		case !(dominates(hdr, meta) && dominates(meta, emit)):
			c.Fail("C03-O1", "(*vng.Writer).finalize", hdr.Pos(), "sections are not written in the order header, metadata, data")
		default:
			c.OK("C03-O1", "(*vng.Writer).finalize", hdr.Pos(), "EndStream -> Position; header -> metadata -> data")
		}
	}
	// O2
	pk := p.Pkgs["vng"]
	ei := ifaceType(p, "vng", "Encoder")
	if pk == nil || ei == nil {
		c.Undecided("C03-O2", "vng.Encoder", "interface does not resolve")
		return
	}
	n := 0
	for _, tname := range implementersOf(p, ei, "vng") {
		short := strings.TrimPrefix(tname, "vng.")
		mfn, efn := p.Func("(*vng."+short+").Metadata"), p.Func("(*vng."+short+").Emit")
		if mfn == nil || efn == nil || p.Decl(mfn) == nil || p.Decl(efn) == nil {
			continue
		}
		ms := subCallSeq(pk.TypesInfo, p.Decl(mfn), "Metadata")
		es := subCallSeq(pk.TypesInfo, p.Decl(efn), "Emit")
		if len(ms) == 0 && len(es) == 0 {
			continue
		}
		n++
		construct := "vng." + short + " Metadata/Emit order"
		if strings.Join(ms, ",") == strings.Join(es, ",") {
			c.OK("C03-O2", construct, mfn.Pos(), "both visit ["+strings.Join(ms, ", ")+"]")
		} else {
			c.Fail("C03-O2", construct, efn.Pos(), "Metadata assigns segment offsets in the order ["+strings.Join(ms, ", ")+"] but Emit writes the bytes in the order ["+strings.Join(es, ", ")+"]: every segment after the first difference is read from the wrong offset")
		}
	}
	if n < 5 {
		c.Undecided("C03-O2", "vng encoders", "fewer than 5 encoders with sub-encoders found")
	}
	_ = sort.Strings
	runFlattenedNullsCached(c, "C03-F1")
	runSlotAlignedChildrenInheritNulls(c, "C03-E1")
	runVcacheLoadsWhatItProjects(c, "C03-P2")
	runVcachePrimitiveCoverage(c, "C03-K2")
	runNullsMarkedLoadedAtEOF(c, "C03-F2")
}

// subCallSeq lists, in source order, the receivers of calls to method `name` in fd's body;
// receivers that are range variables are named after the ranged expression.
func subCallSeq(info *types.Info, fd *ast.FuncDecl, name string) []string {
	ranges := map[types.Object]string{}
	ast.Inspect(fd.Body, func(n ast.Node) bool {
		if rs, ok := n.(*ast.RangeStmt); ok {
			for _, v := range []ast.Expr{rs.Key, rs.Value} {
				if id, ok := v.(*ast.Ident); ok && id != nil {
					if o := info.Defs[id]; o != nil {
						ranges[o] = "each(" + stripRecv(types.ExprString(rs.X)) + ")"
					}
				}
			}
		}
		return true
	})
	var out []string
	ast.Inspect(fd.Body, func(n ast.Node) bool {
		call, ok := n.(*ast.CallExpr)
		if !ok {
			return true
		}
		sel, ok := call.Fun.(*ast.SelectorExpr)
		if !ok || sel.Sel.Name != name {
			return true
		}
		if id, ok := sel.X.(*ast.Ident); ok {
			if o := info.Uses[id]; o != nil {
				if r, ok := ranges[o]; ok {
					out = append(out, r)
					return true
				}
			}
		}
		out = append(out, stripRecv(types.ExprString(sel.X)))
		return true
	})
	return out
}

// stripRecv drops the receiver variable name: "a.lengths" -> ".lengths".
func stripRecv(s string) string {
	if i := strings.Index(s, "."); i >= 0 {
		return s[i:]
	}
	return s
}

func init() {
	register(&PropertyDef{ID: "C02", Run: runC02,
		Explanation: "Decides the kind-table clause of the ZSON round trip: at every dispatch site of package zson (formatter over zed types and primitives, type-value formatter, analyzer over AST nodes, builder over analyzed values) every kind of the switched domain — computed from the implementers of the interface on each run — has a case. Does NOT decide what the text denotes: decorator elision, float/time/IP spelling, quoting, typedef scoping or JSON semantics.",
		Assumptions: []string{"the domain of a switch is the set of implementers of its tag's interface in the defining package"}})
	register(&PropertyDef{ID: "C03", Run: runC03,
		Explanation: "Decides structural conditions of the VNG round trip: encoder/builder/loader kind tables (K1), one-byte dictionary selectors vs MaxDictSize (B1), section order in the writer (O1), and agreement of the sub-encoder visiting order between Metadata (which assigns offsets) and Emit (which writes bytes) for every encoder (O2). Does NOT decide statistics-driven encoding choices, null run lengths, tag vectors or projection results.",
		Assumptions: []string{"sub-encoder order is read from the source order of the calls in each method"}})
}

var instCache map[string]bool

// instantiatedOnly keeps the named types that some function of the module actually constructs
// (allocation or conversion to an interface); node kinds no parser ever produces are not obligations.
func instantiatedOnly(p *Prog, kinds []string) []string {
	if instCache == nil {
		instCache = map[string]bool{}
		for _, fn := range p.Funcs {
			for _, b := range fn.Blocks {
				for _, in := range b.Instrs {
					switch x := in.(type) {
					case *ssa.Alloc:
						instCache[namedOf(x.Type())] = true
					case *ssa.MakeInterface:
						instCache[namedOf(x.X.Type())] = true
					}
				}
			}
		}
	}
	var out []string
	for _, k := range kinds {
		if instCache[k] {
			out = append(out, k)
		}
	}
	return out
}
