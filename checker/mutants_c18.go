package main

func init() {
	addMutants(
		Mutant{"C18", "c18-flush-swallow", "zio/zngio/writer.go", "Writer.flush",
			"if err := w.writeBlock(ValuesFrame, w.values); err != nil {\n\t\treturn err", "if err := w.writeBlock(ValuesFrame, w.values); err != nil {\n\t\treturn nil",
			"C18-E2", "(*zio/zngio.Writer).flush -> (*zio/zngio.Writer).writeBlock"},
		Mutant{"C18", "c18-writeblock-drop", "zio/zngio/writer.go", "Writer.writeBlock",
			"return w.write(zbuf)", "_ = w.write(zbuf)\n\t\t\treturn nil",
			"C18-E1", "(*zio/zngio.Writer).writeBlock -> (*zio/zngio.Writer).write"},
		Mutant{"C18", "c18-bufwriter-noflushcheck", "pkg/bufwriter/writer.go", "Writer.Close",
			"if err := w.Writer.Flush(); err != nil {\n\t\treturn err\n\t}", "w.Writer.Flush()",
			"C18-E1", "(*pkg/bufwriter.Writer).Close -> (*bufio.Writer).Flush"},
		Mutant{"C18", "c18-bufwriter-noflush", "pkg/bufwriter/writer.go", "Writer.Close",
			"if err := w.Writer.Flush(); err != nil {\n\t\treturn err\n\t}", "",
			"C18-E4", "pkg/bufwriter.Writer.Writer"},
		Mutant{"C18", "c18-csv-close-noerror", "zio/csvio/writer.go", "Writer.Close",
			"err := w.Flush()", "w.encoder.Flush()\n\tvar err error",
			"C18-E3", "(*zio/csvio.Writer).Close"},
		Mutant{"C18", "c18-copy-ignores-write", "zio/zio.go", "CopyWithContext",
			"if err := dst.Write(*rec); err != nil {\n\t\t\treturn err\n\t\t}", "dst.Write(*rec)",
			"C18-E1", "zio.CopyWithContext -> (zio.Writer).Write"},
		Mutant{"C18", "c18-jsonio-noflush", "zio/jsonio/writer.go", "Writer.Write",
			"return w.writer.Flush()", "return nil",
			"C18-E4", "zio/jsonio.Writer.writer"},
		Mutant{"C18", "c18-close-drops-endstream", "zio/zngio/writer.go", "Writer.Close",
			"err := w.EndStream()", "w.EndStream()\n\tvar err error",
			"C18-E1", "(*zio/zngio.Writer).Close -> (*zio/zngio.Writer).EndStream"},
		Mutant{"C18", "c18-zson-close-forgets-sink", "zio/zsonio/writer.go", "Writer.Close",
			"return w.writer.Close()", "return nil", "C18-E5", "zio/zsonio.Writer.Close"},
	)
}
