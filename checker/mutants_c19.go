package main

func init() {
	addMutants(
		Mutant{"C19", "c19-handler-silent-return", "service/handlers.go", "handleBranchDelete",
			"if err := c.root.RemoveBranch(r.Context(), poolID, branchName); err != nil {\n\t\tw.Error(err)\n\t\treturn\n\t}", "if err := c.root.RemoveBranch(r.Context(), poolID, branchName); err != nil {\n\t\treturn\n\t}", "C19-E1", "service.handleBranchDelete -> (*lake.Root).RemoveBranch"},
		Mutant{"C19", "c19-handler-drops-error", "service/handlers.go", "handleBranchDelete",
			"if err := c.root.RemoveBranch(r.Context(), poolID, branchName); err != nil {\n\t\tw.Error(err)\n\t\treturn\n\t}", "c.root.RemoveBranch(r.Context(), poolID, branchName)", "C19-E1", "service.handleBranchDelete -> (*lake.Root).RemoveBranch"},
		Mutant{"C19", "c19-query-late-error-silent", "service/handlers.go", "handleQuery",
			"w.Logger.Warn(\"Error writing batch\", zap.Error(err))\n\t\t\t\thandleError(err)\n\t\t\t\treturn", "w.Logger.Warn(\"Error writing batch\", zap.Error(err))\n\t\t\t\treturn", "C19-E1", "service.handleQuery -> (*api/queryio.Writer).WriteBatch"},
		Mutant{"C19", "c19-client-drops-error-arm", "api/queryio/client.go", "scanner.Pull",
			"case *api.QueryError:\n\t\treturn nil, errors.New(ctrl.Error)\n", "case *api.QueryWarning:\n\t\treturn nil, errors.New(ctrl.Warning)\n", "C19-K1", "api.QueryError"},
		Mutant{"C19", "c19-client-error-as-eos", "api/queryio/client.go", "scanner.Pull",
			"return nil, errors.New(ctrl.Error)", "_ = errors.New\n\t\treturn nil, nil", "C19-K1", "QueryError becomes an error"},
		Mutant{"C19", "c19-unbound-stats", "api/queryio/unmarshal.go", "init",
			"api.QueryStats{},\n", "", "C19-K1", "api.QueryStats"},
		Mutant{"C19", "c19-remote-stub", "lake/api/remote.go", "remote.RemoveBranch",
			"return r.conn.RemoveBranch(ctx, poolID, branchName)", "return errors.New(\"TBD remote.RemoveBranch\")", "C19-K2", "(*lake/api.remote).RemoveBranch"},
		Mutant{"C19", "c19-load-writer-owns-pipe", "lake/api/remote.go", "remote.Load",
			"w := zngio.NewWriter(zio.NopCloser(pw))", "w := zngio.NewWriter(pw)", "C19-E3", "pipe ownership"},
	)
}
