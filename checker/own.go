package main

import (
	"go/token"
	"go/types"
	"strings"

	"golang.org/x/tools/go/ssa"
)

// E-own: a borrowed zed.Value / byte slice (a Write/Consume argument, a value
// handed out by a Reader, a batch element) must not be retained — stored in
// receiver state, a global, a channel — unless it went through a copy.

type ownSink struct {
	in   ssa.Instruction
	why  string
	path []string
}

type ownEngine struct {
	p            *Prog
	returnIsSink bool
	maxDepth     int
	reports      []ownSink
	memo         map[*ssa.Function]map[int]bool // function -> tainted param idx -> returns tainted
	active       map[*ssa.Function]bool
}

func newOwnEngine(p *Prog) *ownEngine {
	return &ownEngine{p: p, maxDepth: 3, memo: map[*ssa.Function]map[int]bool{}, active: map[*ssa.Function]bool{}}
}

var ownSanitizers = map[string]bool{
	"(super.Value).Copy": true, "(*super.Value).CopyFrom": true, "bytes.Clone": true, "slices.Clone": true,
	"zcode.Append": true, "(*zcode.Builder).Append": true, "(super.Value).Encode": true, "(super.Value).String": true,
	"zson.FormatValue": true, "zson.String": true, "(super.Value).Equal": true, "bytes.Equal": true, "bytes.Compare": true,
	"(*zcode.Builder).BeginContainer": true, "super.BuildUnion": true, "(super.Value).Validate": true,
	"(super.Value).Type": true, "(super.Value).IsNull": true, "(super.Value).IsError": true, "(super.Value).IsMissing": true,
	"(*super.Value).IsMissing": true, "(super.Value).IsQuiet": true, "(super.Value).Bool": true, "(super.Value).Int": true,
	"(super.Value).Uint": true, "(super.Value).Float": true, "(*super.Value).AsInt": true, "(*super.Value).AsBool": true, "(*super.Value).AsTime": true,
	"(super.Value).ContainerLength": true, "(super.Value).IsContainer": true, "(super.Value).IsString": true,
}

func ownTracked(t types.Type) bool { return ownTrackedD(t, 0) }

func ownTrackedD(t types.Type, d int) bool {
	if d > 4 {
		return false
	}
	switch n := namedOf(t); n {
	case "super.Value", "zcode.Bytes", "zcode.Iter":
		return true
	}
	switch u := t.Underlying().(type) {
	case *types.Slice:
		if b, ok := u.Elem().Underlying().(*types.Basic); ok && b.Kind() == types.Byte {
			return true
		}
		return ownTrackedD(u.Elem(), d+1)
	case *types.Pointer:
		return ownTrackedD(u.Elem(), d+1)
	case *types.Map:
		return ownTrackedD(u.Elem(), d+1) || ownTrackedD(u.Key(), d+1)
	case *types.Struct:
		for i := 0; i < u.NumFields(); i++ {
			if ownTrackedD(u.Field(i).Type(), d+1) {
				return true
			}
			// a struct shaped like zed.Value (agg.Any is one): base *byte
			if p, ok := u.Field(i).Type().(*types.Pointer); ok && u.Field(i).Name() == "base" {
				if b, ok := p.Elem().(*types.Basic); ok && b.Kind() == types.Byte {
					return true
				}
			}
		}
	case *types.Tuple:
		for i := 0; i < u.Len(); i++ {
			if ownTrackedD(u.At(i).Type(), d+1) {
				return true
			}
		}
	}
	// strings are copies (zed.DecodeString) except byteconv.UnsafeString, handled at the call
	return false
}

// addrRoot classifies where an address ultimately lives.
func addrRoot(fn *ssa.Function, v ssa.Value) (kind string, root ssa.Value) {
	return addrRootV(fn, v, map[ssa.Value]bool{})
}

func addrRootV(fn *ssa.Function, v ssa.Value, seen map[ssa.Value]bool) (kind string, root ssa.Value) {
	for i := 0; i < 50; i++ {
		if seen[v] {
			return "local", v
		}
		seen[v] = true
		switch x := v.(type) {
		case *ssa.FieldAddr:
			v = x.X
		case *ssa.IndexAddr:
			v = x.X
		case *ssa.Field:
			v = x.X
		case *ssa.Index:
			v = x.X
		case *ssa.Lookup:
			v = x.X
		case *ssa.Slice:
			v = x.X
		case *ssa.UnOp:
			if x.Op == token.MUL {
				v = x.X
				continue
			}
			return "other", v
		case *ssa.ChangeType:
			v = x.X
		case *ssa.Convert:
			v = x.X
		case *ssa.Phi:
			// any edge that is retained makes it retained
			for _, e := range x.Edges {
				if k, r := addrRootV(fn, e, seen); k == "retained" {
					return k, r
				}
			}
			return "local", v
		case *ssa.Parameter:
			return "retained", v // receiver or caller-provided object
		case *ssa.FreeVar, *ssa.Global:
			return "retained", v
		case *ssa.Alloc:
			return "local", v
		case *ssa.Extract:
			v = x.Tuple
		case *ssa.Call:
			// pointer obtained from a call on retained state (e.g. table lookup helper)
			if len(x.Call.Args) > 0 {
				if k, r := addrRootV(fn, x.Call.Args[0], seen); k == "retained" {
					return k, r
				}
			}
			return "local", v
		case *ssa.MakeSlice, *ssa.MakeMap:
			return "local", v
		default:
			return "other", v
		}
	}
	return "other", v
}

// run analyses fn with the given tainted values; returns whether a tainted value is returned.
func (e *ownEngine) run(fn *ssa.Function, sources []ssa.Value, path []string, depth int) (returnsTainted bool) {
	seen := map[ssa.Value]bool{}
	path = append(path, constructName(fn))
	var visit func(v ssa.Value)
	report := func(in ssa.Instruction, why string) {
		e.reports = append(e.reports, ownSink{in, why, append([]string{}, path...)})
	}
	visit = func(v ssa.Value) {
		if v == nil || seen[v] {
			return
		}
		seen[v] = true
		refs := v.Referrers()
		if refs == nil {
			return
		}
		for _, r := range *refs {
			switch x := r.(type) {
			case *ssa.DebugRef, *ssa.If, *ssa.BinOp, *ssa.Range, *ssa.RunDefers:
			case *ssa.Phi:
				if !phiOnlyNil(x, v) {
					visit(x)
				}
			case *ssa.ChangeType, *ssa.MakeInterface, *ssa.ChangeInterface, *ssa.Slice, *ssa.Field, *ssa.FieldAddr, *ssa.IndexAddr, *ssa.Index, *ssa.TypeAssert, *ssa.Extract, *ssa.Lookup, *ssa.Next:
				if val, ok := r.(ssa.Value); ok && (ownTracked(val.Type()) || isAddrOfTracked(val)) {
					visit(val)
				}
			case *ssa.Convert:
				if b, ok := x.Type().Underlying().(*types.Basic); ok && b.Kind() == types.String {
					continue // string(b) copies
				}
				visit(x)
			case *ssa.UnOp:
				if x.Op == token.MUL && ownTracked(x.Type()) {
					visit(x)
				}
			case *ssa.Return:
				returnsTainted = true
				if e.returnIsSink && depth == 0 {
					report(x, "returned to the caller")
				}
			case *ssa.Send:
				if x.X == v {
					report(x, "sent on a channel")
				}
			case *ssa.MapUpdate:
				if x.Value == v || x.Key == v {
					if k, _ := addrRoot(fn, x.Map); k == "retained" {
						report(x, "stored in a map held by the receiver")
					} else if a, ok := rootAlloc(x.Map); ok {
						visit(a)
					}
				}
			case *ssa.Store:
				if x.Val != v {
					continue
				}
				k, root := addrRoot(fn, x.Addr)
				switch k {
				case "retained":
					report(x, "stored in state that outlives the call ("+describeAddr(x.Addr)+")")
				case "local":
					if root != nil {
						visit(root)
					}
				}
			case *ssa.MakeClosure:
				// captured by a closure: analyse the closure body with the free variable tainted
				if g, ok := x.Fn.(*ssa.Function); ok && depth < e.maxDepth {
					for i, b := range x.Bindings {
						if b == v && i < len(g.FreeVars) {
							e.run(g, []ssa.Value{g.FreeVars[i]}, path, depth+1)
						}
					}
				}
			case ssa.CallInstruction:
				cc := x.Common()
				name := calleeName(cc)
				if ownSanitizers[name] {
					continue
				}
				if bi, ok := cc.Value.(*ssa.Builtin); ok {
					switch bi.Name() {
					case "append":
						// append(dst, elems...) — a borrowed element makes the result hold it;
						// a borrowed []byte spread into a []byte destination is a copy.
						call, isCall := x.(*ssa.Call)
						if !isCall {
							continue
						}
						if len(cc.Args) == 2 && cc.Args[1] == v {
							if isByteSlice(call.Type()) {
								continue // bytes copied into dst
							}
							visit(call)
						}
						if cc.Args[0] == v {
							visit(call)
						}
					case "copy", "len", "cap", "print", "println", "clear", "delete":
					default:
					}
					continue
				}
				call, isCall := x.(*ssa.Call)
				callee := cc.StaticCallee()
				if callee != nil && callee.Blocks != nil && e.p.PkgOf(callee) == e.p.PkgOf(fn) && depth < e.maxDepth && !e.active[callee] {
					// same-package callee: follow
					var idxs []int
					for i, a := range cc.Args {
						if a == v {
							idxs = append(idxs, i)
						}
					}
					ret := false
					for _, i := range idxs {
						if i < len(callee.Params) {
							e.active[callee] = true
							if e.run(callee, []ssa.Value{callee.Params[i]}, path, depth+1) {
								ret = true
							}
							delete(e.active, callee)
						}
					}
					if ret && isCall && ownTracked(call.Type()) {
						visit(call)
					}
					continue
				}
				// derivers: functions of zed / zcode that return a view of their argument
				if isCall && ownTracked(call.Type()) && isDeriver(cc, name) {
					visit(call)
				}
				if isCall && name == "pkg/byteconv.UnsafeString" {
					visit(call) // a string that aliases the bytes
				}
			}
		}
	}
	for _, s := range sources {
		visit(s)
	}
	return
}

func isByteSlice(t types.Type) bool {
	if s, ok := t.Underlying().(*types.Slice); ok {
		if b, ok := s.Elem().Underlying().(*types.Basic); ok && b.Kind() == types.Byte {
			return true
		}
	}
	return false
}

func isAddrOfTracked(v ssa.Value) bool {
	if p, ok := v.Type().Underlying().(*types.Pointer); ok {
		return ownTracked(p.Elem())
	}
	return false
}

func rootAlloc(v ssa.Value) (ssa.Value, bool) {
	for i := 0; i < 20; i++ {
		switch x := v.(type) {
		case *ssa.UnOp:
			v = x.X
		case *ssa.FieldAddr:
			v = x.X
		case *ssa.Alloc:
			return x, true
		case *ssa.MakeMap:
			return x, true
		default:
			return nil, false
		}
	}
	return nil, false
}

// isDeriver: a call whose result may alias its (tainted) argument.
func isDeriver(cc *ssa.CallCommon, name string) bool {
	if cc.IsInvoke() {
		// evaluator results may alias `this`
		n := namedOf(cc.Value.Type())
		return n == "runtime/sam/expr.Evaluator" || n == "zio.Reader" || n == "zbuf.Batch"
	}
	f := cc.StaticCallee()
	if f == nil {
		return false
	}
	pk := pkgPathOf(f)
	return pk == modPath || pk == modPath+"/zcode" || strings.HasPrefix(name, "(*super.Value)") || strings.HasPrefix(name, "(super.Value)")
}

func describeAddr(v ssa.Value) string {
	if p := fieldPath(v); p != "" {
		return p
	}
	switch x := v.(type) {
	case *ssa.IndexAddr:
		return describeAddr(x.X) + "[i]"
	case *ssa.FieldAddr:
		return describeAddr(x.X) + "." + fieldName(x.X.Type(), x.Field)
	case *ssa.UnOp:
		return describeAddr(x.X)
	case *ssa.Global:
		return x.Name()
	}
	return "field"
}

// phiOnlyNil: every edge on which v enters the phi is one where v is known to be nil
// (the false edge of `v != nil` / true edge of `v == nil`).
func phiOnlyNil(phi *ssa.Phi, v ssa.Value) bool {
	any := false
	for i, e := range phi.Edges {
		if e != v {
			continue
		}
		any = true
		pred := phi.Block().Preds[i]
		iff, ok := pred.Instrs[len(pred.Instrs)-1].(*ssa.If)
		if !ok {
			return false
		}
		cmp, ok := iff.Cond.(*ssa.BinOp)
		if !ok || !((cmp.X == v && isNilConst(cmp.Y)) || (cmp.Y == v && isNilConst(cmp.X))) {
			return false
		}
		nilSucc := 1
		if cmp.Op == token.EQL {
			nilSucc = 0
		} else if cmp.Op != token.NEQ {
			return false
		}
		if pred.Succs[nilSucc] != phi.Block() || pred.Succs[1-nilSucc] == phi.Block() {
			return false
		}
	}
	return any
}
