package main

import (
	"fmt"
	"go/ast"
	"go/token"
	"go/types"
)

// nilFlow evaluates a statement list that combines two optional (nil-able) sub-results
// L and R into a result, for a given nil-ness of L and R.  It understands
//   x, err := rec(e.LHS) / rec(e.RHS)        bindings
//   if <cond over x == nil, ||, &&, !> { ... } [else {...}]
//   return <x | nil | ctor(x, y)> [, err]
// Conditions over other variables (err) are taken as false.
type nilFlow struct {
	info    *types.Info
	recName string                      // name of the recursive compile function
	ctor    func(fn *types.Func) string // constructor -> "and"/"or"/""
}

func (nf *nilFlow) eval(stmts []ast.Stmt, lnil, rnil bool) (res string, done bool, err string) {
	vars := map[string]string{}
	var cond func(e ast.Expr) (bool, string)
	cond = func(e ast.Expr) (bool, string) {
		switch x := ast.Unparen(e).(type) {
		case *ast.BinaryExpr:
			switch x.Op {
			case token.LOR, token.LAND:
				a, e1 := cond(x.X)
				if e1 != "" {
					return false, e1
				}
				b, e2 := cond(x.Y)
				if e2 != "" {
					return false, e2
				}
				if x.Op == token.LOR {
					return a || b, ""
				}
				return a && b, ""
			case token.EQL, token.NEQ:
				id, ok := x.X.(*ast.Ident)
				if !ok || types.ExprString(x.Y) != "nil" {
					return false, "unrecognised condition " + types.ExprString(e)
				}
				side, known := vars[id.Name]
				if !known {
					return x.Op == token.EQL, "" // e.g. err: no error, so err == nil is true, err != nil false
				}
				isNil := lnil
				if side == "R" {
					isNil = rnil
				}
				if x.Op == token.EQL {
					return isNil, ""
				}
				return !isNil, ""
			}
		case *ast.UnaryExpr:
			if x.Op == token.NOT {
				v, e1 := cond(x.X)
				return !v, e1
			}
		}
		return false, "unrecognised condition " + types.ExprString(e)
	}
	var result func(e ast.Expr) (string, string)
	result = func(e ast.Expr) (string, string) {
		switch x := ast.Unparen(e).(type) {
		case *ast.Ident:
			if x.Name == "nil" {
				return "nil", ""
			}
			if side, ok := vars[x.Name]; ok {
				if (side == "L" && lnil) || (side == "R" && rnil) {
					return "nil", ""
				}
				return side, ""
			}
		case *ast.CallExpr:
			if fn := calleeObj(nf.info, x); fn != nil && len(x.Args) == 2 {
				if op := nf.ctor(fn); op != "" {
					a, e1 := result(x.Args[0])
					b, e2 := result(x.Args[1])
					if e1 != "" || e2 != "" {
						return "", e1 + e2
					}
					if a == "nil" || b == "nil" {
						return "", "constructor over a nil operand"
					}
					return op + "(" + a + "," + b + ")", ""
				}
			}
		}
		return "", "unrecognised result " + types.ExprString(e)
	}
	var run func(stmts []ast.Stmt) (string, bool, string)
	run = func(stmts []ast.Stmt) (string, bool, string) {
		for _, st := range stmts {
			switch x := st.(type) {
			case *ast.AssignStmt:
				if len(x.Rhs) == 1 {
					if call, ok := x.Rhs[0].(*ast.CallExpr); ok {
						if fn := calleeObj(nf.info, call); fn != nil && fn.Name() == nf.recName {
							id, _ := x.Lhs[0].(*ast.Ident)
							for _, a := range call.Args {
								if sel, ok := a.(*ast.SelectorExpr); ok && id != nil {
									switch sel.Sel.Name {
									case "LHS":
										vars[id.Name] = "L"
									case "RHS":
										vars[id.Name] = "R"
									}
								}
							}
							continue
						}
					}
				}
				return "", false, fmt.Sprintf("unrecognised statement %T", st)
			case *ast.IfStmt:
				if x.Init != nil {
					return "", false, "if with init"
				}
				cv, e := cond(x.Cond)
				if e != "" {
					return "", false, e
				}
				if cv {
					return run(x.Body.List)
				}
				if x.Else != nil {
					if blk, ok := x.Else.(*ast.BlockStmt); ok {
						if r, d, e := run(blk.List); d || e != "" {
							return r, d, e
						}
					} else {
						return "", false, "else-if"
					}
				}
			case *ast.ReturnStmt:
				if len(x.Results) == 0 {
					return "", false, "bare return"
				}
				r, e := result(x.Results[0])
				return r, e == "", e
			default:
				return "", false, fmt.Sprintf("unrecognised statement %T", st)
			}
		}
		return "", false, ""
	}
	return run(stmts)
}

// evalFilterTerm evaluates a composed over-approximation term given the sub-filters' outcomes.
func evalFilterTerm(t string, f1, f2 bool) bool {
	switch t {
	case "nil":
		return true // no filter: everything passes
	case "L":
		return f1
	case "R":
		return f2
	case "and(L,R)", "and(R,L)":
		return f1 && f2
	case "or(L,R)", "or(R,L)":
		return f1 || f2
	}
	return false
}

// C04-F1: the buffer filter is only ever an over-approximation of the predicate.
func runC04F1(c *Ctx) {
	p := c.P
	pk := p.Pkgs["compiler/kernel"]
	fn := p.Func("compiler/kernel.CompileBufferFilter")
	if pk == nil || fn == nil || p.Decl(fn) == nil {
		c.Undecided("C04-F1", "compiler/kernel.CompileBufferFilter", "anchor does not resolve")
		return
	}
	nf := &nilFlow{info: pk.TypesInfo, recName: "CompileBufferFilter", ctor: func(f *types.Func) string {
		switch f.Name() {
		case "NewAndBufferFilter":
			return "and"
		case "NewOrBufferFilter":
			return "or"
		}
		return ""
	}}
	found := map[string]bool{}
	ast.Inspect(p.Decl(fn).Body, func(n ast.Node) bool {
		is, ok := n.(*ast.IfStmt)
		if !ok {
			return true
		}
		be, ok := is.Cond.(*ast.BinaryExpr)
		if !ok || be.Op != token.EQL {
			return true
		}
		sel, ok := be.X.(*ast.SelectorExpr)
		op, isStr := constString(pk.TypesInfo, be.Y)
		if !ok || sel.Sel.Name != "Op" || !isStr || (op != "and" && op != "or") {
			return true
		}
		found[op] = true
		construct := "CompileBufferFilter composition for `" + op + "`"
		bad := ""
		for _, lnil := range []bool{false, true} {
			for _, rnil := range []bool{false, true} {
				term, done, e := nf.eval(is.Body.List, lnil, rnil)
				if e != "" || !done {
					c.Undecided("C04-F1", construct, "arm shape not recognised: "+e)
					return true
				}
				// all predicate/filter outcomes with sound sub-filters (p => f; nil filter passes everything)
				for m := 0; m < 16; m++ {
					p1, f1, p2, f2 := m&1 != 0, m&2 != 0, m&4 != 0, m&8 != 0
					if lnil {
						f1 = true
					}
					if rnil {
						f2 = true
					}
					if (p1 && !f1) || (p2 && !f2) {
						continue
					}
					pred := p1 && p2
					if op == "or" {
						pred = p1 || p2
					}
					if pred && !evalFilterTerm(term, f1, f2) {
						bad = fmt.Sprintf("with left filter %s and right filter %s the composed filter is %s, which rejects a frame although `left %s right` can hold for a value in it", nilStr(lnil), nilStr(rnil), term, op)
					}
				}
			}
		}
		if bad != "" {
			c.Fail("C04-F1", construct, is.Pos(), "the buffer filter is no longer an over-approximation: "+bad+" — ZNG input drops frames that ZSON input matches")
		} else {
			c.OK("C04-F1", construct, is.Pos(), "over-approximates the predicate for every combination of present/absent sub-filters")
		}
		return true
	})
	for _, op := range []string{"and", "or"} {
		if !found[op] {
			c.Undecided("C04-F1", "CompileBufferFilter composition for `"+op+"`", "arm not found")
		}
	}
	// Eval's operator table: opAnd -> &&, opOr -> ||
	ev := p.Func("(*runtime/sam/expr.BufferFilter).Eval")
	epk := p.Pkgs["runtime/sam/expr"]
	if ev == nil || epk == nil || p.Decl(ev) == nil {
		c.Undecided("C04-F1", "(*runtime/sam/expr.BufferFilter).Eval", "anchor does not resolve")
		return
	}
	want := map[string]token.Token{"opAnd": token.LAND, "opOr": token.LOR}
	seen := map[string]bool{}
	ast.Inspect(p.Decl(ev).Body, func(n ast.Node) bool {
		cc, ok := n.(*ast.CaseClause)
		if !ok || len(cc.List) != 1 || len(cc.Body) != 1 {
			return true
		}
		id, ok := cc.List[0].(*ast.Ident)
		if !ok {
			return true
		}
		tok, interesting := want[id.Name]
		if !interesting {
			return true
		}
		seen[id.Name] = true
		ret, ok := cc.Body[0].(*ast.ReturnStmt)
		be, isBin := ast.Expr(nil), false
		if ok && len(ret.Results) == 1 {
			be, isBin = ret.Results[0], true
		}
		b, _ := be.(*ast.BinaryExpr)
		if isBin && b != nil && b.Op == tok {
			c.OK("C04-F1", "BufferFilter.Eval "+id.Name, cc.Pos(), "evaluated with "+tok.String())
		} else {
			c.Fail("C04-F1", "BufferFilter.Eval "+id.Name, cc.Pos(), id.Name+" is not evaluated with "+tok.String()+": the buffer filter no longer means what the compiler composed")
		}
		return true
	})
	for k := range want {
		if !seen[k] {
			c.Undecided("C04-F1", "BufferFilter.Eval "+k, "case not found")
		}
	}
	// constructors store the matching op
	for ctor, opc := range map[string]string{"NewAndBufferFilter": "opAnd", "NewOrBufferFilter": "opOr"} {
		f := p.Func("runtime/sam/expr." + ctor)
		if f == nil || p.Decl(f) == nil {
			c.Undecided("C04-F1", "expr."+ctor, "anchor does not resolve")
			continue
		}
		ok := false
		ast.Inspect(p.Decl(f).Body, func(n ast.Node) bool {
			kv, isKV := n.(*ast.KeyValueExpr)
			if !isKV {
				return true
			}
			k, _ := kv.Key.(*ast.Ident)
			v, _ := kv.Value.(*ast.Ident)
			if k != nil && v != nil && k.Name == "op" && v.Name == opc {
				ok = true
			}
			return true
		})
		if ok {
			c.OK("C04-F1", "expr."+ctor, f.Pos(), "op: "+opc)
		} else {
			c.Fail("C04-F1", "expr."+ctor, f.Pos(), ctor+" does not build a filter with op "+opc)
		}
	}
	// a keyword search needs the value pattern OR the field-name pattern
	searchOK := false
	ast.Inspect(p.Decl(fn).Body, func(n ast.Node) bool {
		call, ok := n.(*ast.CallExpr)
		if !ok || len(call.Args) != 2 {
			return true
		}
		f := calleeObj(pk.TypesInfo, call)
		if f == nil {
			return true
		}
		uses := func(e ast.Expr, ctor string) bool {
			id, ok := e.(*ast.Ident)
			if !ok {
				return false
			}
			hit := false
			ast.Inspect(p.Decl(fn).Body, func(m ast.Node) bool {
				as, ok := m.(*ast.AssignStmt)
				if !ok || len(as.Lhs) < 1 || len(as.Rhs) != 1 {
					return true
				}
				if l, ok := as.Lhs[0].(*ast.Ident); ok && l.Name == id.Name && pk.TypesInfo.Defs[l] == pk.TypesInfo.Uses[id] {
					if c2, ok := as.Rhs[0].(*ast.CallExpr); ok {
						if g := calleeObj(pk.TypesInfo, c2); g != nil && g.Name() == ctor {
							hit = true
						}
					}
				}
				return true
			})
			return hit
		}
		if (uses(call.Args[0], "NewBufferFilterForStringCase") && uses(call.Args[1], "NewBufferFilterForFieldName")) || (uses(call.Args[1], "NewBufferFilterForStringCase") && uses(call.Args[0], "NewBufferFilterForFieldName")) {
			if f.Name() == "NewOrBufferFilter" {
				searchOK = true
			} else {
				c.Fail("C04-F1", "CompileBufferFilter keyword search", call.Pos(), "a keyword search matches a string value OR a field name, but the buffer filter requires both: frames whose only match is a field name (or only a value) are dropped")
				searchOK = true
			}
		}
		return true
	})
	if !searchOK {
		c.Undecided("C04-F1", "CompileBufferFilter keyword search", "combination of the string-case and field-name filters not found")
	} else if len(c.Findings) == 0 || true {
		c.OK("C04-F1", "CompileBufferFilter keyword search shape", fn.Pos(), "value pattern and field-name pattern are combined")
	}
}

func nilStr(b bool) string {
	if b {
		return "absent"
	}
	return "present"
}
