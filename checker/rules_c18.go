package main

import (
	"go/token"
	"go/types"
	"sort"
	"strings"

	"golang.org/x/tools/go/ssa"
)

// C18 — a failed write to the output is always reported.
//
// Scope (computed on every run): every method of every named type of the
// module that implements zio.Writer (Write(zed.Value) error) or io.Writer /
// io.Closer inside the output-layer packages, plus the copy loops, plus
// everything these reach through static calls inside the module.

var c18Pkgs = []string{
	"zio", "zio/zngio", "zio/zsonio", "zio/zjsonio", "zio/jsonio", "zio/csvio", "zio/zeekio",
	"zio/tableio", "zio/textio", "zio/lakeio", "zio/vngio", "zio/anyio", "zio/emitter", "vng",
	"pkg/bufwriter", "lake/data", "lake/seekindex", "zbuf", "lake", "zson", "zio/zjsonio",
}

// packages outside the property's format list (arrow/parquet) are not entry
// points, but are still analysed if reached.
var c18EntryPkgs = map[string]bool{
	"zio": true, "zio/zngio": true, "zio/zsonio": true, "zio/zjsonio": true, "zio/jsonio": true, "zio/csvio": true,
	"zio/zeekio": true, "zio/tableio": true, "zio/textio": true, "zio/lakeio": true, "zio/vngio": true,
	"zio/anyio": true, "zio/emitter": true, "vng": true, "pkg/bufwriter": true, "lake/data": true,
	"lake/seekindex": true, "zbuf": true, "lake": true,
}

// extra entry points that are plain functions (copy loops).
var c18EntryFuncs = []string{
	"zio.Copy", "zio.CopyWithContext", "zbuf.CopyPuller", "zbuf.WriteBatch",
}

// infallible or sticky-error sinks: a dropped result of these callees cannot
// lose a sink error.  Keyed by receiver type (resolved), one reason each.
var c18InfallibleRecv = map[string]string{
	"*bytes.Buffer":    "bytes.Buffer writes cannot fail (they panic on OOM)",
	"*strings.Builder": "strings.Builder writes cannot fail",
	"*bufio.Writer":    "bufio.Writer errors are sticky; the Flush that follows is an obligation of its own",
	"hash.Hash":        "hash.Hash.Write never returns an error",
	"*zson.Formatter":  "Formatter writes into its own strings.Builder",
}

// exempt (function, callee) pairs, each with its reason.
var c18Exempt = map[string]string{
	"(*vng.Writer).finalize -> (*zio/zngio.Writer).EndStream": "the zngio writer used for VNG metadata is constructed over a local bytes.Buffer (zio.NopCloser(&metaBuf)); its flush cannot fail",
}

func c18Scope(p *Prog) (entries []*ssa.Function, scope map[*ssa.Function]bool) {
	zw, _ := p.Type("zio", "Writer").Underlying().(*types.Interface)
	ioW := ifaceOf(p, "io", "Writer")
	ioC := ifaceOf(p, "io", "Closer")
	writerTypes := map[string]bool{}
	for rp, pk := range p.Pkgs {
		if !c18EntryPkgs[rp] {
			continue
		}
		sc := pk.Types.Scope()
		for _, n := range sc.Names() {
			tn, ok := sc.Lookup(n).(*types.TypeName)
			if !ok || tn.IsAlias() {
				continue
			}
			if _, isIface := tn.Type().Underlying().(*types.Interface); isIface {
				continue
			}
			pt := types.NewPointer(tn.Type())
			impl := (zw != nil && types.Implements(pt, zw)) || (ioW != nil && types.Implements(pt, ioW))
			if !impl && ioC != nil && types.Implements(pt, ioC) && strings.Contains(strings.ToLower(n), "writer") {
				impl = true
			}
			if impl {
				writerTypes[namedOf(tn.Type())] = true
			}
		}
	}
	for _, fn := range p.Funcs {
		if fn.Parent() != nil || fn.Signature.Recv() == nil {
			continue
		}
		if writerTypes[namedOf(fn.Signature.Recv().Type())] {
			entries = append(entries, fn)
		}
	}
	for _, n := range c18EntryFuncs {
		if f := p.Func(n); f != nil {
			entries = append(entries, f)
		}
	}
	keep := func(f *ssa.Function) bool {
		pk := p.PkgOf(f)
		// stay inside the output layer and what it is built from
		return c18EntryPkgs[pk] || hasPrefixAny(pk, "zio/", "zson", "pkg/bufwriter", "vng", "lake/", "zbuf", "pkg/storage", "zcode", "pkg/terminal/color")
	}
	roots := append([]*ssa.Function{}, entries...)
	for {
		scope = reachableStatic(roots, keep)
		// calls through interfaces that the module itself defines (vng.Encoder.Emit, ...): the
		// module's implementers are part of the write path too
		added := false
		for f := range scope {
			for _, ci := range allCalls(f) {
				cc := ci.Common()
				if !cc.IsInvoke() || errIndex(cc.Signature()) < 0 || !(sinkMethodNames[cc.Method.Name()] || cc.Method.Name() == "Emit") {
					continue
				}
				nt, ok := cc.Value.Type().(*types.Named)
				if !ok || nt.Obj().Pkg() == nil || !strings.HasPrefix(nt.Obj().Pkg().Path(), modPath) {
					continue
				}
				for _, g := range p.implementersOfCall(cc) {
					if !scope[g] && keep(g) && g.Blocks != nil && !strings.HasSuffix(p.Pos(g.Pos()), "_test.go") {
						roots = append(roots, g)
						added = true
					}
				}
			}
		}
		if !added {
			break
		}
	}
	return
}

func ifaceOf(p *Prog, pkg, name string) *types.Interface {
	for _, pk := range p.Pkgs {
		for _, imp := range pk.Types.Imports() {
			if imp.Path() == pkg {
				if o := imp.Scope().Lookup(name); o != nil {
					i, _ := o.Type().Underlying().(*types.Interface)
					return i
				}
			}
		}
	}
	return nil
}

func runC18(c *Ctx, tier string) {
	p := c.P
	c.Rule("C18-E1", "no dropped sink error: on the write path every call whose last result is error has that result looked at (returned, stored, wrapped, combined); infallible/sticky sinks are enumerated")
	c.Rule("C18-E2", "no swallowed error: an error on the write path is never only compared with nil and then discarded")
	c.Rule("C18-E4", "buffered sinks are flushed: a writer type holding a bufio/tabwriter/csv writer has a Close that flushes on every path, or every exported writing method flushes on every path from the write to a return")
	c.Rule("C18-E3", "void flush APIs: after (*encoding/csv.Writer).Flush every path to a return passes Error() and its result is propagated; a bufio.Writer held by a writer type has a propagated Flush")
	if p.Type("zio", "Writer") == nil {
		c.Undecided("C18-E1", "zio.Writer", "anchor type zio.Writer does not resolve")
		return
	}
	entries, scope := c18Scope(p)
	if len(entries) < 60 {
		c.Undecided("C18-E1", "scope", "fewer than 60 writer entry points resolved")
	}
	sinks := newSinkSet(p)
	var fns []*ssa.Function
	for f := range scope {
		fns = append(fns, f)
	}
	sort.Slice(fns, func(i, j int) bool { return fns[i].String() < fns[j].String() })
	for _, fn := range fns {
		name := constructName(fn)
		for _, ci := range allCalls(fn) {
			cc := ci.Common()
			if errIndex(cc.Signature()) < 0 {
				continue
			}
			callee := calleeName(cc)
			if callee == "" {
				callee = "dynamic:" + short(cc.Value.Type().String())
			}
			construct := name + " -> " + callee
			if !sinks.isSinkCall(cc) {
				continue
			}
			if fn.Name() == "Abort" && fn.Signature.Results().Len() == 0 {
				c.OK("C18-E1", construct, ci.Pos(), "exempt: Abort() has no result; it is the cleanup of a write that is already being reported as failed")
				continue
			}
			if onErrorPathStrict(ci) {
				c.OK("C18-E1", construct, ci.Pos(), "cleanup on a path that already returns a non-nil error")
				continue
			}
			if _, ok := c18Exempt[construct]; ok {
				c.OK("C18-E1", construct, ci.Pos(), "exempt: "+c18Exempt[construct])
				continue
			}
			switch errVerdict(ci) {
			case "propagated":
				if ret := errDeadOnSomePath(ci); ret != nil {
					c.Fail("C18-E1", construct, ci.Pos(), "error result of "+callee+" is looked at on some paths only: the return at "+p.Pos(ret.Pos())+" is reachable from the call without any test, return or store of that error (dropped on that path)")
				} else {
					c.OK("C18-E1", construct, ci.Pos(), "propagated on every path")
				}
			case "dropped":
				how := "result discarded"
				if _, ok := ci.(*ssa.Defer); ok {
					how = "deferred call discards its error"
				}
				c.Fail("C18-E1", construct, ci.Pos(), "error result of "+callee+" is dropped ("+how+")")
			case "swallowed":
				c.Fail("C18-E2", construct, ci.Pos(), "error result of "+callee+" is compared with nil and then discarded (never returned, stored or passed on)")
			}
		}
		c18VoidFlush(c, fn, name)
	}
	c18Buffered(c)
	c.Rule("C18-E5", "a writer that wraps a closer closes it: every nil return of its Close has closed the wrapped io.WriteCloser")
	c18CloseReaches(c)
	runLoopErrorNotOverwritten(c, "C18-E7", append(append([]string{}, c18Pkgs...), "cli/outputflags", "zio/emitter", "pkg/bufwriter")...)
	runDeferredOverwrite(c, "C18-E6", append(append([]string{}, c18Pkgs...), "cli/outputflags", "pkg/storage", "zio/parquetio", "zio/arrowio", "lake/commits", "lake/journal", "service", "runtime/sam/op/spill")...)
	c.Floor("C18-E1", 90)
	c.Floor("C18-E4", 4)
}

// isFprintToInfallible: fmt.Fprint*(w, ...) where w is statically a
// *bytes.Buffer / *strings.Builder.
func isFprintToInfallible(cc *ssa.CallCommon) bool {
	f := cc.StaticCallee()
	if f == nil || f.Pkg == nil || f.Pkg.Pkg.Path() != "fmt" || !strings.HasPrefix(f.Name(), "Fprint") {
		return false
	}
	if len(cc.Args) == 0 {
		return false
	}
	t := short(stripConv(cc.Args[0]).Type().String())
	_, ok := c18InfallibleRecv[t]
	return ok && t != "*bufio.Writer"
}

// c18VoidFlush: E3.  (*csv.Writer).Flush has no result; the error must be
// fetched with Error() afterwards on every path to a return.
func c18VoidFlush(c *Ctx, fn *ssa.Function, name string) {
	for _, ci := range allCalls(fn) {
		cc := ci.Common()
		if calleeName(cc) != "(*encoding/csv.Writer).Flush" {
			continue
		}
		construct := name + " -> (*encoding/csv.Writer).Flush"
		if _, ok := ci.(*ssa.Call); !ok {
			c.Fail("C18-E3", construct, ci.Pos(), "deferred csv Flush: its error can never be fetched")
			continue
		}
		isErrCall := func(in ssa.Instruction) bool {
			x, ok := in.(*ssa.Call)
			return ok && calleeName(x.Common()) == "(*encoding/csv.Writer).Error" && errVerdict(x) == "propagated"
		}
		isRet := func(in ssa.Instruction) bool { _, ok := in.(*ssa.Return); return ok }
		if r := reachAvoiding(fn, ci.(ssa.Instruction), isErrCall, isRet); r != nil {
			c.Fail("C18-E3", construct, ci.Pos(), "a path from csv.Writer.Flush() reaches the return at "+c.P.Pos(r.Pos())+" without a propagated Error()")
		} else {
			c.OK("C18-E3", construct, ci.Pos(), "Error() propagated on every path after Flush")
		}
	}
}

func init() {
	register(&PropertyDef{ID: "C18", Run: runC18,
		Explanation: "Decides the error-discipline clause of C18 for every path of every function on the output write path (all methods of all zio.Writer/io.Writer implementers of the output layer, the copy loops, and their static callees): no sink error is dropped (E1), swallowed after a nil check (E2), or left in a void-flush API (E3). Does NOT decide the second sentence of the property (the bytes form a complete readable stream) nor short-write accounting.",
		Assumptions: []string{
			"bytes.Buffer/strings.Builder/hash.Hash writes cannot fail; bufio.Writer errors are sticky (documented stdlib contracts)",
			"errors passed to any call (wrapping, errors.Is, logging) count as handled; only never-looked-at and nil-check-then-discard are violations",
			"calls through interfaces are the callee's own obligation (every implementer in the output layer is itself an entry point)",
		}})
}

var bufferedSinkTypes = map[string]string{
	"*bufio.Writer":          "(*bufio.Writer).Flush",
	"*text/tabwriter.Writer": "(*text/tabwriter.Writer).Flush",
	"*encoding/csv.Writer":   "(*encoding/csv.Writer).Flush",
}

// c18Buffered: E4.  A writer type that holds a buffering sink (bufio, tabwriter,
// csv) must flush it: either its own Close flushes on every path, or every
// method that writes into the buffer flushes on every path from the write to
// a return.
func c18Buffered(c *Ctx) {
	p := c.P
	for rp, pk := range p.Pkgs {
		if !c18EntryPkgs[rp] {
			continue
		}
		sc := pk.Types.Scope()
		for _, n := range sc.Names() {
			tn, ok := sc.Lookup(n).(*types.TypeName)
			if !ok {
				continue
			}
			st, ok := tn.Type().Underlying().(*types.Struct)
			if !ok {
				continue
			}
			for i := 0; i < st.NumFields(); i++ {
				ft := short(st.Field(i).Type().String())
				flush, ok := bufferedSinkTypes[ft]
				if !ok {
					continue
				}
				c18CheckBufferedType(c, tn, st.Field(i).Name(), ft, flush)
			}
		}
	}
}

func c18CheckBufferedType(c *Ctx, tn *types.TypeName, field, ftype, flushName string) {
	p := c.P
	tname := namedOf(tn.Type())
	construct := tname + "." + field
	var methods []*ssa.Function
	for _, fn := range p.Funcs {
		if fn.Parent() == nil && fn.Signature.Recv() != nil && namedOf(fn.Signature.Recv().Type()) == tname {
			methods = append(methods, fn)
		}
	}
	isFlushCall := func(cc *ssa.CallCommon) bool { return calleeName(cc) == flushName }
	isWriteCall := func(cc *ssa.CallCommon) bool {
		if recvTypeString(cc) == ftype && !isFlushCall(cc) && (strings.HasPrefix(calleeBare(cc), "Write")) {
			return true
		}
		if writerArgFuncs[calleeName(cc)] {
			for _, a := range cc.Args {
				if short(stripConv(a).Type().String()) == ftype {
					return true
				}
			}
		}
		return false
	}
	writes := map[*ssa.Function]bool{}
	mustFlush := map[*ssa.Function]bool{}
	isRet := func(in ssa.Instruction) bool { _, ok := in.(*ssa.Return); return ok }
	flushes := func(in ssa.Instruction) bool {
		ci, ok := in.(*ssa.Call)
		if !ok {
			return false
		}
		if isFlushCall(ci.Common()) {
			return true
		}
		if g := ci.Common().StaticCallee(); g != nil && mustFlush[g] {
			return true
		}
		return false
	}
	for changed := true; changed; {
		changed = false
		for _, m := range methods {
			if !writes[m] {
				for _, ci := range allCalls(m) {
					g := ci.Common().StaticCallee()
					if isWriteCall(ci.Common()) || (g != nil && writes[g]) {
						writes[m] = true
						changed = true
						break
					}
				}
			}
			if !mustFlush[m] {
				hasFlush := false
				for _, b := range m.Blocks {
					for _, in := range b.Instrs {
						if flushes(in) {
							hasFlush = true
						}
					}
				}
				if hasFlush && reachAvoiding(m, nil, flushes, isRet) == nil {
					mustFlush[m] = true
					changed = true
				}
			}
		}
	}
	for _, m := range methods {
		if m.Name() == "Close" && mustFlush[m] {
			c.OK("C18-E4", construct, m.Pos(), "Close flushes the buffered sink on every path")
			return
		}
	}
	// no flushing Close: every exported writing method must flush after its writes
	okAll, any := true, false
	for _, m := range methods {
		if !writes[m] || !m.Object().Exported() {
			continue
		}
		any = true
		for _, ci := range allCalls(m) {
			g := ci.Common().StaticCallee()
			if !(isWriteCall(ci.Common()) || (g != nil && writes[g])) {
				continue
			}
			if r := reachAvoiding(m, ci.(ssa.Instruction), flushes, isRet); r != nil {
				okAll = false
				c.Fail("C18-E4", construct, ci.Pos(), "bytes written into the buffered "+ftype+" by "+fnName(m)+" can reach the return at "+p.Pos(r.Pos())+" without a Flush, and the type's Close does not flush on every path")
			}
		}
	}
	if okAll && any {
		c.OK("C18-E4", construct, tn.Pos(), "every exported writing method flushes after its writes")
	} else if !any {
		// embedded buffered writer whose writes are made by clients (bufwriter): needs a flushing Close
		c.Fail("C18-E4", construct, tn.Pos(), "type holds a buffered "+ftype+" but neither a Close that flushes on every path nor a flushing write method")
	}
}

// c18CloseReaches: E5.  A writer that wraps a closer must close it: buffered sinks
// (bufwriter, storage puts) only become durable / visible on Close, so a Close that
// returns nil without closing the wrapped sink reports success for bytes that never arrived.
func c18CloseReaches(c *Ctx) {
	p := c.P
	closerIfaces := map[string]bool{"io.WriteCloser": true, "io.Closer": true, "zio.WriteCloser": true, "io.ReadWriteCloser": true}
	n := 0
	for rp, pk := range p.Pkgs {
		if !c18EntryPkgs[rp] {
			continue
		}
		sc := pk.Types.Scope()
		for _, name := range sc.Names() {
			tn, ok := sc.Lookup(name).(*types.TypeName)
			if !ok {
				continue
			}
			st, ok := tn.Type().Underlying().(*types.Struct)
			if !ok {
				continue
			}
			tname := namedOf(tn.Type())
			closeFn := p.Func("(*" + tname + ").Close")
			if closeFn == nil {
				continue // no Close of its own (promoted or not a closer)
			}
			if errIndex(closeFn.Signature) < 0 {
				continue
			}
			for i := 0; i < st.NumFields(); i++ {
				f := st.Field(i)
				if !closerIfaces[short(f.Type().String())] {
					continue
				}
				n++
				construct := tname + ".Close closes ." + f.Name()
				closes := func(in ssa.Instruction) bool {
					ci, ok := in.(*ssa.Call)
					if !ok {
						return false
					}
					cc := ci.Common()
					if cc.IsInvoke() && cc.Method.Name() == "Close" && isFieldLoad(cc.Value, f.Name()) {
						return true
					}
					// a helper method of the same type that closes on every path
					if g := cc.StaticCallee(); g != nil && g != closeFn && g.Signature.Recv() != nil && namedOf(g.Signature.Recv().Type()) == tname {
						for _, c2 := range allCalls(g) {
							if c2.Common().IsInvoke() && c2.Common().Method.Name() == "Close" && isFieldLoad(c2.Common().Value, f.Name()) {
								return true
							}
						}
					}
					return false
				}
				// a nil return is fine where the wrapped sink is known to be nil (nothing was opened)
				var nilTests []*ssa.BinOp
				for _, b := range closeFn.Blocks {
					for _, in := range b.Instrs {
						if cmp, ok := in.(*ssa.BinOp); ok && cmp.Op == token.EQL && isNilConst(cmp.Y) && isFieldLoad(cmp.X, f.Name()) {
							nilTests = append(nilTests, cmp)
						}
					}
				}
				isRet := func(in ssa.Instruction) bool {
					r, ok := in.(*ssa.Return)
					if !ok || !isNilConst(returnOperand(r, len(r.Results)-1)) {
						return false
					}
					for _, t := range nilTests {
						if trueEdgeDominatesOrSelf(t, r.Block()) {
							return false
						}
					}
					return true
				}
				// deferred close also counts
				deferred := false
				for _, ci := range allCalls(closeFn) {
					if d, ok := ci.(*ssa.Defer); ok && d.Call.IsInvoke() && d.Call.Method.Name() == "Close" && isFieldLoad(d.Call.Value, f.Name()) {
						deferred = true
					}
				}
				if deferred {
					c.Fail("C18-E5", construct, closeFn.Pos(), "the wrapped sink is closed by a deferred call whose error is discarded")
					continue
				}
				if r := reachAvoiding(closeFn, nil, closes, isRet); r != nil {
					c.Fail("C18-E5", construct, r.Pos(), "Close can return nil without closing the wrapped sink: buffered bytes (bufwriter, storage put) never reach it, yet success is reported")
				} else {
					c.OK("C18-E5", construct, closeFn.Pos(), "every nil return of Close has closed the wrapped sink")
				}
			}
		}
	}
	if n < 6 {
		c.Undecided("C18-E5", "writer types wrapping a closer", "fewer than 6 found")
	}
}
