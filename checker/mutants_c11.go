package main

func init() {
	addMutants(
		Mutant{"C11", "c11-worker-norecover", "zio/zngio/scanner.go", "worker.scanBatch",
			"if r := recover(); r != nil {", "if r := any(nil); r != nil {", "C11-G1", "(*zio/zngio.worker).run"},
		Mutant{"C11", "c11-open-norecover", "zio/anyio/file.go", "Open",
			"if r := recover(); r != nil {", "if r := any(nil); r != nil {", "C11-G1", "zio/anyio.Open"},
		Mutant{"C11", "c11-union-nocheck", "context.go", "Context.DecodeTypeValue",
			"typ, tv = c.DecodeTypeValue(tv)\n\t\t\tif tv == nil {\n\t\t\t\treturn nil, nil\n\t\t\t}\n\t\t\ttypes = append(types, typ)", "typ, tv = c.DecodeTypeValue(tv)\n\t\t\ttypes = append(types, typ)", "C11-N1", "DecodeTypeValue -> (*super.Context).DecodeTypeValue"},
		Mutant{"C11", "c11-record-nomax", "context.go", "Context.DecodeTypeValue",
			"if tv == nil || n > MaxRecordFields {", "if tv == nil {", "C11-A1", "DecodeTypeValue make"},
		Mutant{"C11", "c11-frame-nomax", "zio/zngio/parser.go", "parser.readCompressedFrame",
			"if size > p.maxSize {\n\t\treturn frame{}, fmt.Errorf(\"zngio: frame length (%d) exceeds maximum allowed (%d)\", size, p.maxSize)\n\t}", "", "C11-A1", "newBuffer"},
		Mutant{"C11", "c11-uvarint-unchecked", "zio/zngio/reader.go", "readUvarintAsInt",
			"if u64 > math.MaxInt {", "if false && u64 > math.MaxInt {", "C11-A2", "zio/zngio.readUvarintAsInt"},
		Mutant{"C11", "c11-decodelength-unchecked", "context.go", "DecodeLength",
			"if n <= 0 || namelen > math.MaxInt {", "if n <= 0 || (false && namelen > math.MaxInt) {", "C11-A2", "super.DecodeLength"},
		Mutant{"C11", "c11-header-datasize", "vng/header.go", "Header.Deserialize",
			"if h.DataSize > MaxDataSize {", "if h.MetaSize > MaxDataSize {", "C11-A3", "vng.Header.DataSize"},
		Mutant{"C11", "c11-zjson-must-record", "zio/zjsonio/types.go", "",
			"return zctx.LookupTypeRecord(fields)", "return zctx.MustLookupTypeRecord(fields), nil", "C11-P1", "MustLookupTypeRecord"},
		Mutant{"C11", "c11-zjson-named-panic", "zio/zjsonio/types.go", "",
			"typ, err := zctx.LookupTypeNamed(t.Name, inner)\n\t\td[t.ID] = typ", "typ, err := zctx.LookupTypeNamed(t.Name, inner)\n\t\tif err != nil {\n\t\t\tpanic(err)\n\t\t}\n\t\td[t.ID] = typ", "C11-P1", "panic(err) after"},
		Mutant{"C11", "c11-worker-noclose", "zio/zngio/scanner.go", "worker.run",
			"close(work.resultCh)\n", "", "C11-O4", "(*zio/zngio.worker).run result protocol"},
	)
}
