package main

func init() {
	addMutants(
		Mutant{"C05", "c05-typedef-nolock", "context.go", "Context.LookupTypeDef",
			"c.mu.Lock()\n\tdefer c.mu.Unlock()\n", "", "C05-L1", "LookupTypeDef"},
		Mutant{"C05", "c05-lookuptype-nolock", "context.go", "Context.LookupType",
			"c.mu.RLock()\n\tdefer c.mu.RUnlock()\n", "", "C05-L1", "LookupType"},
		Mutant{"C05", "c05-rlock-for-insert", "context.go", "Context.LookupTypeSet",
			"c.mu.Lock()\n\tdefer c.mu.Unlock()", "c.mu.RLock()\n\tdefer c.mu.RUnlock()", "C05-L1", "LookupTypeSet"},
		Mutant{"C05", "c05-unlock-window", "context.go", "Context.LookupTypeMap",
			"typ := NewTypeMap(c.nextIDWithLock(), keyType, valType)", "c.mu.Unlock()\n\tc.mu.Lock()\n\ttyp := NewTypeMap(c.nextIDWithLock(), keyType, valType)", "C05-L3", "LookupTypeMap"},
		Mutant{"C05", "c05-defer-put", "context.go", "Context.LookupTypeSet",
			"tv := tvPool.Get().(*[]byte)", "tv := tvPool.Get().(*[]byte)\n\tdefer tvPool.Put(tv)", "C05-P2", "LookupTypeSet"},
		Mutant{"C05", "c05-union-nosort", "context.go", "Context.LookupTypeUnion",
			"sort.SliceStable(types, func(i, j int) bool {\n\t\treturn CompareTypes(types[i], types[j]) < 0\n\t})", "_ = sort.SliceStable", "C05-P1", "LookupTypeUnion"},
		Mutant{"C05", "c05-byvalue-overwrite", "context.go", "Context.LookupByValue",
			"if _, ok := c.toValue[typ]; !ok {\n\t\tc.toValue[typ] = slices.Clone(tv)\n\t}", "c.toValue[typ] = slices.Clone(tv)", "C05-W1", "LookupByValue"},
		Mutant{"C05", "c05-byvalue-alias", "context.go", "Context.LookupByValue",
			"c.toValue[typ] = slices.Clone(tv)", "c.toValue[typ] = tv", "C05-W1", "LookupByValue"},
		Mutant{"C05", "c05-byvalue-defer-window", "context.go", "Context.LookupByValue",
			"c.mu.RLock()\n\ttyp, ok := c.toType[string(tv)]\n\tc.mu.RUnlock()\n\tif ok {\n\t\treturn typ, nil\n\t}\n\ttyp, rest := c.DecodeTypeValue(tv)\n\tif rest == nil {\n\t\treturn nil, errors.New(\"bad type value encoding\")\n\t}\n\tc.mu.Lock()\n\tdefer c.mu.Unlock()",
			"c.mu.Lock()\n\tdefer c.mu.Unlock()\n\ttyp, ok := c.toType[string(tv)]\n\tif ok {\n\t\treturn typ, nil\n\t}\n\tc.mu.Unlock()\n\ttyp, rest := c.DecodeTypeValue(tv)\n\tc.mu.Lock()\n\tif rest == nil {\n\t\treturn nil, errors.New(\"bad type value encoding\")\n\t}", "C05-L2", "LookupByValue"},
		Mutant{"C05", "c05-enter-caller-bytes", "context.go", "Context.LookupTypeNamed",
			"c.enterWithLock(*tv, typ)", "c.enterWithLock([]byte(name), typ)", "C05-W1", "LookupTypeNamed"},
		Mutant{"C05", "c05-mapper-nolock", "mapper.go", "Mapper.EnterType",
			"m.mu.Lock()", "", "C05-L1", "EnterType"},
		Mutant{"C05", "c05-decode-drops-nameref", "context.go", "Context.DecodeTypeValue",
			"case TypeValueNameRef:", "case TypeValueMax + 1:", "C05-K1", "TypeValueNameRef"},
		Mutant{"C05", "c05-self-deadlock", "context.go", "Context.LookupTypeError",
			"if inner == TypeString {", "if c.LookupTypeDef(\"x\") != nil || inner == TypeString {", "C05-L4", "LookupTypeError"},
	)
}
